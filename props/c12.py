"""C12 - spec_property and classproperty follow the override / cache / getter protocol."""
import os
from pyvc import harness

PROPERTY = "C12"
LEVEL = "proof"
CONTRACT_MODULES = ["contracts.c12_spec_property"]
ASSUMPTIONS = [
    "A-CB: getters / setters / deleters / preparers are pure deterministic callbacks (uninterpreted application), they may raise anything",
    "A-META: an instance's __spec_class__, when present, is a well-formed SpecClassMetadata record (attrs: dict of Attr records keyed by name)",
    "prepare_attr_value and check_type are used through their contracts (C05 / C15)",
    "classproperty accessors are classmethod-wrapped (the fget/fset/fdel property setters wrap plain functions; staticmethod accessors are not modelled)",
    "the per-operation contracts are composed into 'any interleaving of reads, assignments and deletions' by induction over the "
    "three-state machine; that refinement step is executed concretely by the bounded harness (sequences <= 3/4), not proved",
    "option propagation through .getter/.setter/.deleter (re-construction with **self.attrs) is outside the subset: bounded stand-in",
    "spec_property.__spec_class_invalidated_by__ (read by bootstrap to build the invalidation map, C11) is under contract; what bootstrap does with it is A-META",
    "__set_name__ (which fixes the slot name every operation uses, and must keep every option) is under contract for both descriptor kinds",
]
EXPLANATION = ("spec_property.__get__/__set__/__delete__ and classproperty.__get__/__set__/__delete__ (with _cache_key and the "
               "accessor properties inlined) are symbolically executed from the current source; postconditions are the protocol of "
               "the statement with all option flags symbolic; accessor invocations are counted on every path (called exactly once / "
               "not at all); failing operations leave the instance / class cache unchanged.")


def extra_checks(ft, tier, seed):
    out = []
    out.append(harness.codecheck(["spec_classes.types.spec_property:spec_property.%s" % n for n in ("__get__", "__set__", "__delete__")] +
                                 ["spec_classes.types.spec_property:classproperty.%s" % n for n in ("__get__", "__set__", "__delete__", "_cache_key")]))
    n = 3 if tier == "quick" else 4
    out.append(harness.standin("standin.protocol-state-machine", "bounded/c12.py",
                               ["--standin", n, os.path.join(harness.VERIF, "replays", "C12")],
                               "composition of the per-operation contracts into the three-state machine of the statement; option "
                               "propagation through .getter/.setter/.deleter; spec-class route (preparer + type check)",
                               "all 16 option combinations x plain/spec class x every operation sequence of length <= %d; "
                               "classproperty over a 3-class hierarchy, sequences <= 3" % n))
    return out


find_counterexample = harness.finder("bounded/c12.py")
