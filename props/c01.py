"""C01 - Copy-on-write helpers never change the instance they are called on."""
import os
from pyvc import harness
from ._spec_common import *

PROPERTY = "C01"
LEVEL = "proof"
TARGETS = ['MutateAttr', 'DeepCopy', 'WithAttr', 'ResetAttr', 'Reset', 'InvalidateAttrs', 'DelAttr', 'SetAttr', 'MutateValue', 'UpdateAttr', 'TransformAttr', 'Update', 'Transform']
FAMILY_FILTER = ['c01.'] + STRUCTURAL
ASSUMPTIONS = A_COMMON + [
    "protect_via_deepcopy is used by its callers through the contract ProtectCopy; that contract (copier clause) is discharged against "
    "the function body in the sub-check ProtectBody, where copy.deepcopy itself is the assumed A-COPY and the module guard is used through its C20 contracts",
    "clauses of other properties on the same functions are discharged by those properties' own checks",
    "transitive chains of invalidation, collection element helpers, update/transform (mutate_value) and the constructor are covered here "
    "only through the bounded harness; their contracts live in the checks of C05/C06/C09",
]
EXPLANATION = "write-site frame obligations: in mutate_attr / with_<attr> / reset_<attr> / reset / __deepcopy__ every heap write targets an object allocated during the call unless _inplace (or a do_not_copy class); 'receiver unchanged' is a postcondition on normal and exceptional exits; callee effects by contract"
SUBCHECKS = [("props._copy_protect", ["ProtectBody"]), ("props._c06_for_c01", __import__("props.c06", fromlist=["TARGETS"]).TARGETS), ("props._c06_prepare", __import__("props._c06_prepare", fromlist=["TARGETS"]).TARGETS)]
FINDINGS = []


def extra_checks(ft, tier, seed):
    out = [harness.codecheck(CORE_QUALS)]
    out.append(harness.standin("standin.api-histories", "bounded/spec.py", ["--standin", PROPERTY, "-", os.path.join(harness.VERIF, "replays", PROPERTY)],
                               "composition of the per-function contracts through the public API (A-META on the class corpus; "
                               "update/transform/element helpers/chains not under contract here)",
                               "4 corpus classes (plain, frozen twin, spec subclass, plain subclass) x 5 reachable states x ~87 helper calls with valid and invalid arguments"))
    out.append(harness.standin("standin.extra-corpus", "bounded/spec_extra.py", ["--find", PROPERTY, "-", os.path.join(harness.VERIF, "replays", PROPERTY)],
                               "usages outside the main corpus (tuple-valued attributes, nested updates failing half-way, containers with mutable values, "
                               "keyed containers handed in whole, update_<attr>() with nothing to apply, chains of cached properties)",
                               "the hand-written cases of bounded/spec_extra.py registered for this property"))
    for f in FINDINGS:
        r = harness.run_json("bounded/spec.py", ["--finding", f])
        if r.get("reproduces"):
            out.append({"name": "finding." + f, "status": "known", "kind": "known finding (open)", "what": r["witness"]})
        elif "error" in r:
            out.append({"name": "finding." + f, "status": "error", "detail": r["error"]})
    return out


def find_counterexample(fn, violation, outdir):
    if fn and ("Mutator" in fn or "ItemMethod" in fn):
        return harness.run_json("bounded/c06.py", ["--find", fn, outdir])          # collection mutators / element helpers
    r = harness.run_json("bounded/spec.py", ["--find", PROPERTY, fn or "-", outdir])
    if not r.get("found"):
        r2 = harness.run_json("bounded/spec_extra.py", ["--find", PROPERTY, fn or "-", outdir])          # additional replay corpus
        if r2.get("found"):
            return r2
    return r
