"""C11 - Derived values are never stale after a dependency changes."""
import os
from pyvc import harness
from ._spec_common import *

PROPERTY = "C11"
LEVEL = "proof"
TARGETS = ['InvalidateAttrs', 'MutateAttr', 'SetAttr', 'DelAttr', 'WithAttr', 'ResetAttr']
FAMILY_FILTER = ['c11.'] + STRUCTURAL
ASSUMPTIONS = A_COMMON + [
    "clauses of other properties on the same functions are discharged by those properties' own checks",
    "transitive chains of invalidation, collection element helpers, update/transform (mutate_value) and the constructor are covered here "
    "only through the bounded harness; their contracts live in the checks of C05/C06/C09",
]
EXPLANATION = "invalidate_attrs clears every *transitive* dependant of the changed attribute (and of '*') - the recursion through __delattr__ / invalidate_attrs is verified against these very contracts, with reach() the transitive closure of the invalidation map (both unfolding directions) - touches nothing outside that closure (frame), and only ever clears (monotone); every successful mutation route reaches it unless skip_invalidation; failing mutations leave the receiver unchanged"
FINDINGS = []


def extra_checks(ft, tier, seed):
    out = [harness.codecheck(CORE_QUALS)]
    out.append(harness.standin("standin.api-histories", "bounded/spec.py", ["--standin", PROPERTY, "-", os.path.join(harness.VERIF, "replays", PROPERTY)],
                               "composition of the per-function contracts through the public API (A-META on the class corpus; "
                               "update/transform/element helpers/chains not under contract here)",
                               "4 corpus classes (plain, frozen twin, spec subclass, plain subclass) x 5 reachable states x ~87 helper calls with valid and invalid arguments"))
    out.append(harness.standin("standin.extra-corpus", "bounded/spec_extra.py", ["--find", PROPERTY, "-", os.path.join(harness.VERIF, "replays", PROPERTY)],
                               "usages outside the main corpus (tuple-valued attributes, nested updates failing half-way, containers with mutable values, "
                               "keyed containers handed in whole, update_<attr>() with nothing to apply, chains of cached properties)",
                               "the hand-written cases of bounded/spec_extra.py registered for this property"))
    for f in FINDINGS:
        r = harness.run_json("bounded/spec.py", ["--finding", f])
        if r.get("reproduces"):
            out.append({"name": "finding." + f, "status": "known", "kind": "known finding (open)", "what": r["witness"]})
        elif "error" in r:
            out.append({"name": "finding." + f, "status": "error", "detail": r["error"]})
    r5 = harness.run_json("bounded/findings_r5.py", ["plain-subclass-dependant"])
    if r5.get("reproduces"):
        out.append({"name": "finding.plain-subclass-dependant", "status": "known", "kind": "known finding (open)", "what": r5["witness"]})
    elif "error" in r5:
        out.append({"name": "finding.plain-subclass-dependant", "status": "error", "detail": r5["error"]})
    return out


def find_counterexample(fn, violation, outdir):
    r = harness.run_json("bounded/spec.py", ["--find", PROPERTY, fn or "-", outdir])
    if not r.get("found"):
        r2 = harness.run_json("bounded/spec_extra.py", ["--find", PROPERTY, fn or "-", outdir])          # additional replay corpus
        if r2.get("found"):
            return r2
    return r
