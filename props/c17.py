"""C17 - Every generated method accepts exactly what its advertised signature says (translation validation)."""
import json
import os
from pyvc import harness

PROPERTY = "C17"
LEVEL = "translation_validation"
CONTRACT_MODULES = ["contracts.c17_wrappers"]
TARGETS = ["ValidateAttrs", "Wrapper"]
ASSUMPTIONS = [
    "the corpus of generated programs is bounded: the wrappers MethodBuilder produces for three spec classes (keyed class, class with scalar / nested / "
    "list / dict / set attributes, class with an overflow attribute: 76 generated methods, every helper kind); each distinct wrapper text is proved "
    "for ALL argument values - a wrapper generated for another class is covered only in so far as its text coincides with one of these",
    "the wrapper text is captured by shadowing the module-level name `exec` of spec_classes.utils.method_builder in the dumping process (no repository "
    "change); the text proved is the text that was handed to exec in that process",
    "the implementation is an opaque callable (its own behaviour: the other properties); _method_signature_to_definition_str / "
    "_check_signature_compatible_with_implementation (string assembly over inspect.Signature) are not under contract - their *output* is what is validated",
]
EXPLANATION = ("per generated program: symbolic execution of the wrapper's own source text proves that an unknown keyword raises TypeError before "
               "anything is called and that otherwise the implementation is called exactly once with every parameter forwarded under its name, the "
               "remaining keywords unchanged, and its result returned; validate_attrs is proved against its body for every keyword set; the advertised "
               "signature is compared statically with the wrapper's def line, the accepted virtual keywords and the implementation's signature")
FINDINGS = ["virtual-defaults"]


def extra_checks(ft, tier, seed):
    import contracts.c17_wrappers as m
    out = []
    bad = [(n, b) for n, b in m.STATIC if b]
    rec = {"name": "static.signatures", "kind": "static comparison of advertised signature / def line / implementation signature per generated method",
           "evaluations": len(m.STATIC), "distinct": len(m.RECORDS)}
    if bad:
        d = os.path.join(harness.VERIF, "replays", PROPERTY)
        os.makedirs(d, exist_ok=True)
        p = os.path.join(d, "static_signatures.txt")
        with open(p, "w") as fh:
            fh.write("advertised signatures that disagree with the generated wrapper (re-run: PYTHONPATH=/repo:/verif /venv/bin/python bounded/c17_dump.py)\n"
                     + "\n".join("%s: %s" % (n, "; ".join(b)) for n, b in bad) + "\n")
        rec.update(status="violation", replay=p, failure={"why": bad[0][1][0], "method": bad[0][0]})
    else:
        rec.update(status="ok")
    out.append(rec)
    out.append(harness.standin("standin.rejection-corpus", "bounded/c17.py", ["--standin", "-", os.path.join(harness.VERIF, "replays", PROPERTY)],
                               "run-time acceptance / rejection of the real generated methods (the proofs are about the wrapper text)",
                               "every generated helper of two corpus classes called with a keyword outside its signature; nested keyword sets of six element helpers"))
    r = harness.run_json("bounded/c17.py", ["--finding", "defaults"])
    if r.get("reproduces"):
        out.append({"name": "finding.virtual-defaults", "status": "known", "kind": "known finding (open)", "what": r["witness"]})
    elif "error" in r:
        out.append({"name": "finding.virtual-defaults", "status": "error", "detail": r["error"]})
    return out


def find_counterexample(fn, violation, outdir):
    return harness.run_json("bounded/c17.py", ["--find", fn or "-", outdir])
