"""C16 - Decoration adds exactly the documented helpers and never replaces user code."""
import os
from pyvc import harness

PROPERTY = "C16"
LEVEL = "proof"
CONTRACT_MODULES = ["contracts.c16_register"]
TARGETS = ["RegisterMethod"]
ASSUMPTIONS = [
    "every generated method reaches the class through spec_class.register_method (syntactic obligation checked on every run: inside class spec_class the "
    "only other setattr site is build_attr_spec, which replaces a managed attribute's declaration by its default; direct `cls.x = ...` assignments of "
    "the metadata placeholders are not helpers)",
    "the class's own namespace is the `cdict` component of the heap model; `name in cls.__dict__` reads it, setattr(cls, name, v) writes it; a method's "
    "__set_name__ hook is a pure callback (A-CB)",
    "which helpers are offered (four scalar helpers per managed attribute, four element helpers named after the singular form, three top-level helpers), "
    "the singular form (third-party `inflect`), the collision fallback and the lazy method descriptors are class-level reflection: bounded stand-in only",
]
EXPLANATION = ("register_method is proved for every class, name and method object: a name already defined in the class's own namespace keeps its value "
               "(unless it is one of the library's __spec_class* slots), otherwise exactly that one name is defined; no other name and no other class is touched")


GATE_ALLOWED = {"register_method": "the gate itself", "build_attr_spec": "consumes Attr/Field declarations: the managed attribute's default replaces the declaration object"}


def single_gate(ft):
    """syntactic obligation: inside class spec_class, setattr(...) calls occur only in register_method and in the documented site that
    rewrites a managed attribute's declaration into its default"""
    import ast
    mod = ft.modules["spec_classes.spec_class"]
    tree = ast.parse(open(mod.path).read())
    sites = []
    for cls in [n for n in tree.body if isinstance(n, ast.ClassDef) and n.name == "spec_class"]:
        for fn in [n for n in ast.walk(cls) if isinstance(n, ast.FunctionDef)]:
            for call in [n for n in ast.walk(fn) if isinstance(n, ast.Call) and isinstance(n.func, ast.Name) and n.func.id == "setattr"]:
                sites.append((fn.name, call.lineno))
    bad = [s for s in sites if s[0] not in GATE_ALLOWED]
    rec = {"name": "syntactic.single-gate", "kind": "syntactic obligation (AST of spec_classes/spec_class.py)", "sites": sites}
    if bad or not any(s[0] == "register_method" for s in sites):
        rec.update(status="error", detail="setattr sites outside the gate: %r - the proof of register_method no longer covers every write to the class" % (bad,))
    else:
        rec.update(status="ok", evaluations=len(sites), distinct=len(sites))
    return rec


def extra_checks(ft, tier, seed):
    out = [harness.codecheck(["spec_classes.spec_class:spec_class.register_method", "spec_classes.spec_class:spec_class.register_methods"]), single_gate(ft)]
    out.append(harness.standin("standin.decoration-corpus", "bounded/c16.py", ["--standin", "-", os.path.join(harness.VERIF, "replays", PROPERTY)],
                               "helper set per attribute kind, singular naming and collision fallback, private attributes, lazy method descriptors, "
                               "reachability of __spec_class_init__/repr/eq",
                               "3 class bodies (plain; user-written __init__/__repr__/__eq__/colliding helper names; singular-name collision): class __dict__ "
                               "before / after decoration / after first use of every helper"))
    r5 = harness.run_json("bounded/findings_r5.py", ["subclass-singular-collision"])
    if r5.get("reproduces"):
        out.append({"name": "finding.subclass-singular-collision", "status": "known", "kind": "known finding (open)", "what": r5["witness"]})
    elif "error" in r5:
        out.append({"name": "finding.subclass-singular-collision", "status": "error", "detail": r5["error"]})
    return out


def find_counterexample(fn, violation, outdir):
    return harness.run_json("bounded/c16.py", ["--find", fn or "-", outdir])
