"""C16 - Decoration adds exactly the documented helpers and never replaces user code."""
import os
from pyvc import harness

PROPERTY = "C16"
LEVEL = "proof"
CONTRACT_MODULES = ["contracts.c16_register"]
TARGETS = ["RegisterMethod"]
ASSUMPTIONS = [
    "every generated method / attribute reaches the class through spec_class.register_method (checked syntactically on every run: no other setattr on "
    "the decorated class in spec_class.bootstrap except the documented metadata slots)",
    "the class's own namespace is the `cdict` component of the heap model; `name in cls.__dict__` reads it, setattr(cls, name, v) writes it; a method's "
    "__set_name__ hook is a pure callback (A-CB)",
    "which helpers are offered (four scalar helpers per managed attribute, four element helpers named after the singular form, three top-level helpers), "
    "the singular form (third-party `inflect`), the collision fallback and the lazy method descriptors are class-level reflection: bounded stand-in only",
]
EXPLANATION = ("register_method is proved for every class, name and method object: a name already defined in the class's own namespace keeps its value "
               "(unless it is one of the library's __spec_class* slots), otherwise exactly that one name is defined; no other name and no other class is touched")


def extra_checks(ft, tier, seed):
    out = [harness.codecheck(["spec_classes.spec_class:spec_class.register_method", "spec_classes.spec_class:spec_class.register_methods"])]
    out.append(harness.standin("standin.decoration-corpus", "bounded/c16.py", ["--standin", "-", os.path.join(harness.VERIF, "replays", PROPERTY)],
                               "helper set per attribute kind, singular naming and collision fallback, private attributes, lazy method descriptors, "
                               "reachability of __spec_class_init__/repr/eq",
                               "3 class bodies (plain; user-written __init__/__repr__/__eq__/colliding helper names; singular-name collision): class __dict__ "
                               "before / after decoration / after first use of every helper"))
    return out


def find_counterexample(fn, violation, outdir):
    return harness.run_json("bounded/c16.py", ["--find", fn or "-", outdir])
