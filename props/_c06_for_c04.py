"""sub-check of C04: the collection mutators / element helpers (contracts of C06), clauses tagged for C04"""
from .c06 import CONTRACT_MODULES, TARGETS
from ._spec_common import STRUCTURAL

PROPERTY = "sub"
FAMILY_FILTER = ["c04."] + STRUCTURAL + (["unchanged", ".exc["] if "c04" == "c04" else []) + (["typed"] if "c04" == "c03" else [])
