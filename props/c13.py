"""C13 - KeyedList is a list with unique keys and a coherent key index."""
import os
from pyvc import harness

PROPERTY = "C13"
LEVEL = "proof"
CONTRACT_MODULES = ["contracts.c13_keyedlist"]
ASSUMPTIONS = [
    "A-KEY: key extraction is a pure, state-independent function of the item (kappa); an item's key does not change while it is in the container",
    "A-EQ: user __eq__/__hash__ are pure, total, consistent; == is equality of canonical forms (kn)",
    "A-ITER: iterating an opaque iterable argument yields a finite sequence determined by the object; dict/set arguments are outside the contracts (iteration order not modelled)",
    "A-LOOKUP: KeyedList/list/tuple are not subclassed by the objects involved; no monkey-patching between extraction and use",
    "A-BUILTINS: pyvc models of list/dict primitives (insert/pop/index clipping, dict membership, exceptions raised)",
    "ghost witness map (key -> position) is proof-only state; soundness rests on it being existentially chosen per state",
    "contract scope: slice reads with step None/1 (other steps: bounded stand-in); Sequence.index with default start/stop",
    "typed containers: conformance of items/keys is the uninterpreted relation `conforms` = contract of check_type (proved under C15)",
]
EXPLANATION = ("Every KeyedList primitive and every inherited MutableSequence/Sequence mixin that is not a generator is "
               "symbolically executed from the current source against a contract whose postcondition is the plain-list "
               "operation on the abstract view plus the unique-key rule; the representation invariant (key index coherent "
               "with a linear scan, keys unique, items well typed) is a pre- and postcondition of every operation, on "
               "normal and exceptional exits, which gives 'under every sequence of operations' by induction.")


def extra_checks(ft, tier, seed):
    out = []
    quals = ["spec_classes.types.keyed:KeyedList.%s" % n for n in
             ("__init__", "__getitem__", "__setitem__", "__delitem__", "__len__", "insert", "__contains__", "get",
              "index_for_key", "__eq__", "__add__", "__radd__", "extend", "reverse")]
    quals += ["spec_classes.types.keyed:KeyedBase.key", "spec_classes.types.keyed:KeyedBase._validate_item"]
    quals += ["_collections_abc:MutableSequence.%s" % n for n in ("append", "pop", "remove", "clear", "__iadd__")]
    quals += ["_collections_abc:Sequence.%s" % n for n in ("__contains__", "index", "__iter__", "__reversed__", "count")]
    out.append(harness.codecheck(quals))
    out.append(harness.standin(
        "standin.generators-and-stepped-slices", "bounded/c13.py",
        ["--standin", 3 if tier == "quick" else 4, os.path.join(harness.VERIF, "replays", "C13")],
        "Sequence.__iter__, Sequence.__reversed__, Sequence.count (generators: outside the pyvc subset), "
        "slices with a step, order-insensitive keys()/items()",
        "all lists of <= %d items over 5 item universes (3 keys x 2 payloads), every argument" % (3 if tier == "quick" else 4)))
    r5 = harness.run_json("bounded/findings_r5.py", ["key-membership"])
    if r5.get("reproduces"):
        out.append({"name": "finding.key-membership", "status": "known", "kind": "known finding (open)", "what": r5["witness"]})
    elif "error" in r5:
        out.append({"name": "finding.key-membership", "status": "error", "detail": r5["error"]})
    r5 = harness.run_json("bounded/findings_r5.py", ["typed-result-dropped"])
    if r5.get("reproduces"):
        out.append({"name": "finding.typed-result-dropped", "status": "known", "kind": "known finding (open)", "what": r5["witness"]})
    elif "error" in r5:
        out.append({"name": "finding.typed-result-dropped", "status": "error", "detail": r5["error"]})
    return out


find_counterexample = harness.finder("bounded/c13.py")
