"""C02 - Derived copies share no mutable state with the original."""
import os
from pyvc import harness
from ._spec_common import *

PROPERTY = "C02"
LEVEL = "proof"
TARGETS = ['DeepCopy', 'MutateAttr', 'WithAttr', 'ResetAttr', 'MutateValue', 'UpdateAttr', 'TransformAttr']
FAMILY_FILTER = ['c02.', 'c01.identity', 'c05.others'] + STRUCTURAL
ASSUMPTIONS = A_COMMON + [
    "protect_via_deepcopy is used by its callers through the contract ProtectCopy; that contract (copier clause) is discharged against "
    "the function body in the sub-check ProtectBody, where copy.deepcopy itself is the assumed A-COPY and the module guard is used through its C20 contracts",
    "clauses of other properties on the same functions are discharged by those properties' own checks",
    "transitive chains of invalidation, collection element helpers, update/transform (mutate_value) and the constructor are covered here "
    "only through the bounded harness; their contracts live in the checks of C05/C06/C09",
]
EXPLANATION = "__deepcopy__ is proved slot by slot: do_not_copy attributes by identity, every other attribute a mutate-safe copy (fresh or atomic), bound methods of the instance dropped; the helpers' results are that copy with one slot replaced"
SUBCHECKS = [("props._copy_protect", ["ProtectBody"])]
FINDINGS = []


def extra_checks(ft, tier, seed):
    out = [harness.codecheck(CORE_QUALS)]
    out.append(harness.standin("standin.api-histories", "bounded/spec.py", ["--standin", PROPERTY, "-", os.path.join(harness.VERIF, "replays", PROPERTY)],
                               "composition of the per-function contracts through the public API (A-META on the class corpus; "
                               "update/transform/element helpers/chains not under contract here)",
                               "4 corpus classes (plain, frozen twin, spec subclass, plain subclass) x 5 reachable states x ~87 helper calls with valid and invalid arguments"))
    out.append(harness.standin('standin.meta-do-not-copy', 'bounded/c02_meta.py', ["--standin", "-", os.path.join(harness.VERIF, "replays", PROPERTY)],
                               'A-META for do_not_copy: how class-level / attribute-level / inherited declarations reach the Attr records (spec_class.bootstrap, reflection)',
                               '30 parent/child declaration combinations x attributes x deepcopy / with / update / reset (150 cases)'))
    out.append(harness.standin("standin.extra-corpus", "bounded/spec_extra.py", ["--find", PROPERTY, "-", os.path.join(harness.VERIF, "replays", PROPERTY)],
                               "usages outside the main corpus (tuple-valued attributes, nested updates failing half-way, containers with mutable values, "
                               "keyed containers handed in whole, update_<attr>() with nothing to apply, chains of cached properties)",
                               "the hand-written cases of bounded/spec_extra.py registered for this property"))
    for f in FINDINGS:
        r = harness.run_json("bounded/spec.py", ["--finding", f])
        if r.get("reproduces"):
            out.append({"name": "finding." + f, "status": "known", "kind": "known finding (open)", "what": r["witness"]})
        elif "error" in r:
            out.append({"name": "finding." + f, "status": "error", "detail": r["error"]})
    return out


def find_counterexample(fn, violation, outdir):
    r = harness.run_json("bounded/spec.py", ["--find", PROPERTY, fn or "-", outdir])
    if not r.get("found"):
        r2 = harness.run_json("bounded/spec_extra.py", ["--find", PROPERTY, fn or "-", outdir])          # additional replay corpus
        if r2.get("found"):
            return r2
    return r
