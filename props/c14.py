"""C14 - KeyedSet is a set of items identified by key."""
import os
from pyvc import harness

PROPERTY = "C14"
LEVEL = "proof"
CONTRACT_MODULES = ["contracts.c14_keyedset"]
TARGETS = ["Add", "Discard", "Contains", "GetItem", "Len", "Get", "Eq", "Init", "Remove", "Ior", "Pop", "Clear", "Isub",
           "KeyContract"]


def select_contracts(contracts):
    out = {}
    for k, c in contracts.items():
        if type(c).__module__ == "contracts.c14_keyedset" or type(c).__name__ in ("KeyContract", "CheckTypeAssumed"):
            out[k] = c
    return out


ASSUMPTIONS = [
    "A-KEY: key extraction is a pure, state-independent function of the item (kappa)",
    "A-EQ: == is equality of canonical forms (kn); user __eq__/__hash__ lawful",
    "A-ITER: an opaque iterable yields a finite sequence determined by the object; built-in dict/set arguments are iterated in a content-determined order (ENUM_KS)",
    "A-LOOKUP: KeyedSet/set/dict/list/tuple are not subclassed by the objects involved",
    "A-BUILTINS: pyvc models of dict primitives; len(dict) = dsize, maintained as |domain| by construction of the models (cardinality itself is not reasoned about)",
    "typed containers: `conforms` = contract of check_type (proved under C15)",
    "not reached by proof (generator expressions / cardinality short-cut in the Set mixins): |, &, -, ^, <=, <, >=, >, isdisjoint, &=, ^=, == against a built-in set: bounded stand-in",
    "|= is specified as a sequence of single adds (each atomic); the statement does not make the whole union atomic",
]
EXPLANATION = ("KeyedSet.add/discard/__contains__/__getitem__/get/__len__/__eq__/__init__ and the inherited remove/pop/clear/"
               "|=/-= are symbolically executed from the current source against contracts over the abstract map key -> item "
               "(item-or-key resolution spelled out from the statement; most-recently-added wins; enforce_item_equivalence; "
               "typed containers); the invariant 'every entry is stored under its own key, keyable and well typed' is a pre- "
               "and postcondition of every operation on normal and exceptional exits.")


def extra_checks(ft, tier, seed):
    out = []
    quals = ["spec_classes.types.keyed:KeyedSet.%s" % n for n in
             ("__init__", "__contains__", "__len__", "add", "discard", "__eq__", "get", "__getitem__", "_from_iterable")]
    quals += ["_collections_abc:MutableSet.%s" % n for n in ("remove", "pop", "clear", "__ior__", "__isub__")]
    out.append(harness.codecheck(quals))
    n = 2 if tier == "quick" else 3
    out.append(harness.standin(
        "standin.set-algebra", "bounded/c14.py", ["--standin", n, os.path.join(harness.VERIF, "replays", "C14")],
        "|, &, -, ^, <=, <, >=, >, isdisjoint, &=, ^=, == (Set/MutableSet mixins built on generator expressions and a "
        "cardinality short-cut: outside the pyvc subset), derived sets keep key function and enforce_item_equivalence, "
        "len/iteration see one item per key",
        "all sets of <= %d items over 5 item universes (3 keys x 2 payloads), both enforce_item_equivalence settings, "
        "KeyedSet and built-in set operands of <= 2 items" % n))
    r = harness.run_json("bounded/c14_finding.py", [])
    if r.get("reproduces"):
        out.append({"name": "finding.builtin-set-operand", "status": "known", "kind": "known finding (open)",
                    "what": "binary operators against a built-in set operand decide membership by item equality, not by key: " + r["witness"]})
    elif "error" in r:
        out.append({"name": "finding.builtin-set-operand", "status": "error", "detail": r["error"]})
    r5 = harness.run_json("bounded/findings_r5.py", ["typed-set-result-dropped"])
    if r5.get("reproduces"):
        out.append({"name": "finding.typed-set-result-dropped", "status": "known", "kind": "known finding (open)", "what": r5["witness"]})
    elif "error" in r5:
        out.append({"name": "finding.typed-set-result-dropped", "status": "error", "detail": r5["error"]})
    return out


find_counterexample = harness.finder("bounded/c14.py")
