"""C18 - Alias mirrors its target until overridden; passthrough writes reach the target."""
import os
from pyvc import harness

PROPERTY = "C18"
LEVEL = "proof"
CONTRACT_MODULES = ["contracts.c18_alias"]
TARGETS = ["AliasGet", "AliasSet", "AliasDelete", "DepGet", "DepSet", "DepDelete", "AliasSetName"]
ASSUMPTIONS = [
    "scope: attribute paths of one or two identifier components (`a`, `a.b`); the cached parse result _attr_path is taken as a record field; the path "
    "parser (regular expression) and [\"key\"] components (string slicing, ast.literal_eval) are outside the verified subset: bounded stand-in",
    "A-LOOKUP: the target is read by ordinary attribute lookup (instance slot, then class attribute) without descriptor side effects",
    "A-NAMES: the override slot name f\"__spec_classes_Alias_{owner_attr}_override\" (an uninterpreted function of the owner attribute name, the same "
    "on every evaluation) differs from the path components and from the library's own slots",
    "A-CB: the transform is a pure function that may raise; A-COPY for the copy of the fallback; on spec-class instances the assignment / deletion of "
    "the override goes through the generated __setattr__ / __delattr__ (their contracts)",
    "warnings.warn is a ghost counter (the text and category of the warning are not part of the proof)",
]
EXPLANATION = ("Alias.__get__/__set__/__delete__ are proved against the two-variable model of the statement: a stored override wins, otherwise the "
               "(transformed) live target, otherwise a fresh copy of the fallback or AttributeError; a local assignment writes the override slot only "
               "and leaves the target untouched, deleting it restores the live view; passthrough assignment / deletion land on the object holding the "
               "last path component; DeprecatedAlias calls warnings.warn exactly once per access and otherwise satisfies the very same clauses")


def extra_checks(ft, tier, seed):
    out = [harness.codecheck(["spec_classes.types.alias:Alias.__get__", "spec_classes.types.alias:Alias.__set__", "spec_classes.types.alias:Alias.__delete__"])]
    out.append(harness.standin("standin.alias-histories", "bounded/c18.py", ["--standin", "-", os.path.join(harness.VERIF, "replays", PROPERTY), "3" if tier == "quick" else "4"],
                               "path parser and bracket components, composition of get/set/delete into histories, warning category and count",
                               "6 path forms x passthrough/transform/deprecated x 4 fallbacks (none, flat list, nested list, None) x operation sequences of length <= 3 (quick) / 4 (thorough)"))
    return out


def find_counterexample(fn, violation, outdir):
    return harness.run_json("bounded/c18.py", ["--find", fn or "-", outdir, "3"])
