"""sub-check of C03: the collection mutators / element helpers (contracts of C06), clauses tagged for C03"""
from .c06 import CONTRACT_MODULES, TARGETS
from ._spec_common import STRUCTURAL

PROPERTY = "sub"
FAMILY_FILTER = ["c03."] + STRUCTURAL + (["unchanged", ".exc["] if "c03" == "c04" else []) + (["typed"] if "c03" == "c03" else [])
