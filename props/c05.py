"""C05 - Scalar and top-level helpers compute exactly the documented new state."""
import os
from pyvc import harness
from ._spec_common import *

PROPERTY = "C05"
LEVEL = "proof"
TARGETS = ['MutateAttr', 'SetAttr', 'WithAttr', 'ResetAttr', 'Reset', 'DelAttr', 'MutateValue', 'UpdateAttr', 'TransformAttr', 'Update', 'Transform']
FAMILY_FILTER = ['c05.', 'c08.slot'] + STRUCTURAL
SUBCHECKS = [("props._defaults", ["LookupDefault", "DefaultValue"])]
ASSUMPTIONS = A_COMMON + [
    "clauses of other properties on the same functions are discharged by those properties' own checks",
    "transitive chains of invalidation, collection element helpers, update/transform (mutate_value) and the constructor are covered here "
    "only through the bounded harness; their contracts live in the checks of C05/C06/C09",
]
EXPLANATION = "with_<attr>: the result holds the prepared value in the attribute's slot, every other slot carried over (identically in place, by the copy relation otherwise), _if=False and sentinel values return the receiver untouched; obj.a = v is the same contract with _inplace; reset_<attr>/reset/del restore defaults"
FINDINGS = ['missing-builds-default']


def extra_checks(ft, tier, seed):
    out = [harness.codecheck(CORE_QUALS)]
    out.append(harness.standin("standin.api-histories", "bounded/spec.py", ["--standin", PROPERTY, "-", os.path.join(harness.VERIF, "replays", PROPERTY)],
                               "composition of the per-function contracts through the public API (A-META on the class corpus; "
                               "update/transform/element helpers/chains not under contract here)",
                               "4 corpus classes (plain, frozen twin, spec subclass, plain subclass) x 5 reachable states x ~87 helper calls with valid and invalid arguments"))
    out.append(harness.standin('standin.merge-content', 'bounded/c05_prepare.py', ["--standin", "-", os.path.join(harness.VERIF, "replays", PROPERTY)],
                               'content of keyword merges (update / update_<a> / with_<a>(v, **kw) / transform): preparers, dict-to-nested-spec, collection preparation - the proofs of mutate_value carry frame and identity clauses only',
                               '8 merges against the single-attribute routes on a class with preparers and a nested spec'))
    out.append(harness.standin("standin.extra-corpus", "bounded/spec_extra.py", ["--find", PROPERTY, "-", os.path.join(harness.VERIF, "replays", PROPERTY)],
                               "usages outside the main corpus (tuple-valued attributes, nested updates failing half-way, containers with mutable values, "
                               "keyed containers handed in whole, update_<attr>() with nothing to apply, chains of cached properties)",
                               "the hand-written cases of bounded/spec_extra.py registered for this property"))
    for f in FINDINGS:
        r = harness.run_json("bounded/spec.py", ["--finding", f])
        if r.get("reproduces"):
            out.append({"name": "finding." + f, "status": "known", "kind": "known finding (open)", "what": r["witness"]})
        elif "error" in r:
            out.append({"name": "finding." + f, "status": "error", "detail": r["error"]})
    return out


def find_counterexample(fn, violation, outdir):
    r = harness.run_json("bounded/spec.py", ["--find", PROPERTY, fn or "-", outdir])
    if not r.get("found"):
        r2 = harness.run_json("bounded/spec_extra.py", ["--find", PROPERTY, fn or "-", outdir])          # additional replay corpus
        if r2.get("found"):
            return r2
    return r
