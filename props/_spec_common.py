"""shared by the spec-heap property checks (C01..C11): contract modules, structural obligations"""
from pyvc import harness

__all__ = ["CONTRACT_MODULES", "STRUCTURAL", "CORE_QUALS", "A_COMMON", "select_contracts"]

CONTRACT_MODULES = ["contracts.spec_value"]
# obligations every property keeps: write-site frames, callee preconditions, unexpected exceptions, lemmas, loop invariants
STRUCTURAL = ["frame[", "call-pre.", ".noexc.", ".lemma.", ".loop", "loop0.", "loop1.", "loop2.", ".cut."]

CORE_QUALS = ["spec_classes.utils.mutation:mutate_attr", "spec_classes.utils.mutation:invalidate_attrs",
              "spec_classes.methods.core:DeepCopyMethod.deepcopy",
              "spec_classes.methods.scalar:WithAttrMethod.with_attr", "spec_classes.methods.scalar:ResetAttrMethod.reset_attr",
              "spec_classes.methods.toplevel:ResetMethod.reset", "spec_classes.utils.mutation:mutate_value",
              "spec_classes.methods.scalar:UpdateAttrMethod.update_attr", "spec_classes.methods.scalar:TransformAttrMethod.transform_attr",
              "spec_classes.methods.toplevel:UpdateMethod.update", "spec_classes.methods.toplevel:TransformMethod.transform"]

A_COMMON = [
    "A-META: the metadata of a spec class is a well-formed SpecClassMetadata record (typed flags; attrs: dict name -> Attr record with "
    "name == key; invalidation_map: dict name -> set of names); linking a class definition to this record is spec_class.bootstrap "
    "(reflection, outside the subset) - validated by the bounded harness on its class corpus",
    "A-COPY: copy.deepcopy of built-in containers / foreign objects returns a deep-equal value whose mutable parts are fresh, atoms "
    "(numbers, strings, None, classes, functions, modules) as they are, nothing pre-existing modified; it may raise, but not AttributeError",
    "A-CB: user callbacks (preparers, transforms, key functions, __post_copy__) are pure deterministic functions that may raise",
    "A-RAW: the class's original __setattr__/__delattr__ store into / delete from the instance __dict__; assignment is refused "
    "(AttributeError) only for attributes masked by a descriptor; custom setters and Alias descriptors are outside these proofs (C12/C18)",
    "A-LOOKUP: attribute reads on foreign objects are instance-dict-then-class lookups without descriptor side effects (reads of cached "
    "spec_property values may fill their cache: treated as reads, C12)",
    "A-ACYCLIC: the invalidated_by dependency graph is acyclic (termination of the recursive invalidation is not proved)",
    "A-LEAF / A-RECV: instances of (subclasses of) immutable built-in scalar types (int, float, str, bytes, bool, module) carry no mutable "
    "state, so handing them on uncopied shares nothing mutable; spec classes and receivers of mutate_attr do not derive from such types",
    "prepare_attr_value is used through an assumed pure contract in the core proofs; Attr.lookup_default_value through the contract LookupDefaultAssumed "
    "(discharged against its body in the sub-check LookupDefault of C05/C08/C09: DV / NODEF defined by the MRO walk; assumed there: cls.mro(), class "
    "namespaces, inspect.isdatadescriptor, A-CTOR for default_factory)",
    "mutate_value: A-PROXY (the lazy proxy's thunk is a pure read), A-CTOR (constructors return a new object or an atom), A-TRANSFORM (a transform "
    "returns its argument, a new object or an atom), _get_function_args assumed (inspect.signature); scope A-SHARED: the value updated through "
    "keywords is not a do_not_copy instance, function or module (those are updated in place by design); keyword names are never the "
    "library's own slots (__spec_class__, __spec_class_initializing__)",
]


def select_contracts(contracts):
    return contracts
