"""C06 - Element helpers edit list/dict/set attributes like the plain container operation."""
import os
from pyvc import harness

PROPERTY = "C06"
LEVEL = "proof"
CONTRACT_MODULES = ["contracts.c06_collections"]
_FAM = ["Seq", "Map", "Set"]
TARGETS = ([f + s for f in _FAM for s in ("Extractor", "Inserter", "AddItem", "TransformItem", "RemoveItem")] + ["MutatorInit"] +
           ["H%s%sItem" % (f, op) for f in _FAM for op in ("With", "Update", "Transform", "Without")])
SUBCHECKS = [("props._c06_prepare", __import__("props._c06_prepare", fromlist=["TARGETS"]).TARGETS)]
ASSUMPTIONS = [
    "scope: the attribute holds nothing or a built-in list / dict / set (typed containers such as KeyedList / KeyedSet go through their own "
    "contracts, C13 / C14, and through the bounded stand-in here); no slice addressing; transform_/without_ helpers are given a container to edit",
    "A-META: the cached element fields of the Attr record (item_type, item_constructor, item_spec_key_type, item_spec_type, prepare_item, "
    "qualified_name) are typed record fields; the mutator family of a helper matches the attribute's annotation; type_instantiate returns a new "
    "empty container of that family (assumed contract); MappingMutator._key_type is the declared key type (assumed contract, A-TYPING)",
    "mutate_value is used through its contract (spec_value.py: it writes to nothing that existed before the call - A-PROXY, A-CTOR, A-TRANSFORM, "
    "A-SHARED as listed there); which value it computes for the element (keywords, constructor, key promotion in prepare_item) is opaque to "
    "these proofs beyond 'a value of the element type' and is exercised by the bounded stand-in",
    "check_type is the relation conforms() proved under C15; A-EQ: element equality is the equivalence kn() (lawful __eq__/__hash__)",
    "A-COPY for the private copy of the container when not in place; the exact element-wise statement is proved for the in-place route and for the "
    "mutator methods (which the copy route calls on the private copy)",
]
EXPLANATION = ("the mutator methods (_extractor, _inserter, add_item, transform_item, remove_item of the three families, with _mutate_collection "
               "inlined) are proved against the plain Python operation on the abstract content of the container: exactly one position / key / "
               "element is written, with a value of the element type, every other element and the order untouched; a missing target raises with "
               "the container unchanged; the twelve generated helpers are proved to apply that edit to the attribute's own container in place, or "
               "to a private copy with the receiver and its container untouched")
FINDINGS = ["inplace-element-helper-readonly-property"]


def extra_checks(ft, tier, seed):
    quals = ["spec_classes.collections.base:CollectionAttrMutator._mutate_collection", "spec_classes.collections.sequences:SequenceMutator._inserter",
             "spec_classes.collections.mappings:MappingMutator._inserter", "spec_classes.collections.sets:SetMutator._inserter"]
    out = [harness.codecheck(quals)]
    out.append(harness.standin("standin.helper-histories", "bounded/c06.py", ["--standin", "-", os.path.join(harness.VERIF, "replays", PROPERTY)],
                               "copy-on-write route of the twelve helpers, spec-class elements (keywords, key promotion), error kinds",
                               "5-6 container contents per family x every helper x valid and invalid targets x copy / in place (2000 cases)"))
    r = harness.run_json("bounded/c04_finding.py", ["readonly-property"])
    if r.get("reproduces"):
        out.append({"name": "finding.inplace-element-helper-readonly-property", "status": "known", "kind": "known finding (open)", "what": r["witness"]})
    elif "error" in r:
        out.append({"name": "finding.inplace-element-helper-readonly-property", "status": "error", "detail": r["error"]})
    out.append(harness.standin("standin.extra-corpus", "bounded/spec_extra.py", ["--find", PROPERTY, "-", os.path.join(harness.VERIF, "replays", PROPERTY)],
                               "usages outside the main corpus (tuple-valued attributes, nested updates failing half-way, containers with mutable values, "
                               "keyed containers handed in whole, update_<attr>() with nothing to apply, chains of cached properties)",
                               "the hand-written cases of bounded/spec_extra.py registered for this property"))
    return out


def find_counterexample(fn, violation, outdir):
    r = harness.run_json("bounded/c06.py", ["--find", fn or "-", outdir])
    if not r.get("found"):
        r2 = harness.run_json("bounded/spec_extra.py", ["--find", PROPERTY, fn or "-", outdir])
        if r2.get("found"):
            return r2
    return r
