"""sub-check of C01: the collection mutators / element helpers (contracts of C06), clauses tagged for C01"""
from .c06 import CONTRACT_MODULES, TARGETS
from ._spec_common import STRUCTURAL

PROPERTY = "sub"
FAMILY_FILTER = ["c01."] + STRUCTURAL + (["unchanged", ".exc["] if "c01" == "c04" else []) + (["typed"] if "c01" == "c03" else [])
