"""C09 - The generated constructor assigns exactly what the class hierarchy specifies."""
import os
from pyvc import harness
from ._spec_common import A_COMMON

PROPERTY = "C09"
LEVEL = "proof"
CONTRACT_MODULES = ["contracts.c09_init"]
TARGETS = ["Init", "SetAttr", "DelAttr"]
FAMILY_FILTER = ["c09.", "c05.value", "c05.others", "c05.noop", "c03.typed", "frame[", "call-pre.", ".noexc.", ".loop", "loop2.", ".cut."]
SUBCHECKS = [("props._defaults", ["LookupDefault", "DefaultValue"])]
ASSUMPTIONS = A_COMMON + [
    "A-PARENT-CTOR: a parent class's constructor (generated or user-written: code outside this function) writes to the instance it is given and to nothing "
    "else that existed before, never defines an instance-level __spec_class__, may raise; what it stores is exercised by the bounded stand-in",
    "A-MRO: cls.mro() is a list of classes starting with cls, which does not occur in it again; A-META for the ancestors: an ancestor's metadata is a "
    "well-formed record whose attributes all occur in the instance's metadata",
    "scope: no overflow attribute (init_overflow_attr is None: the overflow branch calls a dynamically named helper); the slot-level clauses are "
    "stated for classes without __post_init__ (a pure callback in the model); 'exactly once, after all attributes are set' is proved on the ghost call log",
    "the generated __init__ signature (key positional / required, keyword-only attributes, **kwargs only with an overflow attribute) is produced by "
    "MethodBuilder: C17 and the bounded stand-in",
    "Attr.lookup_default_value is used through the contract LookupDefaultAssumed, which the sub-check LookupDefault discharges against the body with the "
    "default DV / NODEF *defined* by the walk of the statement (first class along the MRO that owns the record or defines the name); left assumed there: the "
    "MRO itself (cls.mro()), class namespaces (cdict), inspect.isdatadescriptor, A-CTOR for default_factory(); prepare_attr_value an assumed pure function",
]
EXPLANATION = ("all three phases of InitMethod.init are symbolically executed from the current source. Phase 1 (nested loops over the ancestors and "
               "their attributes): only attributes owned by an ancestor are taken out of the keyword dict and handed - copied - to that ancestor's "
               "constructor, so the keyword dict keeps exactly what was passed for the attributes this class owns. Phases 2-3 (loop invariant over the attrs dict): every "
               "init-enabled attribute owned by the class receives the prepared keyword value - protectively copied unless do_not_copy - if one was "
               "given, otherwise the default Attr.lookup_default_value(type(self)) yields, otherwise it is left missing; no other slot is written; "
               "__post_init__ is called exactly once after the loop; the initializing flag is removed")


def extra_checks(ft, tier, seed):
    out = [harness.codecheck(["spec_classes.methods.core:InitMethod.init"])]
    out.append(harness.standin("standin.hierarchies", "bounded/c09.py", ["--standin", "-", os.path.join(harness.VERIF, "replays", PROPERTY)],
                               "what parent constructors (user-written ones included) store on the instance, generated signature (key positional, unknown keywords), overflow attribute",
                               "5 class hierarchies x every subset of keyword arguments + signature / overflow probes (42 constructions)"))
    return out


def find_counterexample(fn, violation, outdir):
    return harness.run_json("bounded/c09.py", ["--find", fn or "-", outdir])
