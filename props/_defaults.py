"""sub-check shared by C05/C08/C09: Attr.lookup_default_value / Attr.default_value against the contract their callers assume,
with DV / NODEF defined by the MRO walk of the statement"""
from ._spec_common import STRUCTURAL

PROPERTY = "sub"
CONTRACT_MODULES = ["contracts.c08_defaults"]
TARGETS = ["LookupDefault", "DefaultValue"]
FAMILY_FILTER = ["c08."] + STRUCTURAL
