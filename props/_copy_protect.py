"""sub-check shared by C01/C02/C08: protect_via_deepcopy against the copier contract its callers assume"""
from ._spec_common import STRUCTURAL

PROPERTY = "sub"
CONTRACT_MODULES = ["contracts.copy_protect"]
TARGETS = ["ProtectBody"]
FAMILY_FILTER = ["c02."] + STRUCTURAL
