"""sub-check of C01 / C06: preparation of whole collection values (prepare_attr_value, CollectionAttrMutator.prepare, _prepare_items,
add_items): the container handed in by the caller is never written"""
PROPERTY = "sub"
CONTRACT_MODULES = ["contracts.c06_prepare"]
TARGETS = ["SeqPrepareItems", "MapPrepareItems", "SetPrepareItems", "SeqAddItems", "MapAddItems", "SetAddItems", "SeqPrepare", "MapPrepare", "SetPrepare",
           "PrepareAttrValueScalar", "PrepareAttrValueSequence", "PrepareAttrValueMapping", "PrepareAttrValueSet"]
