"""C15 - the run-time type check accepts a value exactly when it conforms structurally."""
import os
from pyvc import harness

PROPERTY = "C15"
LEVEL = "proof"
CONTRACT_MODULES = ["contracts.c15_typecheck"]
TARGETS = ["CheckType", "SubclassOfType", "Validator"]


def select_contracts(contracts):
    return {k: c for k, c in contracts.items() if type(c).__module__ == "contracts.c15_typecheck"}


ASSUMPTIONS = [
    "A-TYPING: the observations check_type makes on typing objects (hasattr/isinstance/__origin__/__args__/issubclass) "
    "are tied to the abstract annotation observers (atag, nargs, targ, origin) by the axioms of ann_ok; validated on "
    "every run against real typing objects of a generated pool (bounded/c15.py --typing)",
    "values are not mutated while they are being checked (conforms is evaluated on the entry heap)",
    "validated types: isinstance(v, T) is the type's own predicate (uninterpreted instof); ValidatedTypeMeta.__instancecheck__ "
    "forwards to validate (one line, not under contract)",
    "A-FLOAT: float arithmetic as reals in the bounded() validator; int/float cross-type equality of Literal choices not modelled",
    "termination: structural recursion on the annotation is checked through the measure adepth (arguments are strictly shallower: part of A-TYPING)",
    "other generic origins (Sequence[int], Mapping[...], Callable...) are accepted on the instance test alone, as the statement's type language does not include them",
]
EXPLANATION = ("check_type, _is_subclass_of_type and the validator closure of bounded() are symbolically executed from the "
               "current source; on every path the result equals the structural relation conforms(value, annotation) "
               "(defined from the statement; one-step unfolding, recursive calls by contract) and no exception escapes.")


def extra_checks(ft, tier, seed):
    out = []
    out.append(harness.codecheck(["spec_classes.utils.type_checking:check_type",
                                  "spec_classes.utils.type_checking:_is_subclass_of_type",
                                  "spec_classes.types.validated:bounded"]))
    depth = 2 if tier == "quick" else 3
    r = harness.run_json("bounded/c15.py", ["--typing", depth])
    rec = {"name": "A-TYPING.validation", "kind": "bounded validation of an assumed contract on a dependency (typing)",
           "stands_in_for": "axioms ann_ok / issubclass model", "bound": "annotation pool of depth <= %d" % depth}
    if "error" in r:
        rec.update(status="error", detail=r["error"])
    elif r.get("axiom_violations"):
        rec.update(status="error", detail="A-TYPING axiom fails on real typing objects: %s" % r["axiom_violations"][:3])
    else:
        rec.update(status="ok", evaluations=r["cases"], distinct=r["distinct"])
    out.append(rec)
    return out


def find_counterexample(fn, violation, outdir):
    return harness.run_json("bounded/c15.py", ["--find", fn or "-", outdir, 2])
