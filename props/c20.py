"""C20 - copying leaves process-global state untouched and is safe across threads."""
import ast
import os
from pyvc import harness

PROPERTY = "C20"
LEVEL = "proof"
CONTRACT_MODULES = ["contracts.c20_copyreg"]
ASSUMPTIONS = [
    "A-COPY (guard view): copy.deepcopy may re-enter protect_via_deepcopy to any depth; by the contract being proved "
    "(induction on nesting depth) it leaves refcount / patched_table / the dispatch table as they were; it returns a value or raises anything",
    "A-COPY (module clause): copy.deepcopy copies a module iff ModuleType is in copyreg.dispatch_table",
    "A-RLOCK: threading.RLock gives mutual exclusion and re-entrancy and is released on every exit of `with`; sequentially a no-op",
    "nobody else writes copyreg.dispatch_table[ModuleType] while a copy is in flight, and no entry holds the MISSING sentinel",
    "thread clause: monitor rule - M0/M1/M2 are syntactic obligations checked on the AST on every run, M3 is the sequential "
    "invariant proof; no schedule is enumerated (the thread stress run is a replay aid, labelled bounded)",
    "A-ASYNC: asynchronous exceptions inside the critical sections are not modelled in the quick tier",
]
EXPLANATION = ("_modules_copyable.__new__/__enter__/__exit__ and protect_via_deepcopy are symbolically executed from the current "
               "source against the guard invariant I (refcount >= 0; table = T0 off ModuleType; patched => present & not in T0 & "
               "refcount > 0; refcount = 0 => table = T0), on normal and exceptional exits of the copy; the monitor rule lifts I to "
               "every interleaving because every access to the guard state lies inside `with self.lock` (checked syntactically).")

GUARDED = ("refcount", "patched_table")


def monitor_checks(ft):
    """M0/M1/M2 of DESIGN.md (C20): syntactic obligations of the monitor rule, on the current AST"""
    m = ft.modules["spec_classes.utils.mutation"]
    tree = m.tree
    problems = []
    cls = [n for n in tree.body if isinstance(n, ast.ClassDef) and n.name == "_modules_copyable"]
    if not cls:
        return ["class _modules_copyable not found"]
    cls = cls[0]

    def touches(node):
        for x in ast.walk(node):
            if isinstance(x, ast.Attribute) and x.attr in GUARDED:
                return "self.%s" % x.attr
            if isinstance(x, ast.Attribute) and x.attr == "dispatch_table":
                return "copyreg.dispatch_table"
        return None

    def under_lock(stmts, lockattr, locked, fn, out):
        for st in stmts:
            if isinstance(st, ast.With) and any(isinstance(i.context_expr, ast.Attribute) and i.context_expr.attr == lockattr
                                                for i in st.items):
                under_lock(st.body, lockattr, True, fn, out)
                continue
            sub = [getattr(st, f, None) for f in ("body", "orelse", "finalbody", "handlers")]
            if any(sub) and not isinstance(st, (ast.FunctionDef, ast.ClassDef)):
                hdr = [getattr(st, f, None) for f in ("test", "iter", "items")]
                for h in hdr:
                    if h is not None and not isinstance(h, list) and touches(h) and not locked:
                        out.append("%s: %s accessed outside `with self.%s` (line %d)" % (fn, touches(h), lockattr, st.lineno))
                for f in ("body", "orelse", "finalbody"):
                    under_lock(getattr(st, f, []) or [], lockattr, locked, fn, out)
                for h in getattr(st, "handlers", []) or []:
                    under_lock(h.body, lockattr, locked, fn, out)
                continue
            t = touches(st)
            if t and not locked:
                out.append("%s: %s accessed outside `with self.%s` (line %d)" % (fn, t, lockattr, st.lineno))

    for fn in cls.body:
        if not isinstance(fn, ast.FunctionDef):
            continue
        if fn.name == "__new__":
            # M0/M2: the singleton and its lock are created under the class-level lock, once
            out = []
            for st in ast.walk(fn):
                if isinstance(st, ast.Assign):
                    for t in st.targets:
                        if isinstance(t, ast.Attribute) and t.attr in ("__instance__", "lock") + GUARDED:
                            pass
            body_wo_doc = [s for s in fn.body if not (isinstance(s, ast.Expr) and isinstance(s.value, ast.Constant))]
            if not (len(body_wo_doc) == 1 and isinstance(body_wo_doc[0], ast.With)
                    and any(isinstance(i.context_expr, ast.Attribute) and i.context_expr.attr == "__singleton_lock__"
                            for i in body_wo_doc[0].items)):
                problems.append("M0: _modules_copyable.__new__ does not run entirely under the class-level lock "
                                "(two first users could obtain two monitors)")
        elif fn.name in ("__init__",):
            for st in ast.walk(fn):
                if isinstance(st, ast.Attribute) and isinstance(st.ctx, ast.Store) and st.attr in ("lock",) + GUARDED:
                    problems.append("M2: %s re-assigns self.%s on an existing singleton (line %d)" % (fn.name, st.attr, st.lineno))
        else:
            under_lock(fn.body, "lock", False, fn.name, problems)
    # nothing outside the class touches the guard state
    for n in tree.body:
        if n is cls:
            continue
        for x in ast.walk(n):
            if isinstance(x, ast.Attribute) and x.attr in GUARDED:
                problems.append("guard state self.%s accessed outside _modules_copyable (line %d)" % (x.attr, x.lineno))
            if isinstance(x, ast.Attribute) and x.attr == "dispatch_table":
                problems.append("copyreg.dispatch_table accessed outside _modules_copyable (line %d)" % x.lineno)
    return problems


def extra_checks(ft, tier, seed):
    out = []
    out.append(harness.codecheck(["spec_classes.utils.mutation:_modules_copyable.__new__",
                                  "spec_classes.utils.mutation:_modules_copyable.__enter__",
                                  "spec_classes.utils.mutation:_modules_copyable.__exit__",
                                  "spec_classes.utils.mutation:protect_via_deepcopy"]))
    probs = monitor_checks(ft)
    rec = {"name": "monitor-rule.M0-M1-M2", "kind": "syntactic proof obligation (AST)",
           "stands_in_for": "every access to refcount / patched_table / copyreg.dispatch_table lies inside `with self.lock`; "
                            "singleton and lock created once under the class-level lock",
           "evaluations": 1, "distinct": 1}
    if probs:
        d = os.path.join(harness.VERIF, "replays", "C20")
        os.makedirs(d, exist_ok=True)
        # replay: the thread stress run (bounded) - else the failed obligation itself
        r = harness.run_json("bounded/c20.py", ["--threads", 30])
        path = os.path.join(d, "monitor_rule.txt")
        with open(path, "w") as fh:
            fh.write("failed syntactic obligation(s) of the monitor rule (C20):\n" + "\n".join(probs) +
                     "\n\nthread stress run (bounded replay aid): %s\n" % r)
        rec.update(status="violation", replay=path + ("" if r.get("found") else " no-failing-input-found"), detail=probs)
    else:
        rec.update(status="ok")
    out.append(rec)
    out.append(harness.standin("standin.thread-stress", "bounded/c20.py", ["--threads", 5 if tier == "quick" else 40],
                               "replay aid for the schedule clause (the clause itself rests on the monitor rule)",
                               "2 and 3 threads x 30 copies of module-bearing values, %d rounds" % (5 if tier == "quick" else 40)))
    return out


find_counterexample = harness.finder("bounded/c20.py")
