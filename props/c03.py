"""C03 - Managed attributes always satisfy their declared type."""
import os
from pyvc import harness
from ._spec_common import *

PROPERTY = "C03"
LEVEL = "proof"
TARGETS = ['MutateAttr', 'SetAttr', 'WithAttr', 'DelAttr', 'UpdateAttr', 'TransformAttr']
FAMILY_FILTER = ['c03.'] + STRUCTURAL
ASSUMPTIONS = A_COMMON + [
    "clauses of other properties on the same functions are discharged by those properties' own checks",
    "transitive chains of invalidation, collection element helpers, update/transform (mutate_value) and the constructor are covered here "
    "only through the bounded harness; their contracts live in the checks of C05/C06/C09",
]
EXPLANATION = 'mutate_attr stores a value of a managed attribute only after check_type accepted it (type_check=True), the generated __setattr__ and with_<attr> always pass through that check; a non-conforming value raises TypeError with the receiver unchanged'
SUBCHECKS = [("props._c06_for_c03", __import__("props.c06", fromlist=["TARGETS"]).TARGETS)]
FINDINGS = []


def extra_checks(ft, tier, seed):
    out = [harness.codecheck(CORE_QUALS)]
    out.append(harness.standin("standin.api-histories", "bounded/spec.py", ["--standin", PROPERTY, "-", os.path.join(harness.VERIF, "replays", PROPERTY)],
                               "composition of the per-function contracts through the public API (A-META on the class corpus; "
                               "update/transform/element helpers/chains not under contract here)",
                               "4 corpus classes (plain, frozen twin, spec subclass, plain subclass) x 5 reachable states x ~87 helper calls with valid and invalid arguments"))
    out.append(harness.standin("standin.extra-corpus", "bounded/spec_extra.py", ["--find", PROPERTY, "-", os.path.join(harness.VERIF, "replays", PROPERTY)],
                               "usages outside the main corpus (tuple-valued attributes, nested updates failing half-way, containers with mutable values, "
                               "keyed containers handed in whole, update_<attr>() with nothing to apply, chains of cached properties)",
                               "the hand-written cases of bounded/spec_extra.py registered for this property"))
    for f in FINDINGS:
        r = harness.run_json("bounded/spec.py", ["--finding", f])
        if r.get("reproduces"):
            out.append({"name": "finding." + f, "status": "known", "kind": "known finding (open)", "what": r["witness"]})
        elif "error" in r:
            out.append({"name": "finding." + f, "status": "error", "detail": r["error"]})
    return out


def find_counterexample(fn, violation, outdir):
    if fn and ("Mutator" in fn or "ItemMethod" in fn):
        return harness.run_json("bounded/c06.py", ["--find", fn, outdir])          # collection mutators / element helpers
    return harness.run_json("bounded/spec.py", ["--find", PROPERTY, fn or "-", outdir])
