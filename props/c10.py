"""C10 - Equality, copying and repr are coherent and total."""
import os
from pyvc import harness
from ._spec_common import A_COMMON, STRUCTURAL

PROPERTY = "C10"
LEVEL = "proof"
CONTRACT_MODULES = ["contracts.c10_eq"]
TARGETS = ["Eq", "EqLaws", "DeepCopy"]
FAMILY_FILTER = ["c10.", "c02.", "c01.receiver"] + STRUCTURAL
ASSUMPTIONS = A_COMMON + [
    "A-EQ: == / != on attribute values is the equivalence induced by the canonical form kn() (lawful, total, effect-free __eq__; NaN-like values "
    "excluded); a bound method is == only to bound methods; comparing values does not raise",
    "A-DISPATCH: for two operands whose classes use the generated __eq__, `a == b` is the generated eq applied in the order Python's reflected-operand "
    "rule picks; neither side returns NotImplemented (read off the code: eq always returns a bool)",
    "A-COPY: a deep copy is == to its original; the copy of a bound method wraps the same function",
    "repr (string assembly, recursion through user __repr__), `re-constructing from its own attribute values` (constructor) and != are not under "
    "contract: bounded stand-in only",
]
EXPLANATION = ("EqMethod.eq is proved, for all instances, metadata records and attribute values, to return exactly: other is an instance of "
               "type(self) and every compare-enabled attribute has equal values on both (lookup semantics: missing equals only missing; two bound "
               "methods are equal iff they wrap the same function) - loop invariant over the attrs dict; reflexivity, symmetry, transitivity and "
               "deepcopy(x) == x are lemmas over that relation and the proved contract of __deepcopy__")


def extra_checks(ft, tier, seed):
    out = [harness.codecheck(["spec_classes.methods.core:EqMethod.eq", "spec_classes.methods.core:DeepCopyMethod.deepcopy"])]
    out.append(harness.standin("standin.eq-copy-repr-corpus", "bounded/c10.py", ["--standin", "-", os.path.join(harness.VERIF, "replays", PROPERTY)],
                               "repr (never raises, repr-enabled attributes in declaration order, self-referential values), !=, re-construction, "
                               "and the composition of the proved relation through Python's == dispatch",
                               "16 instances (missing values, compare=False / repr=False attributes, bound methods, plain subclass, unrelated class, "
                               "self-reference): all pairs and triples"))
    return out


def find_counterexample(fn, violation, outdir):
    return harness.run_json("bounded/c10.py", ["--find", fn or "-", outdir])
