"""C20 concrete harness (runs under /venv/bin/python with PYTHONPATH=/repo).  Labelled *bounded*.

  --find FN : sequential histories of copying operations (nested copies to depth 3, copies aborted by
              exceptions at each level, spec-class constructor / helpers / reset with module-valued and
              mutable attributes); after each history copyreg.dispatch_table must equal the table before.
  --threads : replay aid for the monitor-rule clause: N threads deep-copy module-bearing values; every
              copy must succeed and the table must be restored afterwards (a stress run, not a proof).
"""
import copy
import copyreg
import itertools
import json
import os
import sys
import threading
import types

from spec_classes import spec_class
from spec_classes.utils.mutation import protect_via_deepcopy


class Boom(Exception):
    pass


class Nest:
    """an object whose deep copy performs another protected copy (nesting) or raises"""
    def __init__(self, depth, fail_at=None):
        self.depth, self.fail_at = depth, fail_at

    def __deepcopy__(self, memo):
        if self.fail_at == self.depth:
            raise Boom()
        if self.depth > 0:
            inner = Nest(self.depth - 1, self.fail_at)
            protect_via_deepcopy([inner, sys])
        return Nest(self.depth, self.fail_at)


@spec_class(bootstrap=True)
class Holder:
    mod: object = None
    items: list = []
    nest: object = None


def table_snapshot():
    return dict(copyreg.dispatch_table)


def histories():
    for depth in range(0, 4):
        for fail in [None] + list(range(0, depth + 1)):
            yield ("copy", depth, fail)
    for depth in range(0, 3):
        yield ("ctor", depth, None)
        yield ("with", depth, None)
        yield ("reset", depth, None)
        yield ("deepcopy", depth, None)


def run_history(h):
    kind, depth, fail = h
    before = table_snapshot()
    try:
        if kind == "copy":
            protect_via_deepcopy([Nest(depth, fail), sys, {"m": os}])
        elif kind == "ctor":
            Holder(mod=sys, items=[os, [sys]], nest=Nest(depth))
        elif kind == "with":
            Holder(mod=sys).with_items([os]).with_nest(Nest(depth))
        elif kind == "reset":
            Holder(mod=sys, items=[1]).reset_items().reset()
        elif kind == "deepcopy":
            copy.deepcopy([Holder(mod=sys, nest=Nest(depth))])
    except Boom:
        pass
    after = table_snapshot()
    if after != before:
        return "copyreg.dispatch_table differs after the history: extra %r, missing %r" % (
            sorted(map(repr, set(after) - set(before))), sorted(map(repr, set(before) - set(after))))
    if types.ModuleType in copyreg.dispatch_table and types.ModuleType not in before:
        return "modules left globally copyable"
    return None


REPLAY = '''#!/venv/bin/python
# C20 replay: one history of copying operations; the copy/pickle dispatch table must be restored.
# run: PYTHONPATH=/repo /venv/bin/python {path}      (exit 1 = the property is violated)
import sys
sys.path.insert(0, {verif!r})
from bounded.c20 import *
bad = run_history({h!r})
print("history :", {h!r})
print("verdict :", bad or "dispatch table restored")
sys.exit(1 if bad else 0)
'''


def threads(n, rounds):
    errors = []
    before = table_snapshot()
    barrier = threading.Barrier(n)

    def work():
        try:
            barrier.wait()
            for _ in range(rounds):
                r = protect_via_deepcopy([sys, {"m": os}, Nest(1)])
                assert r[0] is sys
        except BaseException as e:       # noqa
            errors.append("%s: %s" % (type(e).__name__, e))
    ts = [threading.Thread(target=work) for _ in range(n)]
    for t in ts:
        t.start()
    for t in ts:
        t.join()
    if errors:
        return "a concurrent deep copy failed: %s" % errors[0]
    if table_snapshot() != before:
        return "dispatch table not restored after concurrent copies"
    return None


def main():
    mode = sys.argv[1]
    if mode == "--find":
        d = sys.argv[3]
        n = 0
        for h in histories():
            n += 1
            bad = run_history(h)
            if bad:
                os.makedirs(d, exist_ok=True)
                path = os.path.join(d, "c20_%s_%s_%s.py" % h)
                with open(path, "w") as fh:
                    fh.write(REPLAY.format(path=path, verif=os.path.dirname(os.path.dirname(os.path.abspath(__file__))), h=h))
                print(json.dumps({"cases": n, "found": True, "failure": {"history": repr(h), "why": bad}, "replay": path}))
                return
        print(json.dumps({"cases": n, "found": False, "distinct": n}))
    elif mode == "--threads":
        bad = None
        n = 0
        for k in (2, 3):
            for _ in range(int(sys.argv[2]) if len(sys.argv) > 2 else 20):
                n += 1
                bad = bad or threads(k, 30)
        print(json.dumps({"cases": n, "found": bool(bad), "failure": {"why": bad} if bad else None, "distinct": 2}))


if __name__ == "__main__":
    main()
