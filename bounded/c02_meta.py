"""A-META stand-in for C02 (runs under /venv/bin/python): do_not_copy declarations (class level bool / list, attribute level,
inherited through spec subclasses) against the documented rule - an attribute is carried by identity iff it was declared
do_not_copy on the attribute, or by the class that declares it, or by a subclass; inheritance never removes the status -
checked on the metadata and on the behaviour of deepcopy / with_<attr> / update / reset_<attr>."""
import copy
import itertools
import json
import os
import sys
from typing import Any

from spec_classes import Attr, spec_class


class Res:
    def __init__(self):
        self.log = []


def hierarchy(parent_dnc, child_dnc, attr_level):
    @spec_class(do_not_copy=parent_dnc, bootstrap=True)
    class Parent:
        conn: Any = Attr(default=None, do_not_copy=True) if attr_level else None
        other: Any = None
        n: int = 0

    @spec_class(do_not_copy=child_dnc, bootstrap=True)
    class Child(Parent):
        session: Any = None
    return Parent, Child


def expected(parent_dnc, child_dnc, attr_level, cls_is_child, attr):
    def in_(spec, a):
        return spec is True or (isinstance(spec, list) and a in spec)
    e = in_(parent_dnc, attr) if attr in ("conn", "other", "n") else False
    if attr == "conn" and attr_level:
        e = True
    if cls_is_child:
        e = e or in_(child_dnc, attr)
    return e


SETTINGS = [False, ["conn"], ["other"], ["session"], ["conn", "session"]]


def check():
    n = 0
    for pd, cd, al in itertools.product(SETTINGS[:3], SETTINGS, [False, True]):
        if "session" in (pd if isinstance(pd, list) else []):
            continue
        Parent, Child = hierarchy(pd, cd, al)
        for cls, is_child in ((Parent, False), (Child, True)):
            for a in (["conn", "other"] + (["session"] if is_child else [])):
                n += 1
                want = expected(pd, cd, al, is_child, a)
                got = cls.__spec_class__.attrs[a].do_not_copy
                where = "Parent(do_not_copy=%r%s) / Child(do_not_copy=%r): %s.%s" % (pd, ", conn: Attr(do_not_copy=True)" if al else "", cd, cls.__name__, a)
                if bool(got) != want:
                    return n, "%s has do_not_copy=%r, the declarations say %r" % (where, got, want)
                obj = cls()
                r = Res()
                setattr(obj, a, r)
                for label, derived in (("deepcopy", copy.deepcopy(obj)), ("with_n", obj.with_n(1)), ("update", obj.update(n=2)), ("reset_n", obj.reset_n())):
                    same = getattr(derived, a) is r
                    if same != want:
                        return n, "%s: after %s the attribute is %s, expected %s" % (where, label, "the same object" if same else "a copy", "identity" if want else "a copy")
    return n, None


REPLAY = '''#!/venv/bin/python
# C02 (A-META) replay.  run: PYTHONPATH=/repo /venv/bin/python {path}      (exit 1 = the property is violated)
import sys
sys.path.insert(0, {verif!r})
from bounded.c02_meta import *
n, bad = check()
print("verdict :", bad or "do_not_copy declarations are honoured on the corpus")
sys.exit(1 if bad else 0)
'''


def main():
    d = sys.argv[3] if len(sys.argv) > 3 else "/verif/replays/C02"
    n, bad = check()
    out = {"cases": n, "found": bool(bad), "distinct": n}
    if bad:
        os.makedirs(d, exist_ok=True)
        path = os.path.join(d, "c02_meta.py")
        with open(path, "w") as fh:
            fh.write(REPLAY.format(path=path, verif=os.path.dirname(os.path.dirname(os.path.abspath(__file__)))))
        out["failure"] = {"why": bad}
        out["replay"] = path
    print(json.dumps(out))


if __name__ == "__main__":
    main()
