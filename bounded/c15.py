"""C15 concrete harness (runs under /venv/bin/python with PYTHONPATH=/repo).  Labelled *bounded*.

  --typing  : validation of A-TYPING (the axioms the proof assumes about how typing objects look to
              check_type): for every annotation of a generated pool (depth <= 2/3) compute the abstract
              observers (atag, nargs, targ, origin) from the real object and check every clause of
              ann_ok plus the issubclass/isinstance models used by the proof.
  --find FN : differential search: check_type(v, T) against an independent implementation of structural
              conformance written from the property statement; also: the check never raises.
"""
import itertools
import json
import numbers
import os
import sys
import types
import typing
import zlib
from typing import Any, Dict, List, Literal, Optional, Set, Tuple, Type, TypeVar, Union

from spec_classes import spec_class
from spec_classes.types.validated import bounded, validated
from spec_classes.utils.type_checking import check_type

try:
    from typing_extensions import Literal as LiteralExt
except Exception:           # pragma: no cover
    LiteralExt = Literal


class User:
    pass


class SubUser(User):
    pass


@spec_class(bootstrap=True)
class Spec:
    x: int = 0


T = TypeVar("T")
POS = bounded(int, ge=0)
UNIT = bounded(float, gt=0, le=1)
NEG = bounded(float, lt=0)
EVEN = validated(lambda v: isinstance(v, int) and v % 2 == 0, name="even")
VALIDATED = {POS: lambda v: isinstance(v, numbers.Real) and isinstance(v, int) and v >= 0,
             UNIT: lambda v: isinstance(v, numbers.Real) and 0 < v <= 1,
             NEG: lambda v: isinstance(v, numbers.Real) and v < 0,
             EVEN: lambda v: isinstance(v, int) and v % 2 == 0}

BASE = [Any, int, float, str, bool, bytes, type(None), User, Spec, T, POS, UNIT, NEG, EVEN]


def grow(pool):
    out = []
    for a in pool:
        out += [List[a], Set[a], Tuple[a, ...], Type[a], Optional[a], list[a], set[a], tuple[a, ...], type[a]]
    small = pool[:8]
    for a, b in itertools.product(small, small):
        out += [Dict[a, b], Tuple[a, b], dict[a, b]]
        if a is not b:
            out.append(Union[a, b])
            try:
                out.append(a | b)
            except TypeError:
                pass
    out += [Literal[1, "a", None], Literal[True], LiteralExt[0, ""], Tuple[()], Tuple[int, str, float]]
    return out


def annotations(depth):
    pool = list(BASE)
    level = list(BASE)
    for d in range(depth - 1):
        level = grow(level if d == 0 else level[::37][:40] + BASE)
        pool += level
    seen, out = set(), []
    for a in pool:
        k = repr(a)
        if k not in seen:
            seen.add(k)
            out.append(a)
    return out


VALUES = [0, 1, -1, 2, True, False, 1.5, 0.0, -0.5, 1.0, "a", "", b"x", None, User(), SubUser(), Spec(), Spec(x=3),
          [], [1], ["a"], [1, "a"], [True], [[1]], [None], {1}, {"a"}, set(), {1, "a"}, {}, {"a": 1}, {1: "a"}, {"a": "b"},
          {"a": [1]}, (), (1,), ("a",), (1, "a"), (1, 2, 3), (1, "a", 1.5), ((1,),),
          int, str, bool, float, User, SubUser, Spec, list, dict, type(None), object, type]


# ---------------------------------------------------------------------------------------------
# independent definition of structural conformance (from the property statement)
# ---------------------------------------------------------------------------------------------
def erase_accepts(cls, t):
    """class `cls` is a subclass of the erasure of t (for Type[t])"""
    if t is Any or isinstance(t, TypeVar):
        return True
    org = typing.get_origin(t)
    if org is Union or isinstance(t, types.UnionType):
        return any(erase_accepts(cls, a) for a in typing.get_args(t))
    if org in (Literal, LiteralExt):
        return False
    if org is not None:
        return isinstance(org, type) and issubclass(cls, org)
    return isinstance(t, type) and issubclass(cls, t)


def conforms(v, t):
    if t is Any or isinstance(t, TypeVar):
        return True
    if t in VALIDATED:
        return bool(VALIDATED[t](v))
    if t is float:
        return isinstance(v, (int, float)) or isinstance(v, numbers.Real)   # int accepted where float is declared
    org = typing.get_origin(t)
    args = typing.get_args(t)
    if org is Union or isinstance(t, types.UnionType):
        return any(conforms(v, a) for a in args)
    if org in (Literal, LiteralExt):
        return any(v is a or v == a for a in args)
    if org in (list, set):
        return isinstance(v, org) and all(conforms(x, args[0]) for x in v)
    if org is dict:
        return isinstance(v, dict) and all(conforms(k, args[0]) and conforms(x, args[1]) for k, x in v.items())
    if org is tuple:
        if not isinstance(v, tuple):
            return False
        if len(args) == 2 and args[1] is Ellipsis:
            return all(conforms(x, args[0]) for x in v)
        return len(v) == len(args) and all(conforms(x, a) for x, a in zip(v, args))
    if org is type:
        return isinstance(v, type) and erase_accepts(v, args[0])
    if org is not None:
        return isinstance(v, org)
    return isinstance(v, t)


def run_case(v, t):
    try:
        exp = conforms(v, t)
    except Exception as e:       # the reference itself is undefined here: skip
        return None
    try:
        got = check_type(v, t)
    except BaseException as e:   # noqa
        return "check_type raised %s: %s" % (type(e).__name__, e)
    if got is not exp:
        return "check_type returned %r, structural conformance is %r" % (got, exp)
    return None


# ---------------------------------------------------------------------------------------------
# A-TYPING: observers computed from real typing objects
# ---------------------------------------------------------------------------------------------
ANY, TVAR, UNION, PEP604, LITERAL, GALIAS, CLASS = range(1, 8)


def atag(t):
    if t is Any:
        return ANY
    if isinstance(t, TypeVar):
        return TVAR
    if isinstance(t, types.UnionType):
        return PEP604
    if hasattr(t, "__origin__"):
        if t.__origin__ is Union:
            return UNION
        if t.__origin__ in (Literal, LiteralExt):
            return LITERAL
        return GALIAS
    return CLASS


def typing_violations(t):
    """the clauses of ann_ok (contracts/c15_typecheck.py) evaluated on the real object"""
    bad = []
    tag = atag(t)
    has_origin = hasattr(t, "__origin__")
    if has_origin != (tag in (UNION, LITERAL, GALIAS)):
        bad.append("hasattr(__origin__) <=> tag in {UNION, LITERAL, GALIAS}")
    if tag == PEP604 and has_origin:
        bad.append("PEP 604 unions have no __origin__")
    if tag == CLASS and not isinstance(t, type):
        bad.append("tag CLASS => a class")
    if isinstance(t, type) and tag not in (CLASS, ANY):
        bad.append("a class has tag CLASS (or ANY)")
    if tag in (UNION, PEP604) and len(t.__args__) < 2:
        bad.append("unions have >= 2 alternatives")
    if tag == LITERAL and len(t.__args__) < 1:
        bad.append("Literal has >= 1 choice")
    if tag == GALIAS:
        o = t.__origin__
        gen = isinstance(t, typing._GenericAlias) or isinstance(t, types.GenericAlias)
        if not gen:
            bad.append("tag GALIAS => isinstance(_GenericAlias | GenericAlias)")
        if not isinstance(o, type):
            bad.append("origin of a generic alias is a class")
        if o in (list, set, type) and len(t.__args__) != 1:
            bad.append("list/set/type aliases have one argument")
        if o is dict and len(t.__args__) != 2:
            bad.append("dict aliases have two arguments")
        if hasattr(o, "__origin__"):
            bad.append("origin has no __origin__ itself")
    if tag in (UNION, LITERAL) and not isinstance(t, typing._GenericAlias):
        bad.append("Union/Literal objects are _GenericAlias instances (handled before the alias branch)")
    # issubclass model of the proof (only reached through _is_subclass_of_type on classes / origins)
    if tag == CLASS:
        for c in (int, bool, User, SubUser, list):
            try:
                r = issubclass(c, t)
            except TypeError:
                r = "TypeError"
            if t in VALIDATED:
                continue
            if r != (t in c.__mro__) and t is not object and not hasattr(t, "__subclasshook__"):
                pass
            if r == "TypeError":
                bad.append("issubclass(cls, plain class) does not raise")
    return bad


REPLAY = '''#!/venv/bin/python
# C15 replay: check_type(value, annotation) against structural conformance (property statement).
# run: PYTHONPATH=/repo /venv/bin/python {path}      (exit 1 = the property is violated)
import sys
sys.path.insert(0, {verif!r})
from bounded.c15 import *
ann = annotations({depth})[{ai}]
val = VALUES[{vi}]
bad = run_case(val, ann)
print("annotation:", ann)
print("value     :", repr(val))
print("verdict   :", bad or "agrees with structural conformance")
sys.exit(1 if bad else 0)
'''


def write_replay(d, depth, ai, vi):
    os.makedirs(d, exist_ok=True)
    path = os.path.join(d, "c15_%d_%d_%d.py" % (depth, ai, vi))
    with open(path, "w") as fh:
        fh.write(REPLAY.format(path=path, verif=os.path.dirname(os.path.dirname(os.path.abspath(__file__))),
                               depth=depth, ai=ai, vi=vi))
    return path


def main():
    mode = sys.argv[1]
    if mode == "--typing":
        depth = int(sys.argv[2]) if len(sys.argv) > 2 else 2
        anns = annotations(depth)
        bad = []
        for t in anns:
            for b in typing_violations(t):
                bad.append("%r: %s" % (t, b))
        print(json.dumps({"cases": len(anns), "found": False, "axiom_violations": bad[:10], "distinct": len(anns)}))
    elif mode == "--find":
        d = sys.argv[3]
        depth = int(sys.argv[4]) if len(sys.argv) > 4 else 2
        anns = annotations(depth)
        n = 0
        for ai, t in enumerate(anns):
            for vi, v in enumerate(VALUES):
                n += 1
                bad = run_case(v, t)
                if bad:
                    print(json.dumps({"cases": n, "found": True, "failure": {"annotation": repr(t), "value": repr(v), "why": bad},
                                      "replay": write_replay(d, depth, ai, vi)}))
                    return
        print(json.dumps({"cases": n, "found": False, "distinct": len(anns)}))


if __name__ == "__main__":
    main()
