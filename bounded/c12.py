"""C12 concrete harness (runs under /venv/bin/python with PYTHONPATH=/repo).  Labelled *bounded*.

Executes the three-state machine of the property statement (override / cached / none) against the real
descriptors for all 16 combinations of (overridable, cache, custom setter, custom deleter), on plain
classes and on spec classes (managed annotation + preparer + type check), and classproperty with cache /
cache_per_subclass over a three-class hierarchy; every operation sequence of length <= N over
{read, assign, delete, change underlying state}.  Also the stand-in for option propagation through
.getter/.setter/.deleter (they re-construct the descriptor from **self.attrs: outside the pyvc subset).
"""
import itertools
import json
import os
import sys

from spec_classes import classproperty, spec_class, spec_property

OPS = ["read", "assign", "delete", "bump"]
NONE_OPS = ["read", "assign_none", "delete"]


def make_plain(o, c, has_set, has_del, none_getter=False):
    log = []

    class P:
        def __init__(self):
            self.x = 1

    def fget(self):
        log.append("get")
        return None if none_getter else self.x * 10
    p = spec_property(fget, overridable=o, cache=c)
    if has_set:
        p = p.setter(lambda self, v: log.append(("set", v)))
    if has_del:
        p = p.deleter(lambda self: log.append("del"))
    P.p = p
    p.__set_name__(P, "p")
    return P, log


def make_spec(o, c, has_set, has_del, bad=False):
    log = []

    def fget(self):
        log.append("get")
        return "oops" if bad else self.x * 10
    prop = spec_property(fget, overridable=o, cache=c)
    if has_set:
        prop = prop.setter(lambda self, v: log.append(("set", v)))
    if has_del:
        prop = prop.deleter(lambda self: log.append("del"))

    @spec_class(bootstrap=True)
    class S:
        x: int = 1
        p: int = prop

        def _prepare_p(self, v):
            return v + 1 if isinstance(v, int) else v
    return S, log


def model_step(st, op, o, c, has_set, has_del, spec, bad, none_getter=False):
    """st = dict(slot=<absent or value>, x=int); returns (result, exc class or None, expected log delta)"""
    ABS = "<absent>"
    if op == "bump":
        st["x"] += 1
        return None, None, []
    if op == "read":
        if st["slot"] != ABS and (o or c):
            return st["slot"], None, []
        g = "oops" if bad else (None if none_getter else st["x"] * 10)
        if spec:
            g = g + 1 if isinstance(g, int) else g
            if not isinstance(g, int):
                return None, ValueError, ["get"]
        if c:
            st["slot"] = g
        return g, None, ["get"]
    if op in ("assign", "assign_none"):
        v = None if op == "assign_none" else (778 if spec else 777)      # the spec-class route prepares (+1) the assigned value
        if has_set:
            return None, None, [("set", v)]
        if o:
            st["slot"] = v
            return None, None, []
        return None, AttributeError, []
    if op == "delete":
        if has_del:
            return None, None, ["del"]
        if st["slot"] != ABS and (o or c):
            st["slot"] = ABS
            return None, None, []
        return None, AttributeError, []


def run_seq(kind, o, c, has_set, has_del, seq, bad=False, none_getter=False):
    spec = kind == "spec"
    cls, log = (make_spec(o, c, has_set, has_del, bad) if spec else make_plain(o, c, has_set, has_del, none_getter))
    obj = cls()
    st = {"slot": "<absent>", "x": 1}
    for i, op in enumerate(seq):
        del log[:]
        exp, exp_exc, exp_log = model_step(st, op, o, c, has_set, has_del, spec, bad, none_getter)
        before = dict(obj.__dict__)
        got, got_exc = None, None
        try:
            if op == "read":
                got = obj.p
            elif op == "assign":
                if spec and not has_set:
                    # spec-class __setattr__ prepares and type-checks the assigned value first (C03); use a conforming one
                    obj.p = 777
                else:
                    obj.p = 777
            elif op == "assign_none":
                obj.p = None
            elif op == "delete":
                if spec:
                    type(obj).__dict__["p"].__delete__(obj) if False else delattr(obj, "p")
                else:
                    del obj.p
            elif op == "bump":
                obj.__dict__["x"] = obj.__dict__["x"] + 1
        except BaseException as e:      # noqa
            got_exc = type(e)
        where = "step %d (%s) of %r" % (i, op, seq)
        if exp_exc is not None:
            if got_exc is None or not issubclass(got_exc, exp_exc):
                return "%s: expected %s, got %s" % (where, exp_exc.__name__, got_exc.__name__ if got_exc else "success")
            after = dict(obj.__dict__)
            after.pop("__spec_class_initializing__", None)
            if after != before:
                return "%s: a failing operation changed the instance: %r -> %r" % (where, before, after)
            continue
        if got_exc is not None:
            return "%s: unexpected %s" % (where, got_exc.__name__)
        if op == "read" and got != (st["slot"] if (st["slot"] != "<absent>" and (o or c)) else exp):
            return "%s: read %r, protocol gives %r" % (where, got, exp)
        if [x for x in log] != exp_log:
            return "%s: accessor calls %r, expected %r" % (where, log, exp_log)
        slot = obj.__dict__.get("p", "<absent>")
        if slot != st["slot"]:
            return "%s: stored slot %r, protocol gives %r" % (where, slot, st["slot"])
    return None


# ---- classproperty ------------------------------------------------------------------------------
def make_cp(o, c, per_sub):
    log = []

    class A:
        n = 1

        @classproperty(overridable=o, cache=c, cache_per_subclass=per_sub)
        def p(cls):
            log.append(("get", cls.__name__))
            return (cls.__name__, cls.n)

    class B(A):
        pass

    class C(B):
        pass
    return (A, B, C), log


def run_cp(o, c, per_sub, seq):
    classes, log = make_cp(o, c, per_sub)
    slots = {}          # key -> value

    def key(cls):
        return cls.__name__ if per_sub else None
    for i, (op, ci) in enumerate(seq):
        cls = classes[ci]
        del log[:]
        where = "step %d (%s on %s) of %r" % (i, op, cls.__name__, seq)
        try:
            if op == "read":
                got = cls.p
                if key(cls) in slots:
                    exp, exp_log = slots[key(cls)], []
                else:
                    exp, exp_log = (cls.__name__, cls.n), [("get", cls.__name__)]
                    if c:
                        slots[key(cls)] = exp
                if got != exp or log != exp_log:
                    return "%s: read %r (calls %r), protocol gives %r (calls %r)" % (where, got, log, exp, exp_log)
            elif op == "assign":
                try:
                    cls().p = "v%d" % i
                    if not o:
                        return "%s: assignment succeeded on a non-overridable classproperty" % where
                    slots[key(cls)] = "v%d" % i
                except AttributeError:
                    if o:
                        return "%s: assignment refused on an overridable classproperty" % where
            elif op == "delete":
                try:
                    del cls().p
                    if key(cls) not in slots:
                        return "%s: deletion succeeded with nothing stored" % where
                    del slots[key(cls)]
                except AttributeError:
                    if key(cls) in slots:
                        return "%s: deletion refused although a value is stored" % where
            elif op == "bump":
                classes[0].n += 1
        except BaseException as e:      # noqa
            return "%s: unexpected %s: %s" % (where, type(e).__name__, e)
    return None


# ---- option propagation through getter/setter/deleter --------------------------------------------
def propagation():
    bad = []
    for o, c in itertools.product([False, True], repeat=2):
        p = spec_property(lambda s: 1, overridable=o, cache=c, invalidated_by=["x"], allow_attribute_error=False)
        for name, q in (("getter", p.getter(lambda s: 2)), ("setter", p.setter(lambda s, v: None)), ("deleter", p.deleter(lambda s: None))):
            if (q.overridable, q.cache, tuple(q.invalidated_by), q.allow_attribute_error) != (o, c, ("x",), False):
                bad.append("spec_property.%s drops options: %r" % (name, (q.overridable, q.cache, q.invalidated_by, q.allow_attribute_error)))
            if name != "getter" and q.fget is not p.fget:
                bad.append("spec_property.%s drops the getter" % name)
        cp = classproperty(lambda cls: 1, overridable=o, cache=c, cache_per_subclass=True)
        for name, q in (("getter", cp.getter(lambda cls: 2)), ("setter", cp.setter(lambda cls, v: None)), ("deleter", cp.deleter(lambda cls: None))):
            if (q.overridable, q.cache, q.cache_per_subclass) != (o, c, True):
                bad.append("classproperty.%s drops options: %r" % (name, (q.overridable, q.cache, q.cache_per_subclass)))
    return bad


REPLAY = '''#!/venv/bin/python
# C12 replay.  run: PYTHONPATH=/repo /venv/bin/python {path}      (exit 1 = the property is violated)
import sys
sys.path.insert(0, {verif!r})
from bounded.c12 import *
bad = {call}
print("case    :", {call!r})
print("verdict :", bad or "follows the override / cache / getter protocol")
sys.exit(1 if bad else 0)
'''


def write_replay(d, call):
    import zlib
    os.makedirs(d, exist_ok=True)
    path = os.path.join(d, "c12_%d.py" % (zlib.crc32(call.encode()) % 1000000))
    with open(path, "w") as fh:
        fh.write(REPLAY.format(path=path, verif=os.path.dirname(os.path.dirname(os.path.abspath(__file__))), call=call))
    return path


def search(n, only=None):
    cases = 0
    for kind in ("plain", "spec"):
        for o, c, hs, hd in itertools.product([False, True], repeat=4):
            for L in range(1, n + 1):
                for seq in itertools.product(OPS, repeat=L):
                    cases += 1
                    bad = run_seq(kind, o, c, hs, hd, seq)
                    if bad:
                        return cases, bad, "run_seq(%r, %r, %r, %r, %r, %r)" % (kind, o, c, hs, hd, seq)
    # stored values that are None (a None override, a cached None): stored is stored, whatever the value
    for o, c, hs, hd in itertools.product([False, True], repeat=4):
        for ng in (False, True):
            for L in range(1, min(n, 3) + 1):
                for seq in itertools.product(NONE_OPS, repeat=L):
                    cases += 1
                    bad = run_seq("plain", o, c, hs, hd, seq, none_getter=ng)
                    if bad:
                        return cases, bad, "run_seq('plain', %r, %r, %r, %r, %r, none_getter=%r)" % (o, c, hs, hd, seq, ng)
    for o, c in itertools.product([False, True], repeat=2):
        cases += 1
        bad = run_seq("spec", o, c, False, False, ("read",), bad=True)
        if bad:
            return cases, bad, "run_seq('spec', %r, %r, False, False, ('read',), bad=True)" % (o, c)
    ops = [(op, ci) for op in OPS for ci in range(3)]
    for o, c, ps in itertools.product([False, True], repeat=3):
        for L in range(1, min(n, 3) + 1):
            for seq in itertools.product(ops, repeat=L):
                cases += 1
                bad = run_cp(o, c, ps, seq)
                if bad:
                    return cases, bad, "run_cp(%r, %r, %r, %r)" % (o, c, ps, seq)
    for b in propagation():
        return cases, b, "(propagation() or [None])[0]"
    return cases, None, None


def main():
    if sys.argv[1] in ("--find", "--standin"):
        d = sys.argv[3] if len(sys.argv) > 3 else "/verif/replays/C12"
        n = int(sys.argv[4]) if len(sys.argv) > 4 else (int(sys.argv[2]) if sys.argv[1] == "--standin" else 3)
        cases, bad, call = search(n)
        out = {"cases": cases, "found": bool(bad), "distinct": cases}
        if bad:
            out["failure"] = {"why": bad, "case": call}
            out["replay"] = write_replay(d, call)
        print(json.dumps(out))


if __name__ == "__main__":
    main()
