"""C10 concrete harness (runs under /venv/bin/python with PYTHONPATH=/repo).  Labelled *bounded*.

==, != over generated pairs/triples of instances against the attribute-wise reference comparison of the statement;
deepcopy(x) == x; re-construction from the instance's own attribute values; repr never raises (missing values,
self-referential structures) and lists exactly the repr-enabled attributes in declaration order.
"""
import copy
import itertools
import json
import os
import re
import sys
from typing import Any, Callable, List, Optional

from spec_classes import Attr, spec_class
from spec_classes.types import MISSING


@spec_class(bootstrap=True)
class P:
    a: int
    b: str = "x"
    c: List[int] = []
    hidden: int = Attr(default=0, repr=False)
    loose: int = Attr(default=0, compare=False)
    f: Optional[Callable] = None
    ref: Any = None

    def m(self):
        return 1

    def n(self):
        return 2


class Scale:
    """a callable object with value semantics"""
    def __init__(self, k):
        self.k = k

    def __call__(self, v):
        return v * self.k

    def __eq__(self, o):
        return isinstance(o, Scale) and o.k == self.k

    def __hash__(self):
        return hash(self.k)

    def __repr__(self):
        return "Scale(%d)" % self.k


@spec_class(bootstrap=True)
class Tagged:
    t: int = 0

    def __repr__(self):          # a user-written repr that takes no formatting keywords
        return "<Tagged %d>" % self.t


class Q(P):           # plain subclass: inherits the generated methods
    pass


@spec_class(bootstrap=True)
class S(P):           # spec subclass that only gives inherited attributes new defaults: compare=False / repr=False stay in force
    loose = 3
    hidden = 2


@spec_class(bootstrap=True)
class R:
    a: int = 0


COMPARED = ["a", "b", "c", "hidden", "f", "ref"]
REPR_ATTRS = ["a", "b", "c", "loose", "f", "ref"]


def instances():
    out = [P(), P(a=1), P(a=1, b="y"), P(a=1, c=[1]), P(a=1, hidden=5), P(a=1, loose=9), Q(a=1), Q(), R(), R(a=1)]
    out += [S(a=1), S(a=1, loose=9), S(a=1, hidden=7)]
    for fn in ("m", "n"):
        p = P(a=1)
        p.f = getattr(p, fn)
        out.append(p)
    p = P(a=1, ref=7)
    p.f = p.m                        # differs from the instances above only *after* the method-valued attribute
    out.append(p)
    out.append(P(a=1, f=Scale(2)))   # callable objects compare by value, like any other attribute value
    out.append(P(a=1, f=Scale(2)))
    out.append(P(a=1, f=Scale(3)))
    out.append(P(a=5, f=Scale(2).__call__))          # a method bound to an object other than the instance
    out.append(P(a=4, ref=R))        # a spec class itself held as a value
    out.append(P(a=4, ref=Tagged(t=1)))      # a nested spec instance with a user-written __repr__
    p = P(a=2)
    p.ref = p                        # self-referential
    out.append(p)
    p = P(a=3)
    p.ref = [p]
    out.append(p)
    return out


def ref_value_eq(x, y):
    import inspect
    if inspect.ismethod(x) and inspect.ismethod(y):
        return x.__func__ is y.__func__
    return x == y


def ref_eq(x, y, depth=0):
    """the statement's relation: same class (the generated __eq__ on both sides) and all compare-enabled attributes equal"""
    if type(x) is not type(y):
        return False
    if isinstance(x, R):
        return getattr(x, "a", MISSING) == getattr(y, "a", MISSING)
    for a in COMPARED:
        vx, vy = getattr(x, a, MISSING), getattr(y, a, MISSING)
        if a == "ref" and (vx is x or (isinstance(vx, list) and vx and vx[0] is x)):
            continue                 # self-referential values: the reference comparison does not recurse
        if not ref_value_eq(vx, vy):
            return False
    return True


def selfref(x):
    r = getattr(x, "ref", None)
    return r is x or (isinstance(r, list) and r and r[0] is x)


def check():
    xs = instances()
    n = 0
    for i, x in enumerate(xs):
        n += 1
        if not selfref(x):
            if not (x == x):
                return n, "x == x fails for instance #%d %r" % (i, x)
            y = copy.deepcopy(x)
            if not (y == x and x == y):
                return n, "deepcopy(x) == x fails for instance #%d: %r vs %r" % (i, x, y)
            import inspect
            is_m = inspect.ismethod(getattr(x, "f", None)) and x.f.__self__ is x
            kw = {a: getattr(x, a) for a in type(x).__spec_class__.attrs if hasattr(x, a) and not (a == "f" and is_m)}
            z = type(x)(**kw)
            if is_m:
                z.f = getattr(z, x.f.__name__)
            if not (z == x):
                return n, "re-construction from its own attribute values is not equal for instance #%d: %r vs %r" % (i, x, z)
        else:
            # a self-referential instance: the copy is total and refers to itself, not to the original
            try:
                y = copy.deepcopy(x)
            except BaseException as e:      # noqa
                return n, "deepcopy raised %s for the self-referential instance #%d" % (type(e).__name__, i)
            r = y.ref[0] if isinstance(y.ref, list) else y.ref
            if r is not y:
                return n, "the copy of the self-referential instance #%d refers to %s instead of itself" % (i, "the original" if r is x else "a third object")
        try:
            s = repr(x)
        except BaseException as e:      # noqa
            return n, "repr raised %s: %s for instance #%d" % (type(e).__name__, e, i)
        if isinstance(x, P):
            names = re.findall(r"(?:^|[(,]\s*)([a-z]+)=", s.split("(", 1)[1] if "(" in s else s)
            top = [a for a in names if a in REPR_ATTRS or a == "hidden"]
            want = REPR_ATTRS
            got = [a for a in top]
            # only the first occurrence of each top-level attribute name, in order
            seen = []
            for a in got:
                if a not in seen:
                    seen.append(a)
            if seen[:len(want)] != want or "hidden" in seen:
                return n, "repr lists %r, expected exactly %r in declaration order: %s" % (seen, want, s)
    for (i, x), (j, y) in itertools.product(enumerate(xs), repeat=2):
        if selfref(x) or selfref(y):
            continue
        n += 1
        e, ne = (x == y), (x != y)
        if e != ref_eq(x, y):
            return n, "instances #%d == #%d gives %r, the attribute-wise comparison gives %r (%r vs %r)" % (i, j, e, ref_eq(x, y), x, y)
        if ne == e:
            return n, "== and != agree for instances #%d, #%d" % (i, j)
        if e != (y == x):
            return n, "== is not symmetric for instances #%d, #%d" % (i, j)
    for x, y, z in itertools.product([v for v in xs if not selfref(v)], repeat=3):
        n += 1
        if x == y and y == z and not x == z:
            return n, "== is not transitive: %r, %r, %r" % (x, y, z)
    return n, None


REPLAY = '''#!/venv/bin/python
# C10 replay.  run: PYTHONPATH=/repo /venv/bin/python {path}      (exit 1 = the property is violated)
import sys
sys.path.insert(0, {verif!r})
from bounded.c10 import *
n, bad = check()
print("verdict :", bad or "equality / copy / repr coherent on the corpus")
sys.exit(1 if bad else 0)
'''


def main():
    d = sys.argv[3] if len(sys.argv) > 3 else "/verif/replays/C10"
    n, bad = check()
    out = {"cases": n, "found": bool(bad), "distinct": n}
    if bad:
        os.makedirs(d, exist_ok=True)
        path = os.path.join(d, "c10_corpus.py")
        with open(path, "w") as fh:
            fh.write(REPLAY.format(path=path, verif=os.path.dirname(os.path.dirname(os.path.abspath(__file__)))))
        out["failure"] = {"why": bad}
        out["replay"] = path
    print(json.dumps(out))


if __name__ == "__main__":
    main()
