"""Runs under /venv/bin/python (PYTHONPATH=/repo): builds the generated methods of a corpus of spec classes with the real
MethodBuilder and prints, per generated method, the source text handed to exec, the advertised signature, the implementation's
signature and the set of accepted virtual keywords.  Nothing in the repository is modified: the module-level name `exec` of
spec_classes.utils.method_builder is shadowed for the duration of this process."""
import inspect
import json
import sys
import textwrap
from typing import Dict, List, Optional, Set

import spec_classes.utils.method_builder as mb
from spec_classes import Attr, spec_class

CAPTURED = []
_real_exec = exec


def capturing_exec(src, globs, namespace):
    _real_exec(src, globs, namespace)
    name = [k for k, v in namespace.items() if inspect.isfunction(v)][0]
    impl = globs["implementation"]
    va = globs["validate_attrs"]
    valid = sorted(va.__closure__[[c for c in va.__code__.co_freevars].index("VALID_KWARGS")].cell_contents) if va.__closure__ else []
    CAPTURED.append({"name": name, "source": textwrap.dedent(src), "valid_kwargs": valid,
                     "defaults": sorted(globs["DEFAULTS"]) if isinstance(globs.get("DEFAULTS"), dict) else [],
                     "impl_params": [(p.name, p.kind.name, p.default is not inspect.Parameter.empty) for p in inspect.signature(impl).parameters.values()],
                     "fn": namespace[name]})


mb.exec = capturing_exec


@spec_class(key="name", bootstrap=True)
class Inner:
    name: str
    v: int = 0
    hidden: int = 0
    secret: int = Attr(default=0, init=False)          # not a constructor argument: no nested keyword anywhere


@spec_class(bootstrap=True)
class Outer:
    x: int = 1
    inner: Optional[Inner] = None
    items: List[Inner] = []
    nums: List[int] = []
    table: Dict[str, Inner] = {}
    tags: Set[str] = set()


@spec_class(init_overflow_attr="rest", bootstrap=True)
class Over:
    a: int = 0
    rest: Dict[str, int] = {}


def main():
    out = []
    for cls in (Inner, Outer, Over):
        names = [n for n in dir(cls) if n.startswith(("with_", "update_", "transform_", "reset_", "without_")) or n in ("update", "transform", "reset", "__init__")]
        for n in names:
            getattr(cls, n)                    # lazy descriptors build the method on first access
    for rec in CAPTURED:
        fn = rec.pop("fn")
        sig = fn.__signature__
        rec["advertised"] = [(p.name, p.kind.name, p.default is not inspect.Parameter.empty, repr(p.default) if p.default is not inspect.Parameter.empty else None)
                             for p in sig.parameters.values()]
        out.append(rec)
    print(json.dumps(out))


if __name__ == "__main__":
    main()
