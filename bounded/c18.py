"""C18 concrete harness (runs under /venv/bin/python with PYTHONPATH=/repo).  Labelled *bounded*.

A two-variable reference model (target value, per-instance override) is run against Alias / DeprecatedAlias for every
operation sequence of length <= N over {read, assign, delete, set target, delete target}, for attribute paths of every
syntactic form (identifier, dotted, ["key"], ['key'], mixed), with and without passthrough / transform / fallback.
Stand-in for the path parser (regular expression), bracket components and the warning text - outside the verified subset.
"""
import itertools
import json
import os
import sys
import warnings

import copy

from spec_classes import Alias, DeprecatedAlias, spec_class
from spec_classes.types import MISSING


class Node:
    pass


PATHS = {
    "x": (lambda o: o, "x", "attr"),
    "inner.x": (lambda o: o.inner, "x", "attr"),
    'd["k"]': (lambda o: o.d, "k", "key"),
    "d['k']": (lambda o: o.d, "k", "key"),
    'inner.d["a.b"]': (lambda o: o.inner.d, "a.b", "key"),
    "d['n'].x": (lambda o: o.d["n"], "x", "attr"),
}
OPS = ["read", "assign", "assign_none", "delete", "set_target", "del_target"]
ABS = "<absent>"


def make(path, passthrough, transform, fallback, deprecated):
    kw = {"passthrough": passthrough}
    if transform:
        kw["transform"] = lambda v: ("t", v)
    if fallback is not MISSING:
        kw["fallback"] = fallback
    al = (DeprecatedAlias if deprecated else Alias)(path, **kw)

    class Owner:
        a = al

        def __init__(self):
            self.inner = Node()
            self.inner.d = {}
            self.d = {"n": Node()}
    al.__set_name__(Owner, "a")
    return Owner, al


def t_get(o, path):
    holder, last, kind = PATHS[path]
    h = holder(o)
    if kind == "attr":
        return getattr(h, last, ABS)
    return h.get(last, ABS)


def t_set(o, path, v):
    holder, last, kind = PATHS[path]
    h = holder(o)
    if kind == "attr":
        setattr(h, last, v)
    else:
        h[last] = v


def t_del(o, path):
    holder, last, kind = PATHS[path]
    h = holder(o)
    if kind == "attr":
        if hasattr(h, last):
            delattr(h, last)
    else:
        h.pop(last, None)


def run_seq(path, passthrough, transform, fallback, deprecated, seq):
    Owner, al = make(path, passthrough, transform, fallback, deprecated)
    o = Owner()
    override = ABS
    for i, op in enumerate(seq):
        where = "step %d (%s) of %r on Alias(%r, passthrough=%r, transform=%r, fallback=%r)%s" % (
            i, op, seq, path, passthrough, transform, fallback, " [deprecated]" if deprecated else "")
        tgt = t_get(o, path)
        with warnings.catch_warnings(record=True) as w:
            warnings.simplefilter("always")
            got, exc = None, None
            try:
                if op == "read":
                    got = o.a
                elif op == "assign":
                    o.a = "v%d" % i
                elif op == "assign_none":
                    o.a = None
                elif op == "delete":
                    del o.a
                elif op == "set_target":
                    t_set(o, path, "T%d" % i)
                elif op == "del_target":
                    t_del(o, path)
            except BaseException as e:      # noqa
                exc = e
        if op in ("read", "assign", "assign_none", "delete"):
            nw = len([x for x in w if issubclass(x.category, DeprecationWarning)])
            if deprecated and nw != 1:
                return "%s: %d deprecation warnings, expected exactly 1" % (where, nw)
            if not deprecated and nw:
                return "%s: unexpected warning" % where
        if op == "read":
            if override is not ABS and not passthrough:
                exp = override
            elif tgt is not ABS:
                exp = ("t", tgt) if transform else tgt
            elif fallback is not MISSING:
                exp = fallback
            else:
                exp = AttributeError
            if exp is AttributeError:
                if not isinstance(exc, AttributeError):
                    return "%s: expected AttributeError, got %r / %r" % (where, got, exc)
            elif exc is not None or got != exp:
                return "%s: read %r (%r), the model gives %r" % (where, got, exc, exp)
            elif tgt is ABS and (override is ABS or passthrough) and fallback is not MISSING and isinstance(fallback, list):
                if got is fallback:
                    return "%s: the fallback object itself was handed out (not a fresh copy)" % where
                with warnings.catch_warnings():
                    warnings.simplefilter("ignore")
                    again = o.a
                if again is got:
                    return "%s: two reads with a missing target returned the same fallback object (not a fresh copy each time)" % where
                for part_f, part_g, part_a in zip(fallback, got, again):
                    if isinstance(part_f, list) and (part_g is part_f or part_a is part_f or part_a is part_g):
                        return "%s: a mutable part of the fallback is shared between the fallback and / or two reads (the copy handed out is not fresh below the top level)" % where
        elif op in ("assign", "assign_none"):
            val = None if op == "assign_none" else "v%d" % i
            if exc is not None:
                return "%s: unexpected %r" % (where, exc)
            if passthrough:
                if t_get(o, path) != val:
                    return "%s: passthrough assignment did not reach the target (target is %r)" % (where, t_get(o, path))
            else:
                override = val
                if t_get(o, path) != tgt:
                    return "%s: a local assignment modified the target: %r -> %r" % (where, tgt, t_get(o, path))
        elif op == "delete":
            if passthrough:
                if tgt is ABS:
                    if exc is None:
                        return "%s: deleting a missing target did not raise" % where
                elif exc is not None or t_get(o, path) is not ABS:
                    return "%s: passthrough deletion did not remove the target (%r, %r)" % (where, exc, t_get(o, path))
            else:
                if override is ABS:
                    if not isinstance(exc, AttributeError):
                        return "%s: deleting without an override: expected AttributeError, got %r" % (where, exc)
                else:
                    if exc is not None:
                        return "%s: unexpected %r" % (where, exc)
                    override = ABS
                if t_get(o, path) != tgt:
                    return "%s: deleting the override modified the target" % where
    return None


@spec_class(bootstrap=True)
class Spec18:
    x: int = 1
    z: int = 0
    y: int = Alias("x")


def spec_copy_checks():
    """alias state (target, local override) of a spec-class instance after deepcopy and copy-on-write helpers"""
    a = Spec18(x=1)
    a.y = 7
    for label, mk in (("copy.deepcopy(a)", lambda: copy.deepcopy(a)), ("a.with_z(5)", lambda: a.with_z(5)), ("a.with_x(3)", lambda: a.with_x(3))):
        c = mk()
        if c.y != 7:
            return "a = Spec18(x=1); a.y = 7; %s: the copy's alias reads %r - the local override was lost" % (label, c.y)
        try:
            del c.y
        except AttributeError:
            return "a = Spec18(x=1); a.y = 7; %s: deleting the override on the copy raised AttributeError" % label
        if c.y != c.x:
            return "%s: after deleting the override the copy's alias reads %r, its target holds %r" % (label, c.y, c.x)
        if a.y != 7 or a.x != 1:
            return "%s changed the receiver (y=%r, x=%r)" % (label, a.y, a.x)
    b = Spec18(x=2)
    c = b.with_x(4)
    if c.y != 4 or b.y != 2:
        return "Spec18(x=2).with_x(4): the copy's alias reads %r, the receiver's %r (expected 4, 2)" % (c.y, b.y)
    return None


def search(n):
    cases = 0
    for path in PATHS:
        for pt, tr, dep in itertools.product([False, True], repeat=3):
            for fb in (MISSING, [1], [[1]], None):
                for L in range(1, n + 1):
                    for seq in itertools.product(OPS, repeat=L):
                        cases += 1
                        bad = run_seq(path, pt, tr, fb, dep, seq)
                        if bad:
                            return cases, bad, "run_seq(%r, %r, %r, %s, %r, %r)" % (path, pt, tr, "MISSING" if fb is MISSING else repr(fb), dep, seq)
    # malformed paths are rejected
    for badpath in ("a..b", "a[0]", "a.[\"k\"]", ".a", "a.", "a b"):
        cases += 1
        try:
            Alias(badpath)
            return cases, "Alias(%r) accepted a malformed attribute path" % badpath, "Alias(%r) and 'accepted'" % badpath
        except ValueError:
            pass
    cases += 1
    bad = spec_copy_checks()
    if bad:
        return cases, bad, "spec_copy_checks()"
    return cases, None, None


REPLAY = '''#!/venv/bin/python
# C18 replay.  run: PYTHONPATH=/repo /venv/bin/python {path}      (exit 1 = the property is violated)
import sys
sys.path.insert(0, {verif!r})
from bounded.c18 import *
bad = {call}
print("case    :", {call!r})
print("verdict :", bad or "follows the two-variable model")
sys.exit(1 if bad else 0)
'''


def main():
    d = sys.argv[3] if len(sys.argv) > 3 else "/verif/replays/C18"
    n = int(sys.argv[4]) if len(sys.argv) > 4 else 3
    cases, bad, call = search(n)
    out = {"cases": cases, "found": bool(bad), "distinct": cases}
    if bad:
        import zlib
        os.makedirs(d, exist_ok=True)
        path = os.path.join(d, "c18_%d.py" % (zlib.crc32(call.encode()) % 1000000))
        with open(path, "w") as fh:
            fh.write(REPLAY.format(path=path, verif=os.path.dirname(os.path.dirname(os.path.abspath(__file__))), call=call))
        out["failure"] = {"why": bad, "case": call}
        out["replay"] = path
    print(json.dumps(out))


if __name__ == "__main__":
    main()
