"""Additional replay corpus for the spec-heap properties (runs under /venv/bin/python): usages the main corpus of bounded/spec.py does
not contain - tuple-valued attributes holding mutable objects, nested in-place updates that fail half-way, attributes backed by a
validating property, reset with an unset attribute declared first, cached properties depending on a collection edited in place.
Used as a second replay search after a failed proof obligation (--find Cxx), labelled bounded."""
import copy
import json
import os
import sys
from typing import Any, Dict, List, Tuple

from spec_classes import Attr, spec_class, spec_property
from spec_classes.types import KeyedList, KeyedSet
from spec_classes.errors import FrozenInstanceError


@spec_class(bootstrap=True)
class Grid:
    rows: Tuple[List[int], ...] = ()
    name: str = ""


@spec_class(bootstrap=True)
class Engine:
    power: int = 0
    label: str = ""


@spec_class(bootstrap=True)
class Car:
    engine: Engine = None


@spec_class(frozen=True, bootstrap=True)
class FCar:
    engine: Engine = None


@spec_class(bootstrap=True)
class Box:
    width: int
    height: int = 3

    def __init__(self, width=2, height=3):
        self._w = width
        self.height = height

    @property
    def width(self):
        return self._w

    @width.setter
    def width(self, v):
        if v < 0:
            raise ValueError("negative")
        self._w = v

    @spec_property(cache=True, overridable=True, invalidated_by=["width", "height"])
    def area(self):
        return self.width * self.height


@spec_class(bootstrap=True)
class Config:
    name: str
    retries: int = 3
    tags: List[str] = []


@spec_class(bootstrap=True)
class Basket:
    prices: List[int] = []
    label: str = Attr(default="fresh", invalidated_by=["prices"])

    @spec_property(cache=True, invalidated_by=["prices"])
    def total(self):
        return sum(self.prices)


def c_sharing():
    g = Grid(rows=([1, 2], [3]))
    for label, d in (("deepcopy", copy.deepcopy(g)), ("with_name", g.with_name("n")), ("update", g.update(name="m")), ("reset_name", g.reset_name())):
        if any(a is b for a, b in zip(d.rows, g.rows)):
            return "Grid(rows=([1, 2], [3])).%s shares the inner lists with the original" % label
    arg = ([1], [2])
    g2 = Grid(rows=arg)
    if g2.rows[0] is arg[0]:
        return "Grid(rows=arg) holds the caller's own inner list"
    return None


@spec_class(bootstrap=True)
class Fleet:
    engines: Dict[str, Engine] = {"spare": Engine(power=1)}
    tags: List[str] = ["t"]


def c_container_values_sharing():
    """containers whose *keys* are atoms but whose values are mutable objects"""
    arg = {"a": Engine(power=5)}
    f = Fleet(engines=arg)
    if f.engines["a"] is arg["a"]:
        return "Fleet(engines=arg) holds the caller's own Engine object as a dict value"
    g = f.with_tags(["u"])
    if g.engines["a"] is f.engines["a"]:
        return "Fleet(...).with_tags([...]) shares the Engine dict value with the receiver"
    d1, d2 = Fleet(), Fleet()
    if d1.engines["spare"] is d2.engines["spare"] or d1.engines["spare"] is Fleet.__dict__.get("engines", {}).get("spare"):
        return "two Fleet() instances (or an instance and the class-level default) share the default's Engine dict value"
    r = f.reset_engines()
    if r.engines["spare"] is d1.engines["spare"] or r.engines["spare"] is Fleet.__dict__.get("engines", {}).get("spare"):
        return "reset_engines() yields the class-level default's own Engine dict value"
    return None


@spec_class(key="name", bootstrap=True)
class KItem:
    name: str
    value: int = 0


@spec_class(bootstrap=True)
class Registry:
    items: KeyedList[KItem, str] = KeyedList[KItem, str]()
    members: KeyedSet[KItem, str] = KeyedSet[KItem, str]()


def c_keyed_container_elements():
    """whole-value routes with a keyed container that holds non-conforming elements or bare keys (C03): refused, or every
    stored element is an instance of the element class"""
    def offending(r):
        return [e for a in ("items", "members") for e in getattr(r, a) if not isinstance(e, KItem)]
    pools = {"items": [KeyedList([1, 2]), KeyedList(["a"]), KeyedList([KItem("k"), 3])], "members": [KeyedSet(["a"]), KeyedSet([1])]}
    for attr, values in pools.items():
        for v in values:
            routes = (("Registry(%s=%r)" % (attr, v), lambda: Registry(**{attr: copy.copy(v)})),
                      ("Registry().with_%s(%r)" % (attr, v), lambda: getattr(Registry(), "with_" + attr)(copy.copy(v))),
                      ("r = Registry(); r.%s = %r" % (attr, v), lambda: _assign(Registry(), attr, copy.copy(v))),
                      ("Registry().update(%s=%r)" % (attr, v), lambda: Registry().update(**{attr: copy.copy(v)})))
            for label, route in routes:
                try:
                    r = route()
                except (TypeError, ValueError):
                    continue
                bad = offending(r)
                if bad:
                    return "%s stored the non-conforming element %r in a KeyedList/KeyedSet of KItem" % (label, bad[0])
    return None


def _assign(o, a, v):
    setattr(o, a, v)
    return o


@spec_class(bootstrap=True)
class Shelf:
    rk: KeyedList[KItem, str] = Attr(default_factory=lambda: KeyedList[KItem, str]([KItem("a"), KItem("b")]), do_not_copy=True)
    rs: KeyedSet[KItem, str] = Attr(default_factory=lambda: KeyedSet[KItem, str]([KItem("a")]), do_not_copy=True)
    rl: List[int] = Attr(default_factory=lambda: [1, 2], do_not_copy=True)


def c_do_not_copy_collection_helpers():
    """copy-on-write element helpers on attributes declared do_not_copy (the class itself is copyable): the receiver's own
    container - including what a keyed container holds internally - is not edited (C01)"""
    def snap(o):
        return ([repr(x) for x in o.rk], sorted(repr(x) for x in o.rs), list(o.rl))
    calls = (("with_rk_item('z')", lambda o: o.with_rk_item("z")), ("without_rk_item('a')", lambda o: o.without_rk_item("a")),
             ("update_rk_item('a', value=5)", lambda o: o.update_rk_item("a", value=5)),
             ("transform_rk_item('a', value=lambda v: v + 1)", lambda o: o.transform_rk_item("a", value=lambda v: v + 1)),
             ("with_rs_item('z')", lambda o: o.with_rs_item("z")), ("without_rs_item('a')", lambda o: o.without_rs_item("a")),
             ("with_rl_item(9)", lambda o: o.with_rl_item(9)), ("without_rl_item(1)", lambda o: o.without_rl_item(1)))
    for label, call in calls:
        o = Shelf()
        before = snap(o)
        try:
            call(o)
        except Exception:      # noqa
            pass
        if snap(o) != before:
            return "Shelf().%s changed the receiver's own do_not_copy container: %r -> %r" % (label, before, snap(o))
    return None


def c_nothing_to_update():
    car = Car(engine=Engine(power=100, label="v6"))
    for label, op in (("update_engine()", lambda: car.update_engine()), ("transform_engine()", lambda: car.transform_engine()),
                      ("update_engine(_if=True)", lambda: car.update_engine(_if=True))):
        d = op()
        if d is not car and d.engine is car.engine:
            return "Car(engine=Engine(...)).%s returns a copy that holds the receiver's own engine object" % label
    return None


def c_nested_failure():
    for cls in (Car, FCar):
        car = cls(engine=Engine(power=100, label="v6"))
        eng = car.engine
        try:
            car.update_engine(power=250, label=42, _inplace=True)
            return "%s.update_engine(power=250, label=42, _inplace=True) did not raise" % cls.__name__
        except (TypeError, FrozenInstanceError):
            pass
        if car.engine is not eng or eng.power != 100:
            return "%s(...).update_engine(power=250, label=42, _inplace=True) raised but the nested engine now has power=%r" % (cls.__name__, eng.power)
        try:
            car.transform_engine(power=lambda p: 7, label=lambda l: 42, _inplace=True)
        except (TypeError, FrozenInstanceError):
            pass
        if eng.power != 100:
            return "%s(...).transform_engine(..., _inplace=True) raised but the nested engine now has power=%r" % (cls.__name__, eng.power)
    return None


def c_failed_assignment_keeps_caches():
    b = Box()
    b.area = 100
    for label, op in (("box.width = -1", lambda: setattr(b, "width", -1)), ("box.with_width(-1, _inplace=True)", lambda: b.with_width(-1, _inplace=True))):
        try:
            op()
            return "%s did not raise" % label
        except ValueError:
            pass
        if b.area != 100:
            return "%s raised but discarded the stored override of `area` (now %r)" % (label, b.area)
    return None


def c_reset_all():
    for kw in ({}, {"_inplace": True}):
        c = Config(retries=10, tags=["a"])
        r = c.reset(**kw)
        if r.retries != 3 or r.tags != []:
            return "Config(retries=10, tags=['a']).reset(%s) leaves retries=%r, tags=%r" % (kw, r.retries, r.tags)
    return None


def c_collection_invalidation():
    b = Basket(prices=[1, 2])
    if b.total != 3:
        return "setup"
    b.label = "custom"
    b.with_price(10, _inplace=True)
    if b.total != 13:
        return "Basket(prices=[1, 2]).with_price(10, _inplace=True): cached total is still %r" % b.total
    if b.label != "fresh":
        return "Basket.with_price(10, _inplace=True): label (invalidated_by prices) was not reset"
    b2 = Basket(prices=[1])
    _ = b2.total
    b2.prices = b2.prices
    return None


@spec_class(bootstrap=True)
class Scaled:
    nums: List[int] = []

    def _prepare_num(self, n):
        return n * 2


def c_argument_container_untouched():
    for label, op in (("Scaled().with_nums(arg)", lambda a: Scaled().with_nums(a)), ("obj.nums = arg", lambda a: setattr(Scaled(), "nums", a)),
                      ("Scaled().update(nums=arg)", lambda a: Scaled().update(nums=a)), ("Scaled(nums=arg)", lambda a: Scaled(nums=a))):
        arg = [1, 2]
        op(arg)
        if arg != [1, 2]:
            return "%s with an item preparer rewrote the caller's own list: [1, 2] -> %r" % (label, arg)
    return None


@spec_class(bootstrap=True)
class Chain:
    a: int = 1

    @spec_property(invalidated_by=["a"])
    def b(self):                    # not cached: never holds a value of its own
        return self.a * 2

    @spec_property(cache=True, invalidated_by=["b"])
    def c(self):
        return self.b + 1


def c_chain_through_unset_link():
    t = Chain()
    if t.c != 3:
        return "setup"
    t.a = 5
    if t.c != 11:
        return "Chain: a -> b (uncached) -> c (cached): after t.a = 5, t.c is still %r (expected 11)" % t.c
    t2 = Chain()
    _ = t2.c
    r = t2.with_a(7)
    if r.c != 15:
        return "Chain().with_a(7).c == %r (expected 15): the cached value travelled into the copy" % r.c
    return None


CHECKS = {"C01": [c_sharing, c_nested_failure, c_argument_container_untouched, c_container_values_sharing, c_do_not_copy_collection_helpers], "C06": [c_argument_container_untouched, c_do_not_copy_collection_helpers], "C02": [c_sharing, c_nothing_to_update, c_container_values_sharing], "C08": [c_sharing, c_reset_all, c_container_values_sharing], "C04": [c_nested_failure, c_failed_assignment_keeps_caches],
          "C07": [c_nested_failure], "C03": [c_keyed_container_elements], "C05": [c_reset_all], "C11": [c_chain_through_unset_link, c_collection_invalidation, c_failed_assignment_keeps_caches]}

REPLAY = '''#!/venv/bin/python
# {prop} replay (additional corpus).  run: PYTHONPATH=/repo /venv/bin/python {path}      (exit 1 = the property is violated)
import sys
sys.path.insert(0, {verif!r})
from bounded.spec_extra import *
bad = {fn}()
print("verdict :", bad or "holds on this usage")
sys.exit(1 if bad else 0)
'''


def main():
    prop = sys.argv[2]
    d = sys.argv[4] if len(sys.argv) > 4 else "/verif/replays/%s" % prop
    n = 0
    for fn in CHECKS.get(prop, []):
        n += 1
        try:
            bad = fn()
        except BaseException as e:      # noqa
            bad = "%s raised %s: %s" % (fn.__name__, type(e).__name__, e)
        if bad:
            os.makedirs(d, exist_ok=True)
            path = os.path.join(d, "%s_extra_%s.py" % (prop.lower(), fn.__name__))
            with open(path, "w") as fh:
                fh.write(REPLAY.format(prop=prop, path=path, verif=os.path.dirname(os.path.dirname(os.path.abspath(__file__))), fn=fn.__name__))
            print(json.dumps({"cases": n, "found": True, "failure": {"why": bad}, "replay": path}))
            return
    print(json.dumps({"cases": n, "found": False, "distinct": n}))


if __name__ == "__main__":
    main()
