"""Run under /venv/bin/python: for every function qual "module:Class.func" check that the imported
function object's source file lies under the repository given on PYTHONPATH (or is the interpreter's
own _collections_abc.py) and that the ast of its source equals the ast the verifier extracted."""
import ast
import importlib
import inspect
import json
import os
import sys
import sysconfig
import textwrap


def norm(node):
    for n in ast.walk(node):
        if isinstance(n, (ast.FunctionDef, ast.AsyncFunctionDef)):
            n.returns = None
            if n.body and isinstance(n.body[0], ast.Expr) and isinstance(n.body[0].value, ast.Constant) \
                    and isinstance(n.body[0].value.value, str):
                n.body = n.body[1:] or [ast.Pass()]       # docstrings are dropped by the extraction
            for a in n.args.posonlyargs + n.args.args + n.args.kwonlyargs + [x for x in (n.args.vararg, n.args.kwarg) if x]:
                a.annotation = None
    return ast.dump(node)


def main():
    quals = json.loads(sys.argv[1])
    repo = os.environ["PYTHONPATH"].split(":")[0]
    mismatch, checked = [], 0
    abc_path = sysconfig.get_paths()["stdlib"] + "/_collections_abc.py"
    abc_tree = None
    for q in quals:
        mod, _, path = q.partition(":")
        parts = path.split(".")
        try:
            if mod == "_collections_abc":
                # frozen module: compare code objects compiled from the stdlib file with the live functions
                import _collections_abc
                if abc_tree is None:
                    ns = {}
                    src = open(abc_path).read()
                    code = compile(src, abc_path, "exec")
                    ns = {"__name__": "_collections_abc_copy"}
                    exec(code, ns)
                    abc_tree = ns
                live = getattr(getattr(_collections_abc, parts[0]), parts[1])
                ref = getattr(abc_tree[parts[0]], parts[1])
                live = getattr(live, "__func__", live)
                ref = getattr(ref, "__func__", ref)
                if live.__code__.co_code != ref.__code__.co_code or live.__code__.co_consts != ref.__code__.co_consts:
                    mismatch.append(q)
                checked += 1
                continue
            m = importlib.import_module(mod)
            if not os.path.realpath(m.__file__).startswith(os.path.realpath(repo)):
                mismatch.append("%s imported from %s" % (q, m.__file__))
                continue
            tree = ast.parse(open(m.__file__).read())
            node = None
            body = tree.body
            for i, p in enumerate(parts):
                for st in body:
                    if isinstance(st, (ast.ClassDef, ast.FunctionDef)) and st.name == p:
                        node = st
                        body = st.body
                        break
            # the file on disk is what the interpreter compiles on import; additionally make sure the
            # in-memory module was loaded from this very text
            obj = m
            try:
                for p in parts:
                    obj = inspect.getattr_static(obj, p) if not inspect.ismodule(obj) else getattr(obj, p)
            except AttributeError:
                continue        # the function does not exist on this tree (reported by the verifier itself)
            f = getattr(obj, "__func__", obj)
            f = getattr(f, "fget", f)
            f = getattr(f, "func", f)
            src = textwrap.dedent(inspect.getsource(f))
            live = ast.parse(src).body[0]
            if node is None or norm(live) != norm(node):
                mismatch.append(q)
            checked += 1
        except Exception as e:
            mismatch.append("%s: %s" % (q, e))
    print(json.dumps({"checked": checked, "mismatch": mismatch}))


main()
