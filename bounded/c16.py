"""C16 concrete harness (runs under /venv/bin/python with PYTHONPATH=/repo).  Labelled *bounded*.

Class __dict__ before vs after decoration and after first use of every helper, over a corpus of class bodies with user-written
__init__/__repr__/__eq__, methods whose names coincide with generated helpers, class attributes, private attributes, list /
dict / set attributes whose singular forms collide.  Stand-in for which helpers are offered to register_method (helper set per
attribute kind, singular naming through `inflect`, collision fallback) and for the lazy method descriptors.
"""
import json
import os
import sys
from typing import Dict, List, Set

from spec_classes import spec_class


def body_plain():
    class A:
        x: int = 1
        items: List[int] = []
        mapping: Dict[str, int] = {}
        flags: Set[int] = set()
        _private: int = 0
        CONST = 3
    return A, {"x": "scalar", "items": "list", "mapping": "dict", "flags": "set"}


def body_user_code():
    class B:
        x: int = 1
        things: List[int] = []

        def __init__(self, x=5):
            self.x = x
            self.things = []

        def __repr__(self):
            return "B!"

        def __eq__(self, o):
            return True

        def with_x(self, v):
            return "mine"

        def with_thing(self, v):
            return "mine too"

        def update(self):
            return "user update"
    return B, {"x": "scalar", "things": "list"}


def body_collision():
    class C:
        child: int = 0
        children: List[int] = []          # singular 'child' collides with the attribute 'child'
    return C, {"child": "scalar", "children": "list"}


def body_noncallable():
    class D:
        value: int = 0
        with_value = classmethod(lambda cls, v: "cm")
        update = property(lambda self: "prop")
        reset = "a plain class attribute"
    return D, {"value": "scalar"}


def body_inherited_collision():
    @spec_class(bootstrap=True)
    class Base:
        item: int = 0

    class E(Base):
        items: List[int] = []             # singular 'item' collides with the *inherited* attribute 'item'
    return E, {"items": "list"}


def body_two_plurals():
    class F:
        people: List[int] = []
        persons: List[str] = []           # both singular forms are 'person': the second falls back (or decoration raises)
    return F, {"people": "list", "persons": "list"}


BODIES = [body_plain, body_user_code, body_collision, body_noncallable, body_inherited_collision, body_two_plurals]
SCALAR = ["with_%s", "update_%s", "transform_%s", "reset_%s"]
ELEMENT = ["with_%s", "update_%s", "transform_%s", "without_%s"]
TOP = ["update", "transform", "reset"]
SINGULAR = {"items": "item", "mapping": "mapping_item", "flags": "flag", "things": "thing", "children": "children_item",
            "people": "person", "persons": "persons_item"}


def check(bi):
    cls, managed = BODIES[bi]()
    before = dict(cls.__dict__)
    try:
        dec = spec_class(bootstrap=True)(cls)
    except BaseException as e:      # noqa
        if bi in (2, 5) and isinstance(e, (ValueError, TypeError, RuntimeError)):
            return None                   # a singular-name collision may be refused outright
        return "decoration of %s raised %s: %s" % (cls.__name__, type(e).__name__, e)
    after = dict(dec.__dict__)
    name = cls.__name__
    # nothing defined in the class body is replaced
    for k, v in before.items():
        if k in ("__dict__", "__weakref__", "__doc__", "__module__", "__annotations__", "__hash__", "__qualname__", "__firstlineno__", "__static_attributes__"):
            continue
        if k in managed and not callable(v):
            continue                      # managed attribute defaults are consumed by the decorator (documented)
        if after.get(k, "<gone>") is not v:
            return "%s.%s defined in the class body was replaced by decoration (%r -> %r)" % (name, k, v, after.get(k, "<gone>"))
    # generated constructor / repr / equality stay reachable
    for k in ("__spec_class_init__", "__spec_class_repr__", "__spec_class_eq__"):
        if not hasattr(dec, k):
            return "%s.%s is not reachable" % (name, k)
    if bi == 4:
        managed = dict(managed)
        SINGULAR["items"] = "items_item"
    # exactly the documented helpers
    expected = set(TOP)
    for a, kind in managed.items():
        expected.update(t % a for t in SCALAR)
        if kind != "scalar":
            sing = SINGULAR[a]
            expected.update(t % sing for t in ELEMENT)
    helper_like = {k for k in after if k not in before and not k.startswith("__")}
    missing = {h for h in expected if not hasattr(dec, h)}
    if missing:
        return "%s lacks the documented helpers %r" % (name, sorted(missing))
    extra = {k for k in helper_like if k not in expected}
    if extra and bi != 4:
        return "%s gained undocumented attributes %r" % (name, sorted(extra))
    if any(k.startswith(("with__private", "update__private")) for k in after):
        return "%s: helpers were generated for a private attribute" % name
    # first use of every helper (lazy descriptors dissolve into functions) does not disturb user code
    inst = dec() if bi != 1 else dec(x=2)
    for h in sorted(expected):
        if not isinstance(before.get(h), property):
            getattr(inst, h)
    again = dict(dec.__dict__)
    for k, v in before.items():
        if callable(v) and k in again and again[k] is not v:
            return "%s.%s was replaced on first use of the helpers" % (name, k)
    if bi == 4:
        e = dec()
        r = e.with_item(5)
        if getattr(r, "item", None) != 5 or r.items != []:
            return "E(Base).with_item(5) gives item=%r, items=%r: the element helper of `items` shadows the inherited attribute's scalar helper" % (getattr(r, "item", None), r.items)
        if not hasattr(dec, "with_items_item"):
            return "E(Base): no with_items_item fallback for the colliding singular name"
        return None
    if bi == 5:
        r = dec().with_person(1).with_persons_item("a")
        if r.people != [1] or r.persons != ["a"]:
            return "F: with_person(1).with_persons_item('a') gives people=%r persons=%r: one attribute's element helpers shadow the other's" % (r.people, r.persons)
    if bi == 1:
        if inst.with_x(1) != "mine" or inst.with_thing(1) != "mine too" or inst.update() != "user update" or repr(inst) != "B!":
            return "B: a user-written method was shadowed by a generated helper"
    return None


REPLAY = '''#!/venv/bin/python
# C16 replay.  run: PYTHONPATH=/repo /venv/bin/python {path}      (exit 1 = the property is violated)
import sys
sys.path.insert(0, {verif!r})
from bounded.c16 import *
bad = check({bi})
print("verdict :", bad or "decoration adds exactly the documented helpers and keeps user code")
sys.exit(1 if bad else 0)
'''


def main():
    d = sys.argv[3] if len(sys.argv) > 3 else "/verif/replays/C16"
    n, out = 0, None
    for bi in range(len(BODIES)):
        n += 1
        bad = check(bi)
        if bad:
            os.makedirs(d, exist_ok=True)
            path = os.path.join(d, "c16_%d.py" % bi)
            with open(path, "w") as fh:
                fh.write(REPLAY.format(path=path, verif=os.path.dirname(os.path.dirname(os.path.abspath(__file__))), bi=bi))
            out = {"cases": n, "found": True, "failure": {"why": bad}, "replay": path}
            break
    print(json.dumps(out or {"cases": n, "found": False, "distinct": n}))


if __name__ == "__main__":
    main()
