"""C17 concrete harness (runs under /venv/bin/python with PYTHONPATH=/repo).  Labelled *bounded*.
--find / --standin : every generated method of the corpus rejects a keyword outside its advertised signature with TypeError and
                     leaves the receiver unchanged; the nested keywords are exactly the init-enabled attributes of the nested class.
--finding defaults : the open known finding (advertised defaults of virtual keywords)."""
import copy
import inspect
import json
import os
import sys

sys.argv_backup = list(sys.argv)
from bounded.c17_dump import Inner, Outer, Over          # noqa: E402  (also installs the capturing exec - harmless here)


def helpers(cls):
    return [n for n in dir(cls) if n.startswith(("with_", "update_", "transform_", "reset_", "without_")) or n in ("update", "transform", "reset")]


def check():
    n = 0
    for cls, make in ((Inner, lambda: Inner("a", v=1)), (Outer, lambda: Outer(x=2, inner=Inner("i")))):
        for h in helpers(cls):
            n += 1
            obj = make()
            before = copy.deepcopy(obj)
            sig = inspect.signature(getattr(cls, h))
            if any(p.kind is inspect.Parameter.VAR_KEYWORD for p in sig.parameters.values()):
                continue
            try:
                getattr(obj, h)(__bogus_keyword__=1)
                return n, "%s.%s accepted a keyword outside its advertised signature %s" % (cls.__name__, h, sig)
            except TypeError:
                pass
            except BaseException as e:      # noqa
                return n, "%s.%s(__bogus_keyword__=1) raised %s instead of TypeError" % (cls.__name__, h, type(e).__name__)
            if obj != before:
                return n, "%s.%s(__bogus_keyword__=1) changed the receiver before refusing" % (cls.__name__, h)
    # nested keywords == init-enabled attributes of the nested spec class
    want = {"name", "v", "hidden"}
    for h in ("with_item", "update_item", "transform_item", "with_table_item", "update_table_item", "transform_table_item"):
        n += 1
        sig = inspect.signature(getattr(Outer, h))
        got = {p.name for p in sig.parameters.values() if p.kind is inspect.Parameter.KEYWORD_ONLY and not p.name.startswith("_")}
        if got != want:
            return n, "Outer.%s advertises nested keywords %r, the element class's init-enabled attributes are %r" % (h, sorted(got), sorted(want))
    # ... also for the scalar and top-level helpers, and an init=False attribute is refused when passed
    for cls, h in ((Outer, "with_inner"), (Outer, "update_inner"), (Outer, "transform_inner"), (Inner, "update"), (Inner, "transform")):
        n += 1
        sig = inspect.signature(getattr(cls, h))
        if "secret" in sig.parameters:
            return n, "%s.%s advertises the init=False attribute `secret` of Inner: %s" % (cls.__name__, h, sig)
    for label, call in (("Outer(inner=Inner('i')).update_inner(secret=1)", lambda: Outer(inner=Inner("i")).update_inner(secret=1)),
                        ("Outer().with_item(name='k', secret=1)", lambda: Outer().with_item(name="k", secret=1)),
                        ("Inner('i').update(secret=1)", lambda: Inner("i").update(secret=1))):
        n += 1
        try:
            call()
            return n, "%s was accepted: `secret` is declared init=False and is outside the advertised signature" % label
        except TypeError:
            pass
    return n, None


REPLAY = '''#!/venv/bin/python
# C17 replay.  run: PYTHONPATH=/repo:/verif /venv/bin/python {path}      (exit 1 = the property is violated)
import sys
sys.path.insert(0, {verif!r})
from bounded.c17 import *
n, bad = check()
print("verdict :", bad or "generated methods accept exactly their advertised signature on the corpus")
sys.exit(1 if bad else 0)
'''


def main():
    if len(sys.argv) > 2 and sys.argv[1] == "--finding":
        ok = inspect.signature(Inner.update).parameters["v"].default == 0 and Inner("a", v=5).update().v == 5
        print(json.dumps({"reproduces": ok, "witness": "inspect.signature(Inner.update) shows the virtual keyword v=0 (the nested class's constructor default) although "
                          "Inner('a', v=5).update().v == 5: an omitted virtual keyword means 'leave unchanged', not the shown default (same for transform, "
                          "update_<item>, transform_<item>)"}))
        return
    d = sys.argv[3] if len(sys.argv) > 3 else "/verif/replays/C17"
    n, bad = check()
    out = {"cases": n, "found": bool(bad), "distinct": n}
    if bad:
        os.makedirs(d, exist_ok=True)
        path = os.path.join(d, "c17_corpus.py")
        with open(path, "w") as fh:
            fh.write(REPLAY.format(path=path, verif=os.path.dirname(os.path.dirname(os.path.abspath(__file__)))))
        out["failure"] = {"why": bad}
        out["replay"] = path
    print(json.dumps(out))


if __name__ == "__main__":
    main()
