"""C14 concrete harness (runs under /venv/bin/python with PYTHONPATH=/repo).  Labelled *bounded*.

  --standin : bounded stand-in for what the proofs do not reach: the binary operators and comparisons
              that the Set mixin builds from generator expressions and a cardinality short-cut
              (|, &, -, ^, <=, <, >=, >, isdisjoint, &=, ^=, == against a built-in set) and iteration order
              independence; oracle = set algebra on keys over the map key -> item.
  --find FN : search for a concrete failing input after a proof obligation of FN failed.
Bound: sets of <= 3 items over 3 keys x 2 payloads in 5 item universes, both settings of
enforce_item_equivalence, every single operation with every argument from the universe.
"""
import itertools
import json
import os
import sys
import zlib

from spec_classes import spec_class
from spec_classes.types import KeyedSet


@spec_class(key="k", bootstrap=True)
class Item:
    k: str
    p: int = 0


def tkey(x):
    return x[0]


UNIVERSES = {
    "selfkeyed": dict(items=["a", "b", "c"], key=None, keyf=lambda x: x, typed=None),
    "explicit": dict(items=[(k, p) for k in "abc" for p in (0, 1)], key=tkey, keyf=tkey, typed=None),
    "spec": dict(items=[Item(k, p=p) for k in "abc" for p in (0, 1)], key=None, keyf=lambda x: x.k if isinstance(x, Item) else x, typed=None),
    "unhashable": dict(items=[[k, p] for k in "abc" for p in (0, 1)], key=tkey, keyf=tkey, typed=None),
    "typed": dict(items=["a", "b", "c", 7], key=None, keyf=lambda x: x, typed=(str, str)),
    # falsy items and a falsy key: (), [] and "" all have key 0 and are pairwise unequal
    "falsy": dict(items=[(), [], "", (1,), [1]], key=len, keyf=len, typed=None),
}


def build(u, items, eie):
    U = UNIVERSES[u]
    if U["typed"]:
        return KeyedSet[U["typed"][0], U["typed"][1]](list(items), enforce_item_equivalence=eie)
    return KeyedSet(list(items), key=U["key"], enforce_item_equivalence=eie)


class ModelError(Exception):
    def __init__(self, kinds):
        self.kinds = kinds if isinstance(kinds, tuple) else (kinds,)


def canon(x):
    return repr(x)


def m_add(u, m, x, eie, derived=False):
    U = UNIVERSES[u]
    kf = U["keyf"]
    kinds = []
    if U["typed"] and not derived and (not isinstance(x, U["typed"][0]) or not isinstance(kf(x), U["typed"][1])):
        kinds.append(TypeError)
    k = kf(x)
    if eie and canon(k) in m and m[canon(k)][1] != x:
        kinds.append(ValueError)
    if kinds:
        raise ModelError(tuple(set(kinds)))
    m = dict(m)
    m[canon(k)] = (k, x)
    return m


def m_resolve(u, m, v, eie, strict=False):
    """item-or-key resolution -> canonical key or None (strict: an exception of the key function propagates)"""
    kf = UNIVERSES[u]["keyf"]
    try:
        hash(v)
        if canon(v) in m and m[canon(v)][0] == v:
            return canon(v)
    except TypeError:
        pass
    try:
        k = kf(v)
    except Exception as e:
        if strict and not isinstance(e, TypeError):          # lookup: a key function that cannot digest v (TypeError) means "no such
            raise ModelError((type(e),))                     # item", like membership and discard; anything else it raises gets out
        return None
    if canon(k) in m and (not eie or m[canon(k)][1] == v):
        return canon(k)
    return None


def mk_model(u, items, eie):
    m = {}
    for x in items:
        m = m_add(u, m, x, eie)
    return m


def snapshot(s):
    return sorted((repr(k), repr(v)) for k, v in s._dict.items())


def msnap(m):
    return sorted((repr(k), repr(v)) for k, v in m.values())


def check_wf(u, s):
    kf = UNIVERSES[u]["keyf"]
    for k, v in s._dict.items():
        assert kf(v) == k, "entry %r is stored under key %r" % (v, k)
    assert len(s) == len(s._dict) == len(list(iter(s))), "len / iteration do not see one item per key"
    U = UNIVERSES[u]
    if U["typed"]:
        for k, v in s._dict.items():
            assert isinstance(v, U["typed"][0]) and isinstance(k, U["typed"][1]), "ill-typed entry admitted"


def operands(u, eie):
    """other operands for binary operators: KeyedSets with the same configuration, and built-in sets"""
    U = UNIVERSES[u]
    out = []
    for n in (0, 1, 2):
        for xs in itertools.permutations(U["items"][:4], n):
            if U["typed"] and any(not isinstance(x, U["typed"][0]) for x in xs):
                continue
            out.append(("kset", list(xs)))
            distinct = len(set(canon(U["keyf"](x)) for x in xs)) == len(xs)
            if u in ("selfkeyed", "explicit", "typed") and distinct:
                out.append(("set", list(xs)))      # a plain-set operand with two items under one key is ambiguous
    return out


def ops_for(u, eie):
    U = UNIVERSES[u]
    items = U["items"]
    keys = sorted(set(U["keyf"](x) for x in items), key=repr) + ["zz"]
    out = []
    for x in items:
        out += [("add", x), ("discard", x), ("remove", x), ("contains", x), ("getitem", x)]
    for k in keys:
        out += [("discard", k), ("remove", k), ("contains", k), ("getitem", k), ("get", k)]
    out += [("len", None), ("iter", None), ("pop", None), ("clear", None), ("eqself", None)]
    for kind, xs in operands(u, eie):
        for op in ("or", "and", "sub", "xor", "le", "lt", "ge", "gt", "eq", "ior", "isub", "iand", "ixor", "isdisjoint"):
            out.append((op, (kind, xs)))
    return out


STANDIN_OPS = {"or", "and", "sub", "xor", "le", "lt", "ge", "gt", "eq", "iand", "ixor", "isdisjoint", "iter", "len"}


def other_model(u, kind, xs, eie):
    try:
        return mk_model(u, xs, eie if kind == "kset" else False)
    except ModelError:
        return None


def run_case(u, state, eie, op, arg):
    U = UNIVERSES[u]
    kf = U["keyf"]
    try:
        m = mk_model(u, state, eie)
    except ModelError:
        return None
    try:
        s = build(u, state, eie)
    except Exception as e:
        return "construction of %r failed: %r" % (state, e)
    if snapshot(s) != msnap(m):
        return "constructed set %r, model %r" % (snapshot(s), msnap(m))
    exp_exc, exp, m2 = None, None, m
    other = None
    try:
        if op == "add":
            m2 = m_add(u, m, arg, eie)
        elif op in ("discard", "remove"):
            r = m_resolve(u, m, arg, eie)
            if r is None:
                if op == "remove":
                    raise ModelError(KeyError)
            else:
                m2 = {k: v for k, v in m.items() if k != r}
        elif op == "contains":
            exp = m_resolve(u, m, arg, eie) is not None
        elif op == "getitem":
            # lookup: as a key first, then as an item by its key (no equivalence test on lookup)
            r = m_resolve(u, m, arg, False, strict=True)
            if r is None:
                raise ModelError(KeyError)
            exp = repr(m[r][1])
        elif op == "get":
            exp = repr(m[canon(arg)][1]) if canon(arg) in m else repr(None)
        elif op == "len":
            exp = len(m)
        elif op == "iter":
            exp = sorted(repr(v) for k, v in m.values())
        elif op == "clear":
            m2 = {}
        elif op == "eqself":
            exp = True
        elif op == "pop":
            if not m:
                raise ModelError(KeyError)
        else:
            kind, xs = arg
            om = other_model(u, kind, xs, eie)
            if om is None:
                return None
            other = build(u, xs, eie) if kind == "kset" else set(xs)
            A, Bk = set(m), set(om)
            if op in ("or", "ior"):
                r = dict(m)
                for k in om:
                    if eie and k in r and r[k][1] != om[k][1]:
                        raise ModelError(ValueError)
                    r[k] = om[k]
                if op == "ior":
                    if U["typed"] and any(not isinstance(x, U["typed"][0]) for x in xs):
                        raise ModelError(TypeError)
                    m2 = r
                else:
                    exp = sorted(r)
            elif op in ("and", "iand"):
                r = {k: m[k] for k in A & Bk}
                if op == "iand":
                    m2 = r
                else:
                    exp = sorted(A & Bk)
            elif op in ("sub", "isub"):
                r = {k: m[k] for k in A - Bk}
                if op == "isub":
                    m2 = r
                else:
                    exp = sorted(A - Bk)
            elif op in ("xor", "ixor"):
                if op == "ixor":
                    m2 = {k: (m[k] if k in m else om[k]) for k in A ^ Bk}
                else:
                    exp = sorted(A ^ Bk)
            elif op == "le":
                exp = A <= Bk
            elif op == "lt":
                exp = A < Bk
            elif op == "ge":
                exp = A >= Bk
            elif op == "gt":
                exp = A > Bk
            elif op == "isdisjoint":
                exp = not (A & Bk)
            elif op == "eq":
                exp = (msnap(m) == msnap(om)) if kind == "kset" else (A == Bk and all(m[k][1] == om[k][1] for k in A))
    except ModelError as me:
        exp_exc = me.kinds
    if (eie or (other is not None and arg[0] == "set")) and op in (
            "and", "sub", "xor", "le", "lt", "ge", "gt", "isdisjoint", "iand", "ixor", "isub", "eq") and other is not None:
        # (a) with enforce_item_equivalence membership also compares items; (b) KNOWN FINDING C14-builtin-set-operand:
        # against a built-in set the mixins test membership by item equality, not by key.  Both regions are
        # restricted to operands whose common keys carry equal items.
        # with enforce_item_equivalence membership also compares items; restrict to operands whose common keys carry equal items
        om = other_model(u, arg[0], arg[1], eie)
        if any(k in om and om[k][1] != m[k][1] for k in m):
            return None
    got_exc, got = None, None
    try:
        if op == "add":
            s.add(arg)
        elif op == "discard":
            s.discard(arg)
        elif op == "remove":
            s.remove(arg)
        elif op == "contains":
            got = arg in s
        elif op == "getitem":
            got = repr(s[arg])
        elif op == "get":
            got = repr(s.get(arg))
        elif op == "len":
            got = len(s)
        elif op == "iter":
            got = sorted(repr(v) for v in s)
        elif op == "clear":
            s.clear()
        elif op == "eqself":
            got = (s == build(u, [v for k, v in m.values()], eie))
        elif op == "pop":
            v = s.pop()
            r = m_resolve(u, m, v, eie)
            assert r is not None and m[r][1] == v, "pop returned %r which is not a stored item" % (v,)
            m2 = {k: x for k, x in m.items() if k != r}
        elif op in ("or", "and", "sub", "xor"):
            r = {"or": s.__or__, "and": s.__and__, "sub": s.__sub__, "xor": s.__xor__}[op](other)
            assert isinstance(r, KeyedSet), "%s must give a KeyedSet, got %r" % (op, type(r))
            check_wf(u, r)
            assert r.enforce_item_equivalence == eie, "derived set lost enforce_item_equivalence"
            got = sorted(canon(k) for k in r.keys())
        elif op in ("le", "lt", "ge", "gt"):
            got = {"le": s.__le__, "lt": s.__lt__, "ge": s.__ge__, "gt": s.__gt__}[op](other)
        elif op == "isdisjoint":
            got = s.isdisjoint(other)
        elif op == "eq":
            got = (s == other)
        elif op == "ior":
            s |= other
        elif op == "isub":
            s -= other
        elif op == "iand":
            s &= other
        elif op == "ixor":
            s ^= other
    except AssertionError as e:
        return "oracle: %s" % e
    except BaseException as e:      # noqa
        got_exc = type(e)
    if exp_exc is not None:
        if got_exc is None:
            return "expected %s, operation succeeded" % (exp_exc,)
        if not issubclass(got_exc, exp_exc):
            return "expected %s, got %s" % (exp_exc, got_exc.__name__)
        m2 = m
    elif got_exc is not None:
        return "unexpected %s" % got_exc.__name__
    elif op not in ("add", "discard", "remove", "clear", "pop", "ior", "isub", "iand", "ixor") and got != exp:
        return "result %r, expected %r" % (got, exp)
    if op == "ior" and exp_exc is not None:
        # |= is a sequence of adds; the statement makes a single add atomic, not the whole union
        if not set(m) <= set(canon(k) for k in s.keys()):
            return "a failed |= lost entries"
    elif op == "ixor":
        if sorted(canon(k) for k in s.keys()) != sorted(m2):
            return "keys %r, expected %r" % (sorted(canon(k) for k in s.keys()), sorted(m2))
    elif snapshot(s) != msnap(m2):
        return "set is %r, expected %r%s" % (snapshot(s), msnap(m2), " (after a raising operation)" if exp_exc else "")
    try:
        check_wf(u, s)
    except AssertionError as e:
        return "ill-formed set: %s" % e
    return None


def states(u, maxlen):
    U = UNIVERSES[u]
    for n in range(maxlen + 1):
        for st in itertools.permutations(U["items"], n):
            if U["typed"] and any(not isinstance(x, U["typed"][0]) for x in st):
                continue
            yield list(st)


FN_OPS = {
    "add": ["add", "ior", "or", "xor", "ixor"], "discard": ["discard", "remove", "pop", "clear", "isub", "iand", "ixor"],
    "__contains__": ["contains", "remove", "and", "sub", "le", "ge", "isdisjoint"], "__getitem__": ["getitem"],
    "__len__": ["len", "le", "ge"], "get": ["get"], "__eq__": ["eq", "eqself"], "__init__": ["len", "or", "and", "sub", "xor"],
    "remove": ["remove"], "pop": ["pop", "clear"], "clear": ["clear"], "__ior__": ["ior"], "__isub__": ["isub"],
    "key": None, "_from_iterable": ["or", "and", "sub", "xor"], "__iter__": ["iter", "pop"],
}


def search(fn, maxlen, only_ops=None):
    short = fn.split(".")[-1].split("[")[0] if fn else None
    sel = FN_OPS.get(short) if short else None
    if only_ops is not None:
        sel = only_ops
    n = 0
    for u in UNIVERSES:
        for eie in (False, True):
            ops = ops_for(u, eie)
            for st in states(u, maxlen):
                for op, arg in ops:
                    if sel is not None and op not in sel:
                        continue
                    n += 1
                    bad = run_case(u, st, eie, op, arg)
                    if bad:
                        return n, dict(universe=u, state=st, eie=eie, op=op, arg=arg, why=bad)
    return n, None


REPLAY = '''#!/venv/bin/python
# C14 replay: one operation on a KeyedSet compared with the key -> item map model of the property statement.
# run: PYTHONPATH=/repo /venv/bin/python {path}      (exit 1 = the property is violated)
import sys
sys.path.insert(0, {verif!r})
from bounded.c14 import *
state = {state}
bad = run_case({universe!r}, state, {eie}, {op!r}, {arg})
print("state   :", state, "enforce_item_equivalence =", {eie})
print("op      :", {op!r}, {arg})
print("verdict :", bad or "agrees with the model")
sys.exit(1 if bad else 0)
'''


def write_replay(d, f):
    os.makedirs(d, exist_ok=True)
    name = "c14_%s_%s.py" % (f["op"], zlib.crc32(repr((f["universe"], f["state"], f["eie"], f["arg"])).encode()) % 100000)
    path = os.path.join(d, name)
    with open(path, "w") as fh:
        fh.write(REPLAY.format(path=path, verif=os.path.dirname(os.path.dirname(os.path.abspath(__file__))),
                               state=repr(f["state"]), universe=f["universe"], eie=f["eie"], op=f["op"], arg=repr(f["arg"])))
    return path


def main():
    if sys.argv[1] == "--standin":
        maxlen = int(sys.argv[2]) if len(sys.argv) > 2 else 2
        n, f = search(None, maxlen, only_ops=sorted(STANDIN_OPS))
        out = {"cases": n, "found": bool(f)}
        if f:
            out["failure"] = {k: repr(v) for k, v in f.items()}
            out["replay"] = write_replay(sys.argv[3] if len(sys.argv) > 3 else "/verif/replays/C14", f)
        print(json.dumps(out))
    elif sys.argv[1] == "--find":
        fn = sys.argv[2] if sys.argv[2] != "-" else None
        d = sys.argv[3]
        n, f = search(fn, int(sys.argv[4]) if len(sys.argv) > 4 else 2)
        if f is None and fn is not None:
            n2, f = search(None, 2)
            n += n2
        out = {"cases": n, "found": bool(f)}
        if f:
            out["failure"] = {k: repr(v) for k, v in f.items()}
            out["replay"] = write_replay(d, f)
        print(json.dumps(out))


if __name__ == "__main__":
    main()
