"""Reproductions of the open known findings reported by the fifth round of sub-agents on the unchanged tree
(runs under /venv/bin/python with PYTHONPATH=/repo).  usage: findings_r5.py <name>  ->  {"reproduces": bool, "witness": str}"""
import json
import sys
from typing import List

from spec_classes import spec_class, spec_property
from spec_classes.types import KeyedList, KeyedSet


def plain_subclass_dependant():
    @spec_class(bootstrap=True)
    class Base:
        x: int = 1

    class Child(Base):                      # undecorated subclass adding a cached property that depends on an inherited attribute
        @spec_property(cache=True, invalidated_by=["x"])
        def pc(self):
            return self.x + 100

    c = Child()
    first = c.pc
    c.x = 2
    if c.pc == first:
        return "plain subclass Child(Base) adds a cached spec_property invalidated_by=['x']: after c.x = 2 the property still reads %r (the invalidation map is built from the decorated base's MRO, SpecClassMetadata.invalidation_map)" % c.pc
    return None


def subclass_singular_collision():
    @spec_class(bootstrap=True)
    class P:
        values: List[int] = []

    @spec_class(bootstrap=True)
    class Q(P):
        value: int = 0

    q = Q().with_value(3)
    if q.values == [] and getattr(q, "value", None) == 3 and not hasattr(Q, "with_values_item"):
        return ("spec subclass Q(P) adds scalar `value` next to the inherited values: List[int]: Q.with_value is the scalar helper, the inherited element "
                "helpers are shadowed without a with_values_item fallback, and P's own Attr record now says item_name=%r" % P.__spec_class__.attrs["values"].item_name)
    return None


def key_membership():
    l = KeyedList([("a", 1)], key=lambda t: t[0])
    if "a" in l and "a" not in list(l):
        return "KeyedList([('a', 1)], key=first): `'a' in l` is True although 'a' is a key, not an item (a plain list says False); pinned by tests/types/test_keyed.py"
    return None


def typed_result_dropped():
    out = []
    try:
        r = KeyedList[str, str](["a"]) + [1]
        out.append("KeyedList[str, str](['a']) + [1] gives %r" % (r,))
    except (TypeError, ValueError):
        pass
    return ("the result of + (and of slicing) is an unparameterised KeyedList, so a wrong-typed item is admitted: " + "; ".join(out)) if out else None


def typed_set_result_dropped():
    try:
        r = KeyedSet[tuple, str]([("a", 1)], key=lambda t: t[0]) | {(1, 2)}
    except (TypeError, ValueError):
        return None
    return "KeyedSet[tuple, str](...) | {(1, 2)} gives an unparameterised KeyedSet admitting the int key 1: %r" % (r,)


FINDINGS = {"plain-subclass-dependant": plain_subclass_dependant, "subclass-singular-collision": subclass_singular_collision,
            "key-membership": key_membership, "typed-result-dropped": typed_result_dropped, "typed-set-result-dropped": typed_set_result_dropped}

if __name__ == "__main__":
    try:
        w = FINDINGS[sys.argv[1]]()
        print(json.dumps({"reproduces": bool(w), "witness": w}))
    except BaseException as e:      # noqa
        print(json.dumps({"error": "%s: %s" % (type(e).__name__, e)}))
