"""KNOWN FINDING C14-builtin-set-operand (open): against a built-in set operand the Set mixins that
KeyedSet inherits decide membership by item equality, so `-`, `&`, `^`, `<=`, isdisjoint do not follow
set algebra on *keys* when the operand holds an item that shares a key with, but differs from, a stored
item.  This script only reports whether the specific witness still reproduces."""
import json
from spec_classes.types import KeyedSet


def first(x):
    return x[0]


s = KeyedSet([("a", 0)], key=first)
r = s - {("a", 1)}
print(json.dumps({"reproduces": list(r.keys()) == ["a"], "cases": 1, "found": False,
                  "witness": "KeyedSet([('a',0)], key=first) - {('a',1)} keeps key 'a' (set algebra on keys gives the empty set); `-=` with the same operand removes it"}))
