"""known finding (C04/C06): an in-place element helper on a collection attribute backed by a read-only property edits the
container and then fails to assign it"""
import json
import sys
from typing import List
from spec_classes import spec_class


@spec_class
class R:
    xs: List[int]

    def __init__(self):
        self._xs = [1]

    @property
    def xs(self):
        return self._xs


r = R()
try:
    r.with_x(2, _inplace=True)
    rep = False
except AttributeError:
    rep = r._xs == [1, 2]
print(json.dumps({"reproduces": rep, "witness": "R (xs: List[int] backed by a property without setter): R().with_x(2, _inplace=True) raises "
                  "AttributeError after appending 2 to the list the property returns"}))
