"""C06 concrete harness (runs under /venv/bin/python with PYTHONPATH=/repo).  Labelled *bounded*.

Every element helper of list / dict / set attributes (plain elements and spec-class elements with a key) is run from
every container content of a small universe, copy-on-write and in place, with valid and invalid targets, and compared
with the plain Python container operation executed on a copy of the previous content (model written from the property
statement).  Stand-in for what the proofs leave to composition: the copy-on-write route (the edit lands on a private
copy), typed containers, key promotion / keyword construction of spec-class elements.
"""
import copy
import itertools
import json
import os
import sys
import zlib
from typing import Dict, List, Set

from spec_classes import spec_class
from spec_classes.types import MISSING


@spec_class(key="name", bootstrap=True)
class Item:
    name: str
    qty: int = 0


@spec_class(bootstrap=True)
class Box:
    nums: List[int]
    vals: Dict[str, int]
    tags: Set[int]
    items: List[Item]
    lookup: Dict[str, Item]


LISTS = [None, [], [1], [0, 2], [2, 1, 2], [3, 0, 1]]
DICTS = [None, {}, {"a": 1}, {"a": 0, "b": 2}, {"": 5}]
SETS = [None, set(), {0}, {1, 2}, {0, 1, 3}]
ITEMS = [None, [], [Item("a", qty=1)], [Item("a"), Item("b", qty=2)]]


class Raises:
    def __init__(self, *kinds):
        self.kinds = kinds

    def __repr__(self):
        return "Raises(%s)" % ", ".join(k.__name__ for k in self.kinds)


def conf_int(x):
    return isinstance(x, int)


# ---- models: (previous content or None, args) -> new content | Raises ---------------------------------------------
def m_list_with(cur, item, index=MISSING, insert=False):
    l = list(cur or [])
    kinds = ()
    if not conf_int(item):
        kinds += (ValueError, TypeError)
    if index is not MISSING and not insert and not -len(l) <= index < len(l):
        kinds += (IndexError,)
    if kinds:
        return Raises(*kinds)          # (which of several applicable errors is reported is not part of the property)
    if index is MISSING:
        l.append(item)
    elif insert:
        l.insert(index, item)
    else:
        l[index] = item
    return l


def locate(l, voi, by_index):
    """-> index or Raises"""
    if by_index is MISSING:
        by_index = not conf_int(voi)
    if by_index:
        if not isinstance(voi, int):
            return Raises(TypeError)
        if not -len(l) <= voi < len(l):
            return Raises(IndexError)
        return voi
    if voi not in l:
        return Raises(ValueError)
    return l.index(voi)


def m_list_update(cur, voi, new, by_index=MISSING):
    l = list(cur or [])
    i = locate(l, voi, by_index)
    if isinstance(i, Raises):
        return i
    if not conf_int(new):
        return Raises(ValueError, TypeError)
    l[i] = new
    return l


def m_list_transform(cur, voi, f, by_index=MISSING):
    l = list(cur or [])
    i = locate(l, voi, by_index)
    if isinstance(i, Raises):
        return i
    new = f(l[i])
    if not conf_int(new):
        return Raises(ValueError, TypeError)
    l[i] = new
    return l


def m_list_without(cur, voi, by_index=MISSING):
    if cur is None:
        return None
    l = list(cur)
    i = locate(l, voi, by_index)
    if isinstance(i, Raises):
        return i
    del l[i]
    return l


def m_dict_with(cur, k, v):
    d = dict(cur or {})
    if not isinstance(k, str) or not conf_int(v):
        return Raises(ValueError, TypeError)
    d[k] = v
    return d


def m_dict_update(cur, k, v):
    d = dict(cur or {})
    if k not in d:
        return Raises(KeyError)
    return m_dict_with(d, k, v)


def m_dict_transform(cur, k, f):
    d = dict(cur or {})
    if k not in d:
        return Raises(KeyError)
    return m_dict_with(d, k, f(d[k]))


def m_dict_without(cur, k):
    if cur is None:
        return Raises(KeyError, TypeError, AttributeError)
    d = dict(cur)
    if k not in d:
        return Raises(KeyError)
    del d[k]
    return d


def m_set_with(cur, x):
    s = set(cur or ())
    if not conf_int(x):
        return Raises(ValueError, TypeError)
    s.add(x)
    return s


def m_set_update(cur, x, y):
    s = set(cur or ())
    if x not in s:
        return Raises(ValueError)
    if not conf_int(y):
        return Raises(ValueError, TypeError)
    s.discard(x)
    s.add(y)
    return s


def m_set_transform(cur, x, f):
    s = set(cur or ())
    if x not in s:
        return Raises(ValueError)
    return m_set_update(s, x, f(x))


def m_set_without(cur, x):
    if cur is None:
        return Raises(ValueError, TypeError, AttributeError)
    s = set(cur)
    if x not in s:
        return Raises(ValueError)
    s.remove(x)
    return s


INC = lambda v: v + 10
BAD = lambda v: "x"


def cases():
    """(attr, start content, label, call(box, **kw), model(cur))"""
    out = []
    for cur in LISTS:
        n = len(cur or [])
        for item in (5, 0, "s"):
            out.append(("nums", cur, "with_num(%r)" % (item,), lambda b, kw, item=item: b.with_num(item, **kw), lambda c, item=item: m_list_with(c, item)))
            for idx in range(-n - 1, n + 2):
                for ins in (False, True):
                    out.append(("nums", cur, "with_num(%r, _index=%d, _insert=%r)" % (item, idx, ins),
                                lambda b, kw, item=item, idx=idx, ins=ins: b.with_num(item, _index=idx, _insert=ins, **kw),
                                lambda c, item=item, idx=idx, ins=ins: m_list_with(c, item, idx, ins)))
        for voi in (0, 1, 2, 3, -1, 7):
            for bi in (MISSING, True, False):
                kwb = {} if bi is MISSING else {"_by_index": bi}
                out.append(("nums", cur, "update_num(%r, 9, %r)" % (voi, kwb), lambda b, kw, voi=voi, kwb=kwb: b.update_num(voi, 9, **kwb, **kw),
                            lambda c, voi=voi, bi=bi: m_list_update(c, voi, 9, bi)))
                out.append(("nums", cur, "transform_num(%r, +10, %r)" % (voi, kwb), lambda b, kw, voi=voi, kwb=kwb: b.transform_num(voi, INC, **kwb, **kw),
                            lambda c, voi=voi, bi=bi: m_list_transform(c, voi, INC, bi)))
                out.append(("nums", cur, "without_num(%r, %r)" % (voi, kwb), lambda b, kw, voi=voi, kwb=kwb: b.without_num(voi, **kwb, **kw),
                            lambda c, voi=voi, bi=bi: m_list_without(c, voi, bi)))
        out.append(("nums", cur, "transform_num(0, ->str, by index)", lambda b, kw: b.transform_num(0, BAD, _by_index=True, **kw),
                    lambda c: m_list_transform(c, 0, BAD, True)))
    for cur in DICTS:
        for k in ("a", "b", "", "zz", 3):
            for v in (7, 0, "s"):
                out.append(("vals", cur, "with_val(%r, %r)" % (k, v), lambda b, kw, k=k, v=v: b.with_val(k, v, **kw), lambda c, k=k, v=v: m_dict_with(c, k, v)))
                out.append(("vals", cur, "update_val(%r, %r)" % (k, v), lambda b, kw, k=k, v=v: b.update_val(k, v, **kw), lambda c, k=k, v=v: m_dict_update(c, k, v)))
            out.append(("vals", cur, "transform_val(%r, +10)" % (k,), lambda b, kw, k=k: b.transform_val(k, INC, **kw), lambda c, k=k: m_dict_transform(c, k, INC)))
            out.append(("vals", cur, "transform_val(%r, ->str)" % (k,), lambda b, kw, k=k: b.transform_val(k, BAD, **kw), lambda c, k=k: m_dict_transform(c, k, BAD)))
            out.append(("vals", cur, "without_val(%r)" % (k,), lambda b, kw, k=k: b.without_val(k, **kw), lambda c, k=k: m_dict_without(c, k)))
    for cur in SETS:
        for x in (0, 1, 2, 5, "s"):
            out.append(("tags", cur, "with_tag(%r)" % (x,), lambda b, kw, x=x: b.with_tag(x, **kw), lambda c, x=x: m_set_with(c, x)))
            for y in (0, 9, "s"):
                out.append(("tags", cur, "update_tag(%r, %r)" % (x, y), lambda b, kw, x=x, y=y: b.update_tag(x, y, **kw), lambda c, x=x, y=y: m_set_update(c, x, y)))
            out.append(("tags", cur, "transform_tag(%r, +10)" % (x,), lambda b, kw, x=x: b.transform_tag(x, INC, **kw), lambda c, x=x: m_set_transform(c, x, INC)))
            out.append(("tags", cur, "transform_tag(%r, ->str)" % (x,), lambda b, kw, x=x: b.transform_tag(x, BAD, **kw), lambda c, x=x: m_set_transform(c, x, BAD)))
            out.append(("tags", cur, "without_tag(%r)" % (x,), lambda b, kw, x=x: b.without_tag(x, **kw), lambda c, x=x: m_set_without(c, x)))
    # spec-class elements: keywords build / update the element, a bare key is promoted to a keyed element
    for cur in ITEMS:
        names = [i.name for i in (cur or [])]
        out.append(("items", cur, "with_item(name='n', qty=3)", lambda b, kw: b.with_item(name="n", qty=3, **kw),
                    lambda c: list(c or []) + [Item("n", qty=3)]))
        out.append(("items", cur, "with_item('k')", lambda b, kw: b.with_item("k", **kw), lambda c: list(c or []) + [Item("k")]))
        def with_arg(b, kw):
            with_arg.arg = Item("z", qty=4)          # the caller's own object: must not be modified (C01)
            with_arg.before = copy.deepcopy(with_arg.arg)
            return b.with_item(with_arg.arg, qty=5, **kw)
        out.append(("items", cur, "with_item(Item('z', 4), qty=5)", with_arg, lambda c: list(c or []) + [Item("z", qty=5)]))
        for ix in (0, 1, 5):
            def upd(c, ix=ix):
                l = copy.deepcopy(list(c or []))
                if not ix < len(l):
                    return Raises(IndexError)
                l[ix].qty = 8
                return l
            out.append(("items", cur, "update_item(%d, qty=8)" % ix, lambda b, kw, ix=ix: b.update_item(ix, qty=8, **kw), upd))
        for nm in ("a", "b", "q"):
            def wo(c, nm=nm):
                if c is None:
                    return None
                l = list(c)
                hit = [i for i in l if i == Item(nm, qty=1)]
                if not hit:
                    return Raises(ValueError)
                l.remove(hit[0])
                return l
            out.append(("items", cur, "without_item(Item(%r, qty=1))" % nm, lambda b, kw, nm=nm: b.without_item(Item(nm, qty=1), **kw), wo))
    return out


def build(attr, cur):
    b = Box()
    if cur is not None:
        setattr(b, attr, copy.deepcopy(cur))
    return b


def content(b, attr):
    return getattr(b, attr, None)


def run_case(i, inplace):
    attr, cur, label, call, model = cases()[i]
    b = build(attr, cur)
    before = copy.deepcopy(content(b, attr))
    handle = content(b, attr)          # the very container object held before the call
    args_before = copy.deepcopy(cur)
    exp = model(copy.deepcopy(cur))
    kw = {"_inplace": True} if inplace else {}
    where = "%s on %s=%r%s" % (label, attr, cur, " in place" if inplace else "")
    try:
        r = call(b, kw)
        exc = None
    except Exception as e:          # noqa
        exc = e
    if isinstance(exp, Raises):
        if exc is None:
            return "%s: expected %r, got %r" % (where, exp, content(r, attr))
        if not isinstance(exc, exp.kinds):
            return "%s: expected %r, got %s: %s" % (where, exp, type(exc).__name__, exc)
        if content(b, attr) != before:
            return "%s: raised %s but the receiver's %s changed: %r -> %r" % (where, type(exc).__name__, attr, before, content(b, attr))
        return None
    if exc is not None:
        return "%s: unexpected %s: %s (the plain container operation gives %r)" % (where, type(exc).__name__, exc, exp)
    if getattr(call, "arg", None) is not None and call.arg != call.before:
        return "%s: the argument object was modified: %r -> %r" % (where, call.before, call.arg)
    got = content(r, attr)
    if got != exp or (exp is not None and type(got) is not type(exp)):
        return "%s: gives %r, the plain container operation gives %r" % (where, got, exp)
    if inplace:
        if r is not b:
            return "%s: in-place call returned another instance" % where
        if handle is not None and exp is not None and got is not handle:
            return "%s: in-place call replaced the container object" % where
    else:
        if content(b, attr) != before:
            return "%s: the receiver changed: %r -> %r" % (where, before, content(b, attr))
        if exp is not None and handle is not None and got is handle:
            return "%s: the result shares the container object with the receiver" % where
    return None


REPLAY = '''#!/venv/bin/python
# C06 replay.  run: PYTHONPATH=/repo /venv/bin/python {path}      (exit 1 = the property is violated)
import sys
sys.path.insert(0, {verif!r})
from bounded.c06 import *
bad = run_case({i}, {inplace})
print("case    :", cases()[{i}][2], "on", cases()[{i}][0], "=", cases()[{i}][1], "(in place)" if {inplace} else "")
print("verdict :", bad or "behaves like the plain container operation")
sys.exit(1 if bad else 0)
'''


def main():
    mode = sys.argv[1]
    d = sys.argv[3] if len(sys.argv) > 3 else "/verif/replays/C06"
    n = 0
    cs = cases()
    for i in range(len(cs)):
        for inplace in (False, True):
            n += 1
            bad = run_case(i, inplace)
            if bad:
                os.makedirs(d, exist_ok=True)
                path = os.path.join(d, "c06_%d_%d.py" % (i, int(inplace)))
                with open(path, "w") as fh:
                    fh.write(REPLAY.format(path=path, verif=os.path.dirname(os.path.dirname(os.path.abspath(__file__))), i=i, inplace=inplace))
                print(json.dumps({"cases": n, "found": True, "failure": {"why": bad}, "replay": path}))
                return
    print(json.dumps({"cases": n, "found": False, "distinct": n}))


if __name__ == "__main__":
    main()
