"""Concrete harness for the spec-heap properties C01-C08, C11 (runs under /venv/bin/python, PYTHONPATH=/repo).
Labelled *bounded*: a fixed corpus of spec classes from the property grammar, reachable states built by
short operation histories, every helper with valid and invalid arguments; per-property oracles written
from the property statements.  Uses: --find <Cxx> <function> <dir> (replay search after a failed proof
obligation), --standin <Cxx> (bounded stand-in for the parts the proofs assume), --finding <id>.
"""
import copy
import itertools
import json
import os
import sys
import zlib
from typing import Any, Dict, List, Optional, Set, Union

from spec_classes import Attr, spec_class, spec_property
from spec_classes.errors import FrozenInstanceError
from spec_classes.types import KeyedList, MISSING

try:
    from typing import Literal
except ImportError:          # pragma: no cover
    from typing_extensions import Literal


class Handle:
    """an opaque, mutable user object (for do_not_copy attributes)"""
    def __init__(self, n=0):
        self.n = n

    def __eq__(self, o):
        return isinstance(o, Handle) and o.n == self.n

    def __hash__(self):
        return hash(("H", self.n))

    def __repr__(self):
        return "Handle(%d)" % self.n


@spec_class(key="name", bootstrap=True)
class Inner:
    name: str
    v: int = 0
    tags: List[str] = []


def make_main(frozen):
    @spec_class(frozen=frozen, bootstrap=True)
    class Main:
        i: int = 0
        s: str = ""
        o: Optional[int] = None
        u: Union[int, str] = 0
        lit: Literal["a", "b"] = "a"
        l: List[int] = []
        d: Dict[str, int] = {}
        st: Set[int] = set()
        inner: Optional[Inner] = None
        inners: List[Inner] = []
        h: Optional[Handle] = Attr(default=None, do_not_copy=True)
        fact: List[int] = Attr(default_factory=lambda: [7])
        dep: int = Attr(default=5, invalidated_by=["i"])
        nodefault: int

        def _prepare_s(self, v):
            return v.strip() if isinstance(v, str) else v

        def _prepare_l_item(self, v):
            return v + 0 if isinstance(v, int) else v

        @spec_property(cache=True, invalidated_by=["i"])
        def c(self):
            return self.i * 2

        @spec_property(cache=True, invalidated_by=["c"])
        def cc(self):
            return self.c + 1
    Main.__name__ = Main.__qualname__ = "FMain" if frozen else "Main"
    return Main


Main = make_main(False)
FMain = make_main(True)


@spec_class(bootstrap=True)
class Sub(Main):
    l: List[int] = [1]
    extra: str = "x"


class Plain(Main):
    i = 3
    l = [9]


CLASSES = {"Main": Main, "FMain": FMain, "Sub": Sub, "Plain": Plain}
MANAGED = ["i", "s", "o", "u", "lit", "l", "d", "st", "inner", "inners", "h", "fact", "dep", "nodefault"]


def states(cname):
    C = CLASSES[cname]
    yield "fresh", lambda: C()
    yield "scalars", lambda: C(i=2, s="ab", o=4, u="u", lit="b", nodefault=1)
    yield "containers", lambda: C(l=[1, 0, 1], d={"a": 1, "": 0}, st={0, 1}, h=Handle(1))
    yield "nested", lambda: C(inner=Inner("n", v=1, tags=["t"]), inners=[Inner("a"), Inner("b", v=2)], i=1)

    def cached():
        x = C(i=3)
        x.c, x.cc, x.dep
        return x
    yield "cached", cached


def ops(cname):
    """(label, function(obj) -> result, mutated attribute or None, in place?)"""
    out = []
    for ip in (False, True):
        kw = {"_inplace": True} if ip else {}
        t = "!" if ip else ""
        out += [
            ("with_i(5)" + t, lambda x, kw=kw: x.with_i(5, **kw), "i", ip),
            ("with_i('bad')" + t, lambda x, kw=kw: x.with_i("bad", **kw), "i", ip),
            ("with_s(' p ')" + t, lambda x, kw=kw: x.with_s(" p ", **kw), "s", ip),
            ("with_o(None)" + t, lambda x, kw=kw: x.with_o(None, **kw), "o", ip),
            ("with_u(1.5)" + t, lambda x, kw=kw: x.with_u(1.5, **kw), "u", ip),
            ("with_lit('c')" + t, lambda x, kw=kw: x.with_lit("c", **kw), "lit", ip),
            ("with_l([3,4])" + t, lambda x, kw=kw: x.with_l([3, 4], **kw), "l", ip),
            ("with_l(['x'])" + t, lambda x, kw=kw: x.with_l(["x"], **kw), "l", ip),
            ("with_d({'k':1})" + t, lambda x, kw=kw: x.with_d({"k": 1}, **kw), "d", ip),
            ("with_inner(Inner)" + t, lambda x, kw=kw: x.with_inner(Inner("z", v=9), **kw), "inner", ip),
            ("with_inner(name=..)" + t, lambda x, kw=kw: x.with_inner(name="kw", v=3, **kw), "inner", ip),
            ("with_h(Handle)" + t, lambda x, kw=kw: x.with_h(Handle(5), **kw), "h", ip),
            ("with_i(MISSING)" + t, lambda x, kw=kw: x.with_i(MISSING, **kw), None, ip),
            ("with_i(5,_if=False)" + t, lambda x, kw=kw: x.with_i(5, _if=False, **kw), None, ip),
            ("transform_i(+1)" + t, lambda x, kw=kw: x.transform_i(lambda v: v + 1, **kw), "i", ip),
            ("transform_i(raise)" + t, lambda x, kw=kw: x.transform_i(lambda v: 1 // 0, **kw), "i", ip),
            ("transform_l(append)" + t, lambda x, kw=kw: x.transform_l(lambda v: v + [8], **kw), "l", ip),
            ("reset_i" + t, lambda x, kw=kw: x.reset_i(**kw), "i", ip),
            ("reset_l" + t, lambda x, kw=kw: x.reset_l(**kw), "l", ip),
            ("reset_fact" + t, lambda x, kw=kw: x.reset_fact(**kw), "fact", ip),
            ("reset_nodefault" + t, lambda x, kw=kw: x.reset_nodefault(**kw), "nodefault", ip),
            ("reset" + t, lambda x, kw=kw: x.reset(**kw), "*", ip),
            ("update(i=4,s='q')" + t, lambda x, kw=kw: x.update(i=4, s="q", **kw), "i", ip),
            ("update(i=4,s=7)" + t, lambda x, kw=kw: x.update(i=4, s=7, **kw), "i", ip),
            ("update(bogus=1)" + t, lambda x, kw=kw: x.update(bogus=1, **kw), None, ip),
            ("transform(i=+1)" + t, lambda x, kw=kw: x.transform(i=lambda v: v + 1, **kw), "i", ip),
            ("update_inner(v=5)" + t, lambda x, kw=kw: x.update_inner(v=5, **kw), "inner", ip),
            ("with_l_item(6)" + t, lambda x, kw=kw: x.with_l_item(6, **kw), "l", ip),
            ("with_l_item('x')" + t, lambda x, kw=kw: x.with_l_item("x", **kw), "l", ip),
            ("with_l_item(6,_index=0)" + t, lambda x, kw=kw: x.with_l_item(6, _index=0, **kw), "l", ip),
            ("with_l_item(6,_index=9)" + t, lambda x, kw=kw: x.with_l_item(6, _index=9, **kw), "l", ip),
            ("without_l_item(0)" + t, lambda x, kw=kw: x.without_l_item(0, _by_index=True, **kw), "l", ip),
            ("transform_l_item(0,+1)" + t, lambda x, kw=kw: x.transform_l_item(0, lambda v: v + 1, _by_index=True, **kw), "l", ip),
            ("with_d_item('k',2)" + t, lambda x, kw=kw: x.with_d_item("k", 2, **kw), "d", ip),
            ("with_d_item('k','v')" + t, lambda x, kw=kw: x.with_d_item("k", "v", **kw), "d", ip),
            ("with_d_item(5,3)" + t, lambda x, kw=kw: x.with_d_item(5, 3, **kw), "d", ip),
            ("without_d_item('zz')" + t, lambda x, kw=kw: x.without_d_item("zz", **kw), "d", ip),
            ("with_st_item(3)" + t, lambda x, kw=kw: x.with_st_item(3, **kw), "st", ip),
            ("transform_st_item(0,+5)" + t, lambda x, kw=kw: x.transform_st_item(0, lambda v: v + 5, **kw), "st", ip),
            ("with_inner_item?(inners name)" + t, lambda x, kw=kw: x.with_inner_item(name="new", v=1, **kw) if hasattr(x, "with_inner_item") else x.with_inners_item(name="new", v=1, **kw), "inners", ip),
        ]
    out += [
        ("x.i = 6", lambda x: setattr(x, "i", 6), "i", True),
        ("x.i = 'bad'", lambda x: setattr(x, "i", "bad"), "i", True),
        ("x.l = [5]", lambda x: setattr(x, "l", [5]), "l", True),
        ("del x.i", lambda x: delattr(x, "i"), "i", True),
        ("del x.l", lambda x: delattr(x, "l"), "l", True),
        ("del x.nodefault", lambda x: delattr(x, "nodefault"), "nodefault", True),
        ("deepcopy", lambda x: copy.deepcopy(x), None, False),
    ]
    return out


# ---------------------------------------------------------------------------------------------
def snap(v, seen=None):
    """deep structural snapshot including object identities of mutable parts"""
    seen = {} if seen is None else seen
    if isinstance(v, (int, float, str, bool, bytes, type(None), type)) or v is MISSING:
        return ("atom", repr(v))
    if id(v) in seen:
        return ("cycle", seen[id(v)])
    seen[id(v)] = len(seen)
    if isinstance(v, (list, tuple, KeyedList)):
        return (type(v).__name__, id(v), [snap(x, seen) for x in v])
    if isinstance(v, dict):
        return ("dict", id(v), [(snap(k, seen), snap(x, seen)) for k, x in v.items()])
    if isinstance(v, (set, frozenset)):
        return ("set", id(v), sorted(repr(snap(x, seen)) for x in v))
    if hasattr(v, "__dict__"):
        return (type(v).__name__, id(v), sorted((k, snap(x, seen)) for k, x in vars(v).items()))
    return ("obj", id(v), repr(v))


def mutable_ids(v, acc=None, skip=()):
    acc = set() if acc is None else acc
    if isinstance(v, (int, float, str, bool, bytes, type(None), type)) or v is MISSING or callable(v) and not hasattr(v, "__spec_class__"):
        return acc
    if id(v) in acc or id(v) in skip:
        return acc
    acc.add(id(v))
    if isinstance(v, (list, tuple, set, frozenset, KeyedList)):
        for x in v:
            mutable_ids(x, acc, skip)
    elif isinstance(v, dict):
        for k, x in v.items():
            mutable_ids(x, acc, skip)
    elif hasattr(v, "__dict__"):
        for k, x in vars(v).items():
            mutable_ids(x, acc, skip)
    return acc


def conforms_all(obj):
    sys.path.insert(0, os.path.dirname(os.path.abspath(__file__)))
    from c15 import conforms
    bad = []
    for name, spec in obj.__spec_class__.attrs.items():
        if spec.is_masked or name not in obj.__dict__:
            continue
        if not conforms(obj.__dict__[name], spec.type):
            bad.append("%s=%r does not conform to %s" % (name, obj.__dict__[name], spec.type))
    return bad


def values_of(obj):
    return {k: v for k, v in vars(obj).items() if k in obj.__spec_class__.attrs}


KNOWN = {
    # KNOWN FINDING C07-frozen-private-copy (see KNOWN_FINDINGS.jsonl): helpers that edit their private copy through
    # the public in-place path are refused on frozen classes
    "frozen-private-copy": lambda cname, label, ip: cname == "FMain" and not ip and (
        label.startswith(("reset", "update(", "transform(", "update_inner", "with_inner(name", "with_i(", "transform_i("))),
    # KNOWN FINDING C04-inplace-multi-update: update(..., _inplace=True) commits the first keywords before a later one fails
    "inplace-multi-update": lambda cname, label, ip: ip and label.startswith("update(i=4,s=7)"),
}


def check(prop, cname, sname, mk, label, fn, attr, ip):
    """run one operation from one state and evaluate the oracle of property `prop` -> failure text or None"""
    obj = mk()
    C = type(obj)
    before = snap(obj)
    class_defaults = [(k, snap(v)) for k, v in sorted(vars(Main).items()) if k in MANAGED]
    peer = mk()
    peer_before = snap(peer)
    try:
        res = fn(obj)
        exc = None
    except BaseException as e:      # noqa
        res, exc = None, e
    after = snap(obj)
    fz = C.__spec_class__.frozen
    if prop == "C01":
        if not ip and before != after:
            return "receiver changed by a copy-on-write call%s" % (" that raised %s" % type(exc).__name__ if exc else "")
        return None
    if prop == "C04":
        if exc is not None and before != after and not KNOWN["inplace-multi-update"](cname, label, ip):
            return "%s raised %s and left the receiver changed" % (label, type(exc).__name__)
        return None
    if prop == "C03":
        if exc is None:
            tgt = obj if (ip or res is None) else res
            if hasattr(tgt, "__spec_class__"):
                bad = conforms_all(tgt)
                if bad:
                    return "after %s: %s" % (label, bad[0])
        elif not isinstance(exc, (TypeError, ValueError, FrozenInstanceError, KeyError, IndexError, AttributeError, ZeroDivisionError)):
            return "unexpected %s" % type(exc).__name__
        return None
    if prop == "C02":
        if exc is None and not ip and res is not None and res is not obj and hasattr(res, "__dict__"):
            dnc = {id(v) for k, v in vars(obj).items() if k == "h"}
            shared = (mutable_ids(res) & mutable_ids(obj)) - dnc - mutable_ids(vars(obj).get("h"))
            if shared:
                return "result of %s shares %d mutable object(s) with the receiver" % (label, len(shared))
            if "h" in vars(obj) and vars(obj)["h"] is not None and label.startswith(("with_i(5)", "deepcopy", "reset_i")) \
                    and vars(res).get("h") is not vars(obj)["h"]:
                return "do_not_copy attribute was duplicated by %s" % label
        return None
    if prop == "C07":
        if not fz:
            return None
        if ip:
            if exc is None and attr is not None:
                return "in-place %s succeeded on a frozen instance" % label
            if exc is not None and attr is not None and not isinstance(exc, FrozenInstanceError) and \
                    not isinstance(exc, (TypeError, ValueError, KeyError, IndexError, ZeroDivisionError)):
                return "in-place %s raised %s, expected FrozenInstanceError" % (label, type(exc).__name__)
            if before != after:
                return "frozen instance changed by %s" % label
            return None
        if before != after:
            return "frozen receiver changed by %s" % label
        twin = dict(states("Main"))[sname]()
        try:
            tres, texc = fn(twin), None
        except BaseException as e:      # noqa
            tres, texc = None, e
        if KNOWN["frozen-private-copy"](cname, label, ip):
            return None
        if (exc is None) != (texc is None) or (exc is not None and type(exc) is not type(texc)):
            return "%s: frozen class %s, non-frozen twin %s" % (label, "raised " + type(exc).__name__ if exc else "succeeded",
                                                              "raised " + type(texc).__name__ if texc else "succeeded")
        if exc is None and hasattr(res, "__spec_class__") and repr(values_of(res)) != repr(values_of(tres)):
            return "%s: frozen result %r differs from the twin's %r" % (label, values_of(res), values_of(tres))
        if exc is None and res is obj and attr is not None and label != "deepcopy":
            return "%s returned the frozen receiver itself" % label
        return None
    if prop == "C08":
        if [(k, snap(v)) for k, v in sorted(vars(Main).items()) if k in MANAGED] != class_defaults:
            return "class-level default changed by %s" % label
        if snap(peer) != peer_before:
            return "another instance changed by %s" % label
        if exc is None and label.startswith(("reset", "del ")):
            tgt = obj if (ip or res is None) else res
            fresh = C() if cname != "FMain" else C()
            names = MANAGED if attr == "*" else [attr]
            for n in names:
                a, b = vars(tgt).get(n, "<missing>"), vars(fresh).get(n, "<missing>")
                if repr(a) != repr(b):
                    return "%s: %s is %r, a new instance holds %r" % (label, n, a, b)
                if isinstance(a, (list, dict, set)) and (a is vars(C).get(n) or a is C.__spec_class__.attrs[n].default):
                    return "%s installed the class-level default object itself for %s" % (label, n)
        return None
    if prop == "C11":
        if exc is None and attr in ("i", "*") and not label.startswith(("with_i(MISSING", "with_i(5,_if")):
            tgt = obj if (ip or res is None) else res
            if not hasattr(tgt, "__spec_class__"):
                return None
            if tgt.c != tgt.i * 2 or tgt.cc != tgt.c + 1:
                return "stale cached property after %s: i=%r c=%r cc=%r" % (label, tgt.i, tgt.c, tgt.cc)
            if vars(tgt).get("dep") != 5:
                return "invalidated_by attribute not back at its default after %s: dep=%r" % (label, vars(tgt).get("dep"))
        if exc is not None and not ip and before != after:
            return "a failed mutation discarded state"
        if exc is None and attr in ("s", "l", "d") and "c" in vars(dict(states(cname))[sname]()) :
            tgt = obj if (ip or res is None) else res
            if hasattr(tgt, "__dict__") and "c" not in vars(tgt):
                return "mutating the unrelated attribute %s discarded the cache of c" % attr
        return None
    if prop == "C05":
        if exc is None and attr is None and label != "deepcopy" and label.startswith("with_i(") and res is not obj:
            if not KNOWN_C05(label):
                return "%s is documented as a no-op returning the receiver" % label
        if exc is None and label.startswith("with_i(5)") and (obj if ip else res).i != 5:
            return "with_i(5) did not store 5"
        if exc is None and label.startswith("with_s(' p ')") and (obj if ip else res).s != "p":
            return "with_s did not store the prepared value"
        if exc is None and ip and res is not None and label[0] != "x" and not label.startswith("del") and res is not obj:
            return "%s with _inplace=True did not return the receiver" % label
        if exc is None and label.startswith("transform_i(+1)"):
            exp = vars(dict(states(cname))[sname]()).get("i", 0) + 1
            if (obj if ip else res).i != exp:
                return "transform_i(+1) stored %r, expected %r" % ((obj if ip else res).i, exp)
        return None
    return None


def KNOWN_C05(label):
    # KNOWN FINDING C05-missing-builds-default: with_<attr>(MISSING) constructs type() instead of being a no-op
    return label.startswith("with_i(MISSING")


def run(prop, only_fn=None, classes=None):
    n = 0
    for cname in (classes or CLASSES):
        for sname, mk in states(cname):
            for label, fn, attr, ip in ops(cname):
                n += 1
                try:
                    bad = check(prop, cname, sname, mk, label, fn, attr, ip)
                except Exception as e:
                    bad = "harness error %s: %s" % (type(e).__name__, e)
                    if isinstance(e, AttributeError) and "has no attribute" in str(e):
                        bad = None
                if bad:
                    return n, dict(prop=prop, cls=cname, state=sname, op=label, why=bad)
    return n, None


REPLAY = '''#!/venv/bin/python
# {prop} replay: one helper call on one reachable state of a corpus class, judged by the oracle of {prop}.
# run: PYTHONPATH=/repo /venv/bin/python {path}      (exit 1 = the property is violated)
import sys
sys.path.insert(0, {verif!r})
from bounded.spec import *
mk = dict(states({cls!r}))[{state!r}]
op = [o for o in ops({cls!r}) if o[0] == {op!r}][0]
bad = check({prop!r}, {cls!r}, {state!r}, mk, *op)
print("class/state:", {cls!r}, {state!r})
print("operation  :", {op!r})
print("verdict    :", bad or "holds")
sys.exit(1 if bad else 0)
'''


def write_replay(d, f):
    os.makedirs(d, exist_ok=True)
    path = os.path.join(d, "%s_%d.py" % (f["prop"].lower(), zlib.crc32(repr(sorted(f.items())).encode()) % 1000000))
    with open(path, "w") as fh:
        fh.write(REPLAY.format(path=path, verif=os.path.dirname(os.path.dirname(os.path.abspath(__file__))), **f))
    return path


def main():
    mode = sys.argv[1]
    if mode in ("--find", "--standin"):
        prop = sys.argv[2]
        d = sys.argv[4] if len(sys.argv) > 4 else "/verif/replays/%s" % prop
        n, f = run(prop)
        out = {"cases": n, "found": bool(f), "distinct": n}
        if f:
            out["failure"] = f
            out["replay"] = write_replay(d, f)
        print(json.dumps(out))
    elif mode == "--finding":
        which = sys.argv[2]
        if which == "frozen-private-copy":
            f = FMain(i=1)
            try:
                f.reset_i()
                rep = False
            except FrozenInstanceError:
                rep = True
            print(json.dumps({"reproduces": rep, "witness": "FMain(i=1).reset_i() raises FrozenInstanceError although it operates on a private copy (same for reset(), update(**kw), transform(**kw) and with_<attr> when the class has an invalidation map)"}))
        elif which == "inplace-multi-update":
            m = Main()
            try:
                m.update(i=4, s=7, _inplace=True)
                rep = False
            except TypeError:
                rep = m.i == 4
            print(json.dumps({"reproduces": rep, "witness": "Main().update(i=4, s=7, _inplace=True) raises TypeError for s and leaves i == 4"}))
        elif which == "missing-builds-default":
            m = Main(i=5)
            r = m.with_i(MISSING)
            print(json.dumps({"reproduces": r is not m, "witness": "Main(i=5).with_i(MISSING) returns a new instance with i == 0 instead of the receiver"}))


if __name__ == "__main__":
    main()
