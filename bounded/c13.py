"""C13 concrete harness (runs under /venv/bin/python with PYTHONPATH=/repo).

Two uses, both labelled *bounded* and never counted as proved:
  --standin : bounded stand-in for the assumed contracts (Sequence.__iter__, __reversed__, count:
              generators, outside the pyvc subset) and for slices with a step.
  --find FN : search for a concrete failing input after a proof obligation of function FN failed
              (single operations from every small state; oracle = plain list + unique-key rule, taken
              from the property statement).  Writes a stand-alone replay script.
Bound: states = all lists of <= 3 items over 3 keys x 2 payloads in each of 4 item universes
(self-keyed hashables, explicit key function, keyed spec-class items, int-keyed items), typed and
untyped; every operation with every argument from the universe and every index in [-len-2, len+2].
"""
import itertools
import json
import os
import sys

from spec_classes import spec_class
from spec_classes.types import KeyedList


@spec_class(key="k", bootstrap=True)
class Item:
    k: str
    p: int = 0


class IntKeyed:
    def __init__(self, k, p):
        self.k, self.p = k, p

    def __eq__(self, o):
        return isinstance(o, IntKeyed) and (self.k, self.p) == (o.k, o.p)

    def __hash__(self):
        return hash(("IK", self.k, self.p))

    def __repr__(self):
        return "IntKeyed(%r, %r)" % (self.k, self.p)


def ikey(x):
    return x.k


class EqItem:
    """items that compare equal whenever their payloads are equal, whatever their key"""
    def __init__(self, k, p):
        self.k, self.p = k, p

    def __eq__(self, o):
        return isinstance(o, EqItem) and self.p == o.p

    def __hash__(self):
        return hash(("EQ", self.p))

    def __repr__(self):
        return "EqItem(%r, %r)" % (self.k, self.p)


def tkey(x):
    return x[0]


UNIVERSES = {
    "selfkeyed": dict(items=["a", "b", "c", "d"], key=None, keyf=lambda x: x, mk="KeyedList({items})", typed=None),
    "explicit": dict(items=[(k, p) for k in "abc" for p in (0, 1)], key=tkey, keyf=tkey,
                     mk="KeyedList({items}, key=tkey)", typed=None),
    "spec": dict(items=[Item(k, p=p) for k in "abc" for p in (0, 1)], key=None, keyf=lambda x: x.k if isinstance(x, Item) else x,
                 mk="KeyedList({items})", typed=None),
    "intkeyed": dict(items=[IntKeyed(k, p) for k in (0, 1, 2) for p in (0, 1)], key=ikey, keyf=ikey,
                     mk="KeyedList({items}, key=ikey)", typed=None),
    "equalitems": dict(items=[EqItem(k, p) for k, p in (("a", 0), ("b", 0), ("c", 1), ("d", 1))], key=ikey, keyf=ikey,
                       mk="KeyedList({items}, key=ikey)", typed=None),
    "falsy": dict(items=[(), [], "", (1,), [1], (1, 2)], key=len, keyf=len, mk="KeyedList({items}, key=len)", typed=None),
    "typed": dict(items=["a", "b", "c", 7], key=None, keyf=lambda x: x, mk="KeyedList[str, str]({items})",
                  typed=(str, str)),
}


def build(u, items):
    U = UNIVERSES[u]
    if U["typed"]:
        return KeyedList[U["typed"][0], U["typed"][1]](list(items))
    if U["key"] is not None:
        return KeyedList(list(items), key=U["key"])
    return KeyedList(list(items))


class ModelError(Exception):
    def __init__(self, kind):
        self.kind = kind


def model_check_add(u, cur, new, replacing=None, derived=False):
    """the one extra rule: two items with the same key -> ValueError; wrong type on typed -> TypeError.
    derived=True: the result is a *new* container (l + x, x + l); the statement only types the
    parameterised receiver itself, so no type rule is imposed on the derived container."""
    U = UNIVERSES[u]
    kf = U["keyf"]
    kinds = []
    if U["typed"] and not derived:
        for x in new:
            if not isinstance(x, U["typed"][0]) or not isinstance(kf(x), U["typed"][1]):
                kinds.append(TypeError)
    keys = [kf(x) for i, x in enumerate(cur) if i != replacing]
    for x in new:
        if kf(x) in keys:
            kinds.append(ValueError)
        keys.append(kf(x))
    if kinds:
        raise ModelError(tuple(set(kinds)))      # several reasons: either exception is acceptable


def ops_for(u, state):
    """all single operations (name, args) explored from a state"""
    U = UNIVERSES[u]
    n = len(state)
    items = U["items"]
    idxs = list(range(-n - 2, n + 3))
    keys = sorted(set(map(U["keyf"], items)), key=repr) + ["zz"]
    out = []
    for i in idxs:
        out.append(("getitem", (i,)))
        out.append(("delitem", (i,)))
        out.append(("pop", (i,)))
        for x in items:
            out.append(("insert", (i, x)))
            out.append(("setitem", (i, x)))
    out.append(("pop", ()))
    for k in keys:
        if isinstance(k, int):
            continue            # an int subscript is a list index (plain-list rule takes precedence)
        out.append(("getitem_key", (k,)))
        out.append(("delitem_key", (k,)))
        for x in items:
            out.append(("setitem_key", (k, x)))
    for k in keys:
        out.append(("get", (k,)))
        out.append(("index_for_key", (k,)))
        out.append(("contains", (k,)))
    for x in items:
        out += [("append", (x,)), ("remove", (x,)), ("contains", (x,)), ("index", (x,)), ("count", (x,))]
    for a, b in itertools.product([None, -1, 0, 1, 2, 5], repeat=2):
        out.append(("slice", (a, b, None)))
    out += [("slice", (None, None, 2)), ("slice", (None, None, -1)), ("slice", (1, None, 2))]
    for xs in itertools.chain([()], [(x,) for x in items], itertools.permutations(items[:4], 2)):
        out += [("extend", (list(xs),)), ("iadd", (list(xs),)), ("add", (list(xs),)), ("radd", (list(xs),))]
    out += [("reverse", ()), ("clear", ()), ("len", ()), ("iter", ()), ("reversed", ()), ("keys", ()), ("items", ()),
            ("eq", ()), ("slice_del", ()), ("slice_set", ())]
    return out


def apply_model(u, state, op, args):
    """-> (result, new_state) or raises ModelError(kind).  Plain list semantics + the key rule."""
    U = UNIVERSES[u]
    kf = U["keyf"]
    cur = list(state)
    n = len(cur)

    def key_index(k):
        for i, x in enumerate(cur):
            if kf(x) == k:
                return i
        raise ModelError(KeyError)

    if op == "getitem":
        try:
            return cur[args[0]], cur
        except IndexError:
            raise ModelError(IndexError)
    if op == "getitem_key":
        return cur[key_index(args[0])], cur
    if op in ("delitem", "pop"):
        i = args[0] if args else -1
        try:
            v = cur.pop(i)
        except IndexError:
            raise ModelError(IndexError)
        return (v if op == "pop" else None), cur
    if op == "delitem_key":
        cur.pop(key_index(args[0]))
        return None, cur
    if op == "insert":
        model_check_add(u, cur, [args[1]])
        cur.insert(args[0], args[1])
        return None, cur
    if op in ("setitem", "setitem_key"):
        if op == "setitem":
            i = args[0]
            if not -n <= i < n:
                raise ModelError(IndexError)
            i = i % n
        else:
            i = key_index(args[0])
        model_check_add(u, cur, [args[1]], replacing=i)
        cur[i] = args[1]
        return None, cur
    if op == "append":
        model_check_add(u, cur, [args[0]])
        return None, cur + [args[0]]
    if op in ("extend", "iadd"):
        model_check_add(u, cur, list(args[0]))
        return None, cur + list(args[0])
    if op == "add":
        model_check_add(u, cur, list(args[0]), derived=True)
        return cur + list(args[0]), cur
    if op == "radd":
        model_check_add(u, [], list(args[0]) + cur, derived=True)
        return list(args[0]) + cur, cur
    if op == "remove":
        try:
            cur.remove(args[0])
        except ValueError:
            raise ModelError(ValueError)
        return None, cur
    if op == "index":
        try:
            return cur.index(args[0]), cur
        except ValueError:
            raise ModelError(ValueError)
    if op == "count":
        return cur.count(args[0]), cur
    if op == "contains":
        x = args[0]
        return (x in cur) or any(kf(y) == x for y in cur), cur
    if op == "get":
        for y in cur:
            if kf(y) == args[0]:
                return y, cur
        return None, cur
    if op == "index_for_key":
        return key_index(args[0]), cur
    if op == "slice":
        return cur[slice(*args)], cur
    if op == "reverse":
        return None, cur[::-1]
    if op == "clear":
        return None, []
    if op == "len":
        return n, cur
    if op == "iter":
        return list(cur), cur
    if op == "reversed":
        return list(reversed(cur)), cur
    if op == "keys":
        return sorted(map(repr, map(kf, cur))), cur
    if op == "items":
        return sorted((repr(kf(x)), repr(x)) for x in cur), cur
    if op == "eq":
        return True, cur
    if op in ("slice_del", "slice_set"):
        raise ModelError(RuntimeError)
    raise AssertionError(op)


def apply_real(u, l, op, args):
    if op in ("getitem", "getitem_key"):
        return l[args[0]]
    if op in ("delitem", "delitem_key"):
        del l[args[0]]
        return None
    if op == "pop":
        return l.pop(*args)
    if op == "insert":
        return l.insert(*args)
    if op in ("setitem", "setitem_key"):
        l[args[0]] = args[1]
        return None
    if op == "append":
        return l.append(args[0])
    if op == "extend":
        return l.extend(args[0])
    if op == "iadd":
        l += args[0]
        return None
    if op == "add":
        r = l + args[0]
        assert isinstance(r, KeyedList), "l + other must be a KeyedList"
        check_coherent(u, r)
        return list(r)
    if op == "radd":
        r = args[0] + l
        assert isinstance(r, KeyedList), "other + l must be a KeyedList"
        check_coherent(u, r)
        return list(r)
    if op == "remove":
        return l.remove(args[0])
    if op == "index":
        return l.index(args[0])
    if op == "count":
        return l.count(args[0])
    if op == "contains":
        return args[0] in l
    if op == "get":
        return l.get(args[0])
    if op == "index_for_key":
        return l.index_for_key(args[0])
    if op == "slice":
        r = l[slice(*args)]
        assert isinstance(r, KeyedList), "a slice must be a KeyedList"
        check_coherent(u, r)
        return list(r)
    if op == "reverse":
        return l.reverse()
    if op == "clear":
        return l.clear()
    if op == "len":
        return len(l)
    if op == "iter":
        return [x for x in l]
    if op == "reversed":
        return list(reversed(l))
    if op == "keys":
        return sorted(map(repr, l.keys()))
    if op == "items":
        return sorted((repr(k), repr(v)) for k, v in l.items())
    if op == "eq":
        return (l == list(l)) and (l == build(u, list(l))) and not (l == list(l) + [object()])
    if op == "slice_del":
        del l[0:1]
        return None
    if op == "slice_set":
        l[0:1] = []
        return None
    raise AssertionError(op)


def check_coherent(u, l):
    """key access agrees with a linear scan; keys unique"""
    kf = UNIVERSES[u]["keyf"]
    items = list(l._list)
    keys = [kf(x) for x in items]
    assert len(set(map(repr, keys))) == len(keys), "duplicate keys in container: %r" % (keys,)
    assert len(l._dict) == len(items), "key index size differs from list"
    for i, (k, x) in enumerate(zip(keys, items)):
        assert l._dict[k] is x, "key index does not point at the list item for key %r" % (k,)
        assert l.get(k) is x and l.index_for_key(k) == i
        if not isinstance(k, int):
            assert l[k] is x
    assert len(l) == len(items)


def run_case(u, state, op, args):
    """-> None if the real container agrees with the model, else a description of the disagreement"""
    try:
        l = build(u, state)
    except Exception as e:
        return "construction of %r failed: %r" % (state, e)
    before = list(l._list)
    try:
        exp, exp_state = apply_model(u, state, op, args)
        exp_exc = None
    except ModelError as me:
        exp, exp_state, exp_exc = None, list(state), me.kind
    try:
        got = apply_real(u, l, op, args)
        got_exc = None
    except AssertionError as e:
        return "oracle: %s" % e
    except BaseException as e:      # noqa
        got, got_exc = None, type(e)
    if exp_exc is not None:
        if got_exc is None:
            return "expected %s, operation succeeded" % (exp_exc,)
        if not issubclass(got_exc, exp_exc):
            return "expected %s, got %s" % (exp_exc, got_exc.__name__)
    elif got_exc is not None:
        return "unexpected %s (plain list would succeed)" % got_exc.__name__
    elif got != exp:
        return "result %r, plain list gives %r" % (got, exp)
    after = list(l._list)
    if after != exp_state or any(a is not b for a, b in zip(after, exp_state)):
        return "container is %r, plain list would be %r%s" % (after, exp_state, " (after a raising operation)" if exp_exc else "")
    try:
        check_coherent(u, l)
    except AssertionError as e:
        return "incoherent key index: %s" % e
    return None


def states(u, maxlen):
    U = UNIVERSES[u]
    kf = U["keyf"]
    for n in range(maxlen + 1):
        for st in itertools.permutations(U["items"], n):
            keys = [repr(kf(x)) for x in st]
            if len(set(keys)) != n:
                continue
            if U["typed"] and any(not isinstance(x, U["typed"][0]) for x in st):
                continue
            yield list(st)


FN_OPS = {
    "insert": ["insert", "append", "extend", "iadd", "add", "radd", "slice"],
    "__setitem__": ["setitem", "setitem_key", "slice_set"],
    "__delitem__": ["delitem", "delitem_key", "pop", "remove", "clear", "slice_del"],
    "__getitem__": ["getitem", "getitem_key", "slice", "pop", "iter", "index", "contains", "reversed", "count"],
    "index_for_key": ["index_for_key", "setitem_key", "delitem_key"],
    "__contains__": ["contains"], "get": ["get"], "__len__": ["len", "append", "pop"],
    "__eq__": ["eq"], "__add__": ["add"], "__radd__": ["radd"], "extend": ["extend", "iadd"],
    "reverse": ["reverse"], "__init__": ["slice", "add", "radd", "len"], "key": None, "_validate_item": None,
    "append": ["append"], "pop": ["pop", "clear"], "remove": ["remove"], "clear": ["clear"],
    "__iadd__": ["iadd"], "index": ["index", "remove"], "__iter__": ["iter", "contains"], "count": ["count"],
    "__reversed__": ["reversed"],
}


def search(fn, maxlen, only_ops=None):
    """-> (cases, first failure or None)"""
    short = fn.split(".")[-1].split("[")[0] if fn else None
    sel = FN_OPS.get(short) if short else None
    if only_ops is not None:
        sel = only_ops
    n = 0
    for u in UNIVERSES:
        for st in states(u, maxlen):
            for op, args in ops_for(u, st):
                if sel is not None and op not in sel:
                    continue
                n += 1
                bad = run_case(u, st, op, args)
                if bad:
                    return n, dict(universe=u, state=st, op=op, args=args, why=bad)
    return n, None


REPLAY = '''#!/venv/bin/python
# C13 replay: one operation on a KeyedList compared with the plain-list model of the property statement.
# run: PYTHONPATH=/repo /venv/bin/python {path}      (exit 1 = the property is violated)
import sys
sys.path.insert(0, {verif!r})
from bounded.c13 import *
state = {state}
bad = run_case({universe!r}, state, {op!r}, {args})
print("state   :", state)
print("op      :", {op!r}, {args})
print("verdict :", bad or "agrees with the plain-list model")
sys.exit(1 if bad else 0)
'''


def write_replay(d, f):
    os.makedirs(d, exist_ok=True)
    import zlib
    name = "c13_%s_%s.py" % (f["op"], zlib.crc32(repr((f["universe"], f["state"], f["args"])).encode()) % 100000)
    path = os.path.join(d, name)
    with open(path, "w") as fh:
        fh.write(REPLAY.format(path=path, verif=os.path.dirname(os.path.dirname(os.path.abspath(__file__))),
                               state=repr(f["state"]), universe=f["universe"], op=f["op"], args=repr(f["args"])))
    return path


def main():
    if sys.argv[1] == "--standin":
        maxlen = int(sys.argv[2]) if len(sys.argv) > 2 else 3
        n, f = search(None, maxlen, only_ops=["iter", "reversed", "count", "slice", "keys", "items"])
        out = {"cases": n, "found": bool(f), "bound": "lists of <= %d items, 5 universes" % maxlen}
        if f:
            out["failure"] = {k: repr(v) for k, v in f.items()}
            out["replay"] = write_replay(sys.argv[3] if len(sys.argv) > 3 else "/verif/replays/C13", f)
        print(json.dumps(out))
    elif sys.argv[1] == "--find":
        fn = sys.argv[2] if sys.argv[2] != "-" else None
        d = sys.argv[3]
        n, f = search(fn, int(sys.argv[4]) if len(sys.argv) > 4 else 3)
        if f is None and fn is not None:
            n2, f = search(None, 2)
            n += n2
        out = {"cases": n, "found": bool(f)}
        if f:
            out["failure"] = {k: repr(v) for k, v in f.items()}
            out["replay"] = write_replay(d, f)
        print(json.dumps(out))


if __name__ == "__main__":
    main()
