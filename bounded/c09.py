"""C09 concrete harness (runs under /venv/bin/python with PYTHONPATH=/repo).  Labelled *bounded*.

Construction over a corpus of class hierarchies (spec parent with a key, plain subclass overriding a default, spec subclass
adding / re-declaring attributes, parent with a user-written constructor, inherited init=False default, plain class
between two spec classes, diamond of spec classes, overflow attribute, __post_init__ counters): every
subset of keyword arguments; the constructed state against a reference resolution written from the statement.
Stand-in for phase 1 of InitMethod.init (routing through parent constructors), the generated signature and overflow.
"""
import itertools
import json
import os
import sys
from typing import Any, Dict, List

from spec_classes import Attr, spec_class
from spec_classes.types import MISSING

LOG = []


@spec_class(key="name", bootstrap=True)
class Base:
    name: str
    n: int = 1
    tags: List[str] = ["base"]
    nodefault: int

    def __post_init__(self):
        LOG.append(("post", type(self).__name__))


class Plain(Base):                 # plain subclass: overrides class-level defaults only
    n = 5
    tags = ["plain"]


@spec_class(bootstrap=True)
class Child(Base):                 # spec subclass: adds an attribute, re-declares one
    extra: str = "e"
    n: int = 9


@spec_class(bootstrap=True)
class Custom:                      # spec class with a user-written constructor
    a: int = 1
    b: int = 2

    def __init__(self, a=10, b=20):
        LOG.append(("custom-init", a, b))
        self.a = a
        self.b = b


@spec_class(bootstrap=True)
class CustomChild(Custom):         # its attributes a, b are initialised through Custom.__init__
    c: int = 3
    b: int = 7


@spec_class(init_overflow_attr="options", bootstrap=True)
class Overflow:
    x: int = 0
    options: Dict[str, Any] = {}


@spec_class(bootstrap=True)
class Hidden:                      # an attribute that is no constructor argument but has a default
    x: int = Attr(default=3, init=False)
    y: int = 1


@spec_class(bootstrap=True)
class HiddenChild(Hidden):
    z: int = 2


@spec_class(bootstrap=True)
class SandBase:
    x: int = 1
    v: List[int] = [0]


class SandMid(SandBase):           # plain class between two spec classes
    x = 2


@spec_class(bootstrap=True)
class Sandwich(SandMid):
    w: int = 0


@spec_class(bootstrap=True)
class DiaRoot:
    x: int = 1


@spec_class(bootstrap=True)
class DiaLeft(DiaRoot):
    a: int = 0


@spec_class(bootstrap=True)
class DiaRight(DiaRoot):
    x = 5


@spec_class(bootstrap=True)
class Diamond(DiaLeft, DiaRight):
    d: int = 0


@spec_class(init_overflow_attr="extra", bootstrap=True)
class OverflowBare:                # the overflow attribute has no default of its own
    x: int = 0
    extra: Dict[str, Any]


def prep(cls):
    return cls


CASES = [
    # (class, positional args, candidate keywords, expected(attr) resolver info)
    (Base, ("k",), {"n": 3, "tags": ["t"], "nodefault": 4}, {"name": None, "n": 1, "tags": ["base"], "nodefault": MISSING}),
    (Plain, ("k",), {"n": 3, "tags": ["t"], "nodefault": 4}, {"name": None, "n": 5, "tags": ["plain"], "nodefault": MISSING}),
    (Child, ("k",), {"n": 3, "tags": ["t"], "extra": "x"}, {"name": None, "n": 9, "tags": ["base"], "nodefault": MISSING, "extra": "e"}),
    (CustomChild, (), {"a": 4, "b": 5, "c": 6}, {"a": 1, "b": 7, "c": 3}),
    (HiddenChild, (), {"y": 5, "z": 6}, {"x": 3, "y": 1, "z": 2}),
    (Sandwich, (), {"x": 7, "v": [4], "w": 4}, {"x": 2, "v": [0], "w": 0}),
    (SandMid, (), {"x": 7, "v": [4]}, {"x": 2, "v": [0]}),
    (Diamond, (), {"x": 7, "a": 4, "d": 3}, {"x": 5, "a": 0, "d": 0}),
]


def run_case(ci, keys):
    cls, pos, cand, defaults = CASES[ci]
    kw = {k: cand[k] for k in keys}
    del LOG[:]
    where = "%s(%s)" % (cls.__name__, ", ".join([repr(p) for p in pos] + ["%s=%r" % kv for kv in kw.items()]))
    try:
        obj = cls(*pos, **kw)
    except BaseException as e:      # noqa
        return "%s raised %s: %s" % (where, type(e).__name__, e)
    for a, d in defaults.items():
        exp = kw[a] if a in kw else (pos[0] if a == "name" else d)
        got = getattr(obj, a, MISSING)
        if a == "name" and not pos:
            continue
        if got != exp and not (exp is MISSING and got is MISSING):
            return "%s: %s == %r, the hierarchy specifies %r" % (where, a, got, exp)
        if a in kw and isinstance(kw[a], list) and got is kw[a]:
            return "%s: %s is the caller's own list object" % (where, a)
        if a not in kw and isinstance(got, list):
            for k in type(obj).__mro__:
                if got is k.__dict__.get(a):
                    return "%s: %s is the class-level default object of %s" % (where, a, k.__name__)
    if issubclass(cls, Base):
        posts = [x for x in LOG if x[0] == "post"]
        if len(posts) != 1:
            return "%s: __post_init__ ran %d times" % (where, len(posts))
    if cls is CustomChild:
        inits = [x for x in LOG if x[0] == "custom-init"]
        if len(inits) != 1:
            return "%s: the parent's user-written constructor ran %d times" % (where, len(inits))
        want = (kw.get("a", 1), 20)       # b is re-declared by the subclass: not routed through the parent (its signature default applies there)
        if inits[0][1:] != want:
            return "%s: the parent's constructor received %r, expected %r" % (where, inits[0][1:], want)
    if "__spec_class_initializing__" in obj.__dict__:
        return "%s: the initializing flag was left on the instance" % where
    return None


def other_checks():
    out = []
    try:
        Base()
        out.append("Base() without its key (no default) did not raise TypeError")
    except TypeError:
        pass
    try:
        Base("k", bogus=1)
        out.append("Base('k', bogus=1): unknown keyword accepted")
    except TypeError:
        pass
    o = Overflow(x=1, u=2, v=3)
    if o.options != {"u": 2, "v": 3} or o.x != 1:
        out.append("Overflow(x=1, u=2, v=3): overflow attribute holds %r, expected exactly the unknown keywords" % (o.options,))
    if Overflow(x=1).options != {}:
        out.append("Overflow(x=1): overflow attribute not empty")
    for label, o, want in (("OverflowBare()", OverflowBare(), {}), ("OverflowBare(x=1)", OverflowBare(x=1), {}),
                           ("OverflowBare(u=2)", OverflowBare(u=2), {"u": 2})):
        got = o.__dict__.get("extra", MISSING)
        if got != want:
            out.append("%s: the overflow attribute holds %r, expected exactly the unknown keywords %r" % (label, got, want))
    if Base(name="k").name != "k":
        out.append("Base(name='k') did not accept the key by keyword")
    return out


REPLAY = '''#!/venv/bin/python
# C09 replay.  run: PYTHONPATH=/repo /venv/bin/python {path}      (exit 1 = the property is violated)
import sys
sys.path.insert(0, {verif!r})
from bounded.c09 import *
bad = {call}
print("case    :", {call!r})
print("verdict :", bad or "constructed as the hierarchy specifies")
sys.exit(1 if bad else 0)
'''


def main():
    d = sys.argv[3] if len(sys.argv) > 3 else "/verif/replays/C09"
    n, bad, call = 0, None, None
    for ci, (cls, pos, cand, defaults) in enumerate(CASES):
        for r in range(len(cand) + 1):
            for keys in itertools.combinations(sorted(cand), r):
                n += 1
                bad = run_case(ci, keys)
                if bad:
                    call = "run_case(%d, %r)" % (ci, keys)
                    break
            if bad:
                break
        if bad:
            break
    if not bad:
        oc = other_checks()
        n += 8
        if oc:
            bad, call = oc[0], "(other_checks() or [None])[0]"
    out = {"cases": n, "found": bool(bad), "distinct": n}
    if bad:
        import zlib
        os.makedirs(d, exist_ok=True)
        path = os.path.join(d, "c09_%d.py" % (zlib.crc32(call.encode()) % 1000000))
        with open(path, "w") as fh:
            fh.write(REPLAY.format(path=path, verif=os.path.dirname(os.path.dirname(os.path.abspath(__file__))), call=call))
        out["failure"] = {"why": bad, "case": call}
        out["replay"] = path
    print(json.dumps(out))


if __name__ == "__main__":
    main()
