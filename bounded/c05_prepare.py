"""Stand-in for C05 (runs under /venv/bin/python): the *content* of keyword merges - update(**kw), update_<a>(**kw), with_<a>(v, **kw)
must give what the single-attribute routes give (preparers run, dicts build nested specs, collections are prepared); the proofs of
mutate_value carry only the frame and identity clauses."""
import json
import os
import sys
from typing import List, Optional

from spec_classes import spec_class


@spec_class(bootstrap=True)
class Address:
    city: str = ""
    zips: List[int] = []

    def _prepare_city(self, v):
        return v.strip().title()


@spec_class(bootstrap=True)
class Person:
    name: str = ""
    age: int = 0
    address: Address
    tags: List[str] = []

    def _prepare_name(self, v):
        return v.strip().lower()


def check():
    n = 0
    p = Person(name="al", address=Address(city="rome"))
    cases = [
        ("update(name='  Bob ', age=3)", lambda: p.update(name="  Bob ", age=3), lambda: p.with_name("  Bob ").with_age(3)),
        ("update(name=' X ', _inplace=True)", lambda: Person(name="al").update(name=" X ", _inplace=True), lambda: Person(name="al").with_name(" X ", _inplace=True)),
        ("update_address(city='  new york ')", lambda: p.update_address(city="  new york "), lambda: p.with_address(p.address.with_city("  new york "))),
        ("update(address={'city': ' lyon '})", lambda: p.update(address={"city": " lyon "}), lambda: p.with_address({"city": " lyon "})),
        ("with_address(Address(), city=' oslo ')", lambda: p.with_address(Address(), city=" oslo "), lambda: p.with_address(Address().with_city(" oslo "))),
        ("update(tags=('a', 'b'))", lambda: p.update(tags=["a", "b"]), lambda: p.with_tags(["a", "b"])),
        ("transform(name=f)", lambda: p.transform(name=lambda v: "  ZED "), lambda: p.with_name("  ZED ")),
        ("transform_address(city=f)", lambda: p.transform_address(city=lambda v: " pisa "), lambda: p.with_address(p.address.with_city(" pisa "))),
    ]
    for label, a, b in cases:
        n += 1
        try:
            ra = a()
        except BaseException as e:      # noqa
            ra = e
        try:
            rb = b()
        except BaseException as e:      # noqa
            rb = e
        if isinstance(ra, BaseException) or isinstance(rb, BaseException):
            if type(ra) is not type(rb):
                return n, "%s gives %r, the single-attribute route gives %r" % (label, ra, rb)
        elif ra != rb:
            return n, "%s gives %r, the single-attribute route gives %r" % (label, ra, rb)
    return n, None


REPLAY = '''#!/venv/bin/python
# C05 (merge content) replay.  run: PYTHONPATH=/repo /venv/bin/python {path}      (exit 1 = the property is violated)
import sys
sys.path.insert(0, {verif!r})
from bounded.c05_prepare import *
n, bad = check()
print("verdict :", bad or "keyword merges agree with the single-attribute routes on the corpus")
sys.exit(1 if bad else 0)
'''


def main():
    d = sys.argv[3] if len(sys.argv) > 3 else "/verif/replays/C05"
    n, bad = check()
    out = {"cases": n, "found": bool(bad), "distinct": n}
    if bad:
        os.makedirs(d, exist_ok=True)
        path = os.path.join(d, "c05_prepare.py")
        with open(path, "w") as fh:
            fh.write(REPLAY.format(path=path, verif=os.path.dirname(os.path.dirname(os.path.abspath(__file__)))))
        out["failure"] = {"why": bad}
        out["replay"] = path
    print(json.dumps(out))


if __name__ == "__main__":
    main()
