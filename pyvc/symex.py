"""pyvc symbolic executor: path-wise execution of real function bodies (ast) over the
symbolic heap of state.py, producing proof obligations.  See DESIGN.md section 2.

No repository code is imported or executed here; the bodies are ast nodes from functable.
"""
import ast
import os
import z3

from .vals import (Val, I, B, NONE, ABSENT, vbool, vint, vreal, vstr, vref, vcls, is_none, is_absent,
                   is_bool, is_int, is_real, is_str, is_ref, is_cls, b_of, i_of, r_of, s_of, a_of, c_of,
                   STR, CLS, subcls, kn, utruthy, hashable, numlike, num_of, py_eq, key_norm,
                   NOTIMPL, ELLIPSIS, ArrIV, ArrVB, ArrVV)
from .state import St, fresh, HEAP_SORTS
from .pvals import *

SENTINELS = ("MISSING", "EMPTY", "UNCHANGED", "SENTINEL")

# uninterpreted application of unknown callables (A-CB: pure, deterministic)
APP = {n: z3.Function("app%d" % n, *([Val] * (n + 1)), Val) for n in range(0, 5)}
APP_RAISES = {n: z3.Function("app%d_raises" % n, *([Val] * (n + 1)), B) for n in range(0, 5)}
APP_EXC = {n: z3.Function("app%d_exc" % n, *([Val] * (n + 1)), I) for n in range(0, 5)}
metacls = z3.Function("metacls", I, I)
clsattr = z3.Function("clsattr", I, I, Val)        # attribute found on the *class* of an object
FSTR = {}


class Res:
    __slots__ = ("kind", "st", "val")

    def __init__(self, kind, st, val=None):
        self.kind, self.st, self.val = kind, st, val

    def __repr__(self):
        return "Res(%s,%r)" % (self.kind, self.val)


class Ob:
    """A proof obligation:  And(hyps) => goal"""
    def __init__(self, oid, kind, hyps, goal, meta=None):
        self.oid, self.kind, self.hyps, self.goal, self.meta = oid, kind, list(hyps), goal, meta or {}

    def __repr__(self):
        return "Ob(%s)" % self.oid


class Fctx:
    """Static context of the function being executed."""
    def __init__(self, module, closure, recv_cls=None, info=None, contract=None, depth=0, defcls=None):
        self.module, self.closure, self.recv_cls, self.info = module, closure, recv_cls, info
        self.contract = contract   # contract object supplying loop invariants (targets only)
        self.depth = depth
        self.defcls = defcls       # class in which the function is defined (for super(), name mangling)
        self.loop_ord = 0


def is_val(x):
    return isinstance(x, z3.ExprRef) and x.sort() == Val


def fstr_func(template, nparts):
    """the uninterpreted function standing for an f-string template (keyed by its source text): contracts may name it"""
    key = (template, nparts)
    if key not in FSTR:
        import zlib
        FSTR[key] = z3.Function("fstr_%x_%d" % (zlib.crc32(template.encode()), nparts), *([Val] * nparts), I)
    return FSTR[key]


class Engine:
    MAX_INLINE = 6

    def __init__(self, ft, contracts=None, models=None, axioms=None):
        self.ft = ft
        self.contracts = contracts or {}
        self.models = models
        self.obligations = []
        self.axioms = list(axioms or [])
        self.known = set()            # known class names mentioned (for the subclass table)
        self.stats = {"feas": 0, "paths": 0, "inlined": set(), "by_contract": set(), "assumed": set()}
        self.global_cache = {}
        self.global_addr = {}
        self.site = []                # call-site stack for obligation naming
        self.dry = False
        self.cur_target = None
        self.feas_timeout = int(os.environ.get("PYVC_FEAS_MS", "1500"))
        self.callee_hashes = {}
        for sn in SENTINELS:
            CLS.add(sn, ("object",))         # the falsy sentinel classes: registered up front so that truthiness
        for n in list(CLS.ids):              # is the same term whenever it is built
            self.known.add(n)

    # ------------------------------------------------------------------ utilities
    def pclass(self, name, info=None):
        if info is not None:
            bases = []
            for b in info.bases:
                bi = self.ft.classes.get(b)
                bases.append(bi.name if bi else b)
                if bi:
                    self.pclass(bi.name, bi)
                elif b not in CLS.ids:
                    CLS.add(b, ("object",))
            if not bases:
                bases = ["object"]
            CLS.add(info.name, bases)
        else:
            CLS.add(name, ("object",))
        self.known.add(name)
        return PClass(name, info)

    def subcls_axioms(self):
        """ground table of the subclass relation over the known classes + reflexivity."""
        out = []
        names = sorted(self.known & set(CLS.ids))
        for a in names:
            for b in names:
                out.append(subcls(CLS.cid(a), CLS.cid(b)) == CLS.is_sub(a, b))
        c = z3.Int("c!q")
        out.append(z3.ForAll([c], subcls(c, c), patterns=[subcls(c, c)]))
        out.append(z3.ForAll([c], subcls(c, CLS.cid("object")), patterns=[subcls(c, CLS.cid("object"))]))
        # the built-in container kinds are mutually exclusive (no class derives from two of them)
        kinds = ["list", "tuple", "dict", "set", "frozenset"]
        for i, a in enumerate(kinds):
            for b in kinds[i + 1:]:
                out.append(z3.ForAll([c], z3.Not(z3.And(subcls(c, CLS.cid(a)), subcls(c, CLS.cid(b)))),
                                     patterns=[subcls(c, CLS.cid(a)), subcls(c, CLS.cid(b))]))
        return out

    def base_axioms(self):
        v = z3.Const("v!q", Val)
        ax = [
            z3.ForAll([v], kn(kn(v)) == kn(v), patterns=[kn(kn(v))]),
            z3.ForAll([v], z3.Implies(z3.Or(is_none(v), is_str(v), is_cls(v), is_int(v), is_absent(v)),
                                      kn(v) == v), patterns=[kn(v)]),
            z3.ForAll([v], z3.Implies(is_ref(v), is_ref(kn(v))), patterns=[kn(v)]),
            z3.ForAll([v], z3.Implies(is_bool(v), kn(v) == vint(z3.If(b_of(v), 1, 0))), patterns=[kn(v)]),
            z3.ForAll([v], z3.Implies(is_real(v), kn(v) == v), patterns=[kn(v)]),   # A-FLOAT: 1.0 == 1 not modelled
            z3.ForAll([v], z3.Implies(z3.Not(is_ref(v)), hashable(v)), patterns=[hashable(v)]),
        ]
        from .models import IT_N, IT_ARR
        jq = z3.Int("j!q")
        t = z3.Select(IT_ARR(v), jq)
        ax.append(z3.ForAll([v, jq], z3.Implies(z3.Or(jq < 0, jq >= IT_N(v)), t == ABSENT), patterns=[t]))
        return ax + self.subcls_axioms() + self.axioms

    def solver(self, timeout=None, qf=False):
        s = z3.Solver()
        s.set("timeout", timeout or self.feas_timeout)
        for a in (self.qf_axioms() if qf else self.base_axioms()):
            s.add(a)
        return s

    def qf_axioms(self):
        from .state import has_quant
        key = ("qfax", len(self.known), len(self.axioms))
        if key not in self.global_cache:
            self.global_cache[key] = [a for a in self.base_axioms() if not has_quant(a)]
        return self.global_cache[key]

    def feasible(self, st):
        """pruning only: decided on the quantifier-free part of the path condition (a weakening, so a
        pruned path is really infeasible; unknown counts as feasible)."""
        self.stats["feas"] += 1
        s = self.inc_solver()
        s.push()
        try:
            s.add(*st.qf_pc())
            return s.check() != z3.unsat
        finally:
            s.pop()

    def inc_solver(self):
        """one persistent solver holding the (quantifier-free) axioms; path conditions are pushed/popped"""
        key = ("incsolver", len(self.known), len(self.axioms))
        if getattr(self, "_inc_key", None) != key:
            s = z3.Solver()
            s.set("timeout", self.feas_timeout)
            for a in self.qf_axioms():
                s.add(a)
            self._inc, self._inc_key = s, key
        return self._inc

    def valid(self, st, cond, timeout=None):
        """pc => cond  (True only when proved)"""
        c = z3.simplify(cond)
        if z3.is_true(c):
            return True
        if z3.is_false(c):
            return False
        s = self.inc_solver()
        s.push()
        try:
            s.add(*st.qf_pc())
            s.add(z3.Not(cond))
            self.stats["feas"] += 1
            return s.check() == z3.unsat
        finally:
            s.pop()

    def split(self, st, cond, note=None):
        """-> [(st_true, True)?, (st_false, False)?]  (infeasible sides pruned)"""
        c = z3.simplify(cond)
        if z3.is_true(c):
            return [(st, True)]
        if z3.is_false(c):
            return [(st, False)]
        out = []
        a = st.fork().assume(c)
        if self.feasible(a):
            if note:
                a.note("%s: yes" % note)
            out.append((a, True))
        b = st.fork().assume(z3.Not(c))
        if self.feasible(b):
            if note:
                b.note("%s: no" % note)
            out.append((b, False))
        return out

    def oblige(self, st, name, goal, kind="assert", meta=None):
        if self.dry:
            return
        site = "/".join(self.site)
        oid = "%s%s" % (name, ("@" + site) if site else "")
        m = {"log": st.log, "site": site}
        m.update(meta or {})
        self.obligations.append(Ob(oid, kind, st.pc, goal, m))

    # ------------------------------------------------------------------ value helpers
    def const(self, v):
        if v is None:
            return NONE
        if v is True or v is False:
            return vbool(z3.BoolVal(v))
        if isinstance(v, int):
            return vint(z3.IntVal(v))
        if isinstance(v, float):
            return vreal(z3.RealVal(repr(v)))
        if isinstance(v, str):
            return STR.val(v)
        if v is Ellipsis:
            return ELLIPSIS
        if isinstance(v, bytes):
            return fresh("bytes")
        raise Unsupported("constant %r" % (v,))

    def type_of(self, st, v):
        """class id (Int term) of a Val"""
        return z3.If(is_ref(v), st.get("cls_of", a_of(v)),
               z3.If(is_bool(v), CLS.cid("bool"),
               z3.If(is_int(v), CLS.cid("int"),
               z3.If(is_real(v), CLS.cid("float"),
               z3.If(is_str(v), CLS.cid("str"),
               z3.If(is_none(v), CLS.cid("NoneType"),
               z3.If(is_cls(v), metacls(c_of(v)), CLS.cid("object"))))))))

    def to_val(self, st, x):
        """engine-level value -> Val term (may allocate)"""
        if is_val(x):
            return x
        if isinstance(x, PClass):
            self.known.add(x.name)
            if x.name not in CLS.ids:
                self.pclass(x.name, x.info)
            return CLS.val(x.name)
        if isinstance(x, PTuple):
            return self.alloc_list(st, [self.to_val(st, i) for i in x.items], "tuple")
        if isinstance(x, (PFunc, PBound, PPartial, PBuiltin)):
            return self.reify_callable(st, x)
        if isinstance(x, PInstDict):
            raise Unsupported("__dict__ object escaping")
        if isinstance(x, PModule):
            key = ("module", x.name)
            if key not in self.global_addr:
                self.global_addr[key] = 100 + len(self.global_addr)
            a = z3.IntVal(self.global_addr[key])
            st.assume(st.get("cls_of", a) == CLS.cid("module"))
            return vref(a)
        if isinstance(x, PExc):
            raise Unsupported("exception object stored as value")
        if isinstance(x, bool) or x is None or isinstance(x, (int, str, float)):
            return self.const(x)
        if isinstance(x, PSeq):
            raise Unsupported("iterator object stored as value")
        raise Unsupported("to_val(%r)" % (x,))

    def reify_callable(self, st, x):
        """A function/bound method stored into the heap: an object of class function/method whose
        application (app1...) is tied to the callee's pure contract when it has one."""
        a = st.new_addr()
        v = vref(a)
        if isinstance(x, PBound):
            st.put("cls_of", a, z3.IntVal(CLS.cid("method")))
            d = z3.K(I, ABSENT)
            d = z3.Store(d, STR.sid("__self__"), self.to_val(st, x.selfval))
            st.put("idict", a, d)
            con = self.contract_for(x.func, x.recv_cls) if isinstance(x.func, PFunc) else None
            if con is not None and getattr(con, "pure_fn", None):
                con.link_bound(self, st, v, x)
            st.ghost = dict(st.ghost)
            st.ghost.setdefault("callables", {})
            st.ghost["callables"] = dict(st.ghost["callables"])
            st.ghost["callables"][v.sexpr()] = x
        else:
            st.put("cls_of", a, z3.IntVal(CLS.cid("function")))
            st.ghost = dict(st.ghost)
            cs = dict(st.ghost.get("callables", {}))
            cs[v.sexpr()] = x
            st.ghost["callables"] = cs
        return v

    def truthy(self, st, x):
        if is_val(x):
            v = x
            a = a_of(v)
            c = st.get("cls_of", a)
            LIST, TUP, DICT, SET = (CLS.cid("list"), CLS.cid("tuple"), CLS.cid("dict"), CLS.cid("set"))
            FN, MT = CLS.cid("function"), CLS.cid("method")
            ref_t = z3.If(z3.Or(c == LIST, c == TUP), st.get("llen", a) > 0,
                    z3.If(z3.Or(c == DICT, c == SET), st.get("dsize", a) > 0,
                    z3.If(z3.Or(c == FN, c == MT), True, self.obj_truthy(st, a, c))))
            sent = z3.Or(*[c_of(v) == CLS.cid(s) for s in SENTINELS])
            return z3.If(is_none(v), False,
                   z3.If(is_bool(v), b_of(v),
                   z3.If(is_int(v), i_of(v) != 0,
                   z3.If(is_real(v), r_of(v) != 0,
                   z3.If(is_str(v), s_of(v) != 0,
                   z3.If(is_cls(v), z3.Not(sent),
                   z3.If(is_ref(v), ref_t, False)))))))
        if isinstance(x, PTuple):
            return z3.BoolVal(len(x.items) > 0)
        if isinstance(x, PClass):
            return z3.BoolVal(x.name not in SENTINELS)
        if isinstance(x, PKwargs):
            if x.rest is None:
                return z3.BoolVal(len(x.items) > 0)
            return z3.Or(z3.BoolVal(len(x.items) > 0), x.rest_nonempty)
        if x is None or x is False:
            return z3.BoolVal(False)
        if x is True:
            return z3.BoolVal(True)
        return z3.BoolVal(True)

    def obj_truthy(self, st, a, c):
        """truth value of an instance: classes under contract with __len__ hook in here (models)."""
        if self.models is not None:
            t = self.models.obj_truthy(self, st, a, c)
            if t is not None:
                return t
        return utruthy(a)

    def alloc_obj(self, st, clsname, fields=None):
        a = st.new_addr()
        st.put("cls_of", a, z3.IntVal(CLS.cid(clsname)))
        d = z3.K(I, ABSENT)
        for k, v in (fields or {}).items():
            d = z3.Store(d, STR.sid(k), v)
        st.put("idict", a, d)
        return vref(a)

    def alloc_list(self, st, items, clsname="list"):
        a = st.new_addr()
        st.put("cls_of", a, z3.IntVal(CLS.cid(clsname)))
        st.put("llen", a, z3.IntVal(len(items)))
        arr = z3.K(I, ABSENT)
        for i, it in enumerate(items):
            arr = z3.Store(arr, i, it)
        st.put("lelem", a, arr)
        return vref(a)

    def alloc_list_sym(self, st, n, arr, clsname="list"):
        a = st.new_addr()
        st.put("cls_of", a, z3.IntVal(CLS.cid(clsname)))
        st.put("llen", a, n)
        st.put("lelem", a, arr)
        return vref(a)

    def alloc_dict(self, st, clsname="dict"):
        a = st.new_addr()
        st.put("cls_of", a, z3.IntVal(CLS.cid(clsname)))
        st.put("dhas", a, z3.K(Val, z3.BoolVal(False)))
        st.put("dval", a, z3.K(Val, ABSENT))
        st.put("dkey", a, z3.K(Val, ABSENT))
        st.put("dsize", a, z3.IntVal(0))
        return vref(a)

    # ---- write permission (frames / modifies) --------------------------
    def check_write(self, st, addr, what, cond=None):
        """every heap write must target an object the current frames allow (or one allocated since)."""
        for i, fr in enumerate(st.frames):
            ok = fr["allow"](addr)
            g = z3.Or(ok, addr >= fr["alloc"])
            if cond is not None:
                g = z3.Implies(cond, g)
            self.oblige(st, "%s.frame[%s]" % (fr["owner"], fr["label"]), g, kind="frame",
                        meta={"what": what})

    def write(self, st, comp, addr, value, what=""):
        self.check_write(st, addr, "%s %s" % (comp, what))
        st.put(comp, addr, value)

    # ------------------------------------------------------------------ exceptions
    def exc(self, st, cls, *args, note=""):
        self.known.add(cls)
        if cls not in CLS.ids:
            CLS.add(cls, ("Exception",))
        return Res("exc", st, PExc(cls, None, args, note))

    def exc_matches(self, st, e, handler_classes):
        """-> z3 Bool / python bool: exception e is caught by one of the handler classes"""
        if e.cls is not None:
            return any(CLS.is_sub(e.cls, h) for h in handler_classes)
        return z3.Or(*[subcls(e.cid, CLS.cid(h)) for h in handler_classes])

    # ------------------------------------------------------------------ statements
    def exec_block(self, stmts, st, fx):
        states = [Res("ok", st)]
        for s in stmts:
            nxt = []
            for r in states:
                if r.kind != "ok":
                    nxt.append(r)
                    continue
                nxt.extend(self.exec_stmt(s, r.st, fx))
            states = nxt
            if not any(r.kind == "ok" for r in states):
                break
        return states

    def exec_stmt(self, s, st, fx):
        m = getattr(self, "st_" + type(s).__name__, None)
        if m is None:
            raise Unsupported("statement %s" % type(s).__name__)
        return m(s, st, fx)

    def st_Pass(self, s, st, fx):
        return [Res("ok", st)]

    def st_Expr(self, s, st, fx):
        if isinstance(s.value, ast.Constant):
            return [Res("ok", st)]          # docstring / ellipsis
        out = []
        for r in self.ev(s.value, st, fx):
            out.append(Res("ok", r.st) if r.kind == "ok" else r)
        return out

    def st_Return(self, s, st, fx):
        if s.value is None:
            return [Res("ret", st, NONE)]
        out = []
        for r in self.ev(s.value, st, fx):
            out.append(Res("ret", r.st, r.val) if r.kind == "ok" else r)
        return out

    def st_Break(self, s, st, fx):
        return [Res("brk", st)]

    def st_Continue(self, s, st, fx):
        return [Res("cnt", st)]

    def st_Import(self, s, st, fx):
        for a in s.names:
            st.env[a.asname or a.name.split(".")[0]] = PModule(a.name if a.asname else a.name.split(".")[0])
        return [Res("ok", st)]

    def st_ImportFrom(self, s, st, fx):
        for a in s.names:
            mod = s.module or ""
            if mod in self.ft.modules:
                st.env[a.asname or a.name] = self.global_value(mod, a.name)
            else:
                st.env[a.asname or a.name] = self.external("%s.%s" % (mod, a.name))
        return [Res("ok", st)]

    def st_Global(self, s, st, fx):
        raise Unsupported("global statement")

    def st_Assert(self, s, st, fx):
        out = []
        for r in self.ev(s.test, st, fx):
            if r.kind != "ok":
                out.append(r)
                continue
            for s2, b in self.split(r.st, self.truthy(r.st, r.val)):
                out.append(Res("ok", s2) if b else self.exc(s2, "AssertionError"))
        return out

    def st_Assign(self, s, st, fx):
        out = []
        for r in self.ev(s.value, st, fx):
            if r.kind != "ok":
                out.append(r)
                continue
            rs = [Res("ok", r.st)]
            for t in s.targets:
                nxt = []
                for q in rs:
                    if q.kind != "ok":
                        nxt.append(q)
                    else:
                        nxt.extend(self.assign(t, r.val, q.st, fx))
                rs = nxt
            out.extend(rs)
        return out

    def st_AnnAssign(self, s, st, fx):
        if s.value is None:
            return [Res("ok", st)]
        out = []
        for r in self.ev(s.value, st, fx):
            out.extend(self.assign(s.target, r.val, r.st, fx) if r.kind == "ok" else [r])
        return out

    def st_AugAssign(self, s, st, fx):
        load = ast.copy_location(ast.BinOp(left=self.as_load(s.target), op=s.op, right=s.value), s)
        load._aug = True
        out = []
        for r in self.ev(load, st, fx):
            out.extend(self.assign(s.target, r.val, r.st, fx) if r.kind == "ok" else [r])
        return out

    def as_load(self, t):
        t2 = ast.parse(ast.unparse(t), mode="eval").body
        return t2

    def assign(self, t, val, st, fx):
        if isinstance(t, ast.Name):
            st.env[t.id] = val
            return [Res("ok", st)]
        if isinstance(t, (ast.Tuple, ast.List)):
            items = self.unpack(st, val, len(t.elts))
            if items is None:
                raise Unsupported("unpacking of a symbolic value")
            rs = [Res("ok", st)]
            for te, it in zip(t.elts, items):
                nxt = []
                for q in rs:
                    nxt.extend(self.assign(te, it, q.st, fx) if q.kind == "ok" else [q])
                rs = nxt
            return rs
        if isinstance(t, ast.Attribute):
            out = []
            for r in self.ev(t.value, st, fx):
                if r.kind != "ok":
                    out.append(r)
                    continue
                out.extend(self.setattr_(r.st, r.val, self.mangle(t.attr, fx), val, fx))
            return out
        if isinstance(t, ast.Subscript):
            out = []
            for r in self.ev(t.value, st, fx):
                if r.kind != "ok":
                    out.append(r)
                    continue
                for r2 in self.ev_index(t.slice, r.st, fx):
                    if r2.kind != "ok":
                        out.append(r2)
                        continue
                    out.extend(self.setitem(r2.st, r.val, r2.val, val, fx))
            return out
        raise Unsupported("assignment target %s" % type(t).__name__)

    def unpack(self, st, val, n):
        if isinstance(val, PTuple):
            if len(val.items) != n:
                raise Unsupported("unpack arity")
            return val.items
        if is_val(val) and self.models is not None:
            return self.models.unpack(self, st, val, n)
        return None

    def st_Delete(self, s, st, fx):
        rs = [Res("ok", st)]
        for t in s.targets:
            nxt = []
            for q in rs:
                if q.kind != "ok":
                    nxt.append(q)
                    continue
                if isinstance(t, ast.Name):
                    q.st.env.pop(t.id, None)
                    nxt.append(q)
                elif isinstance(t, ast.Attribute):
                    for r in self.ev(t.value, q.st, fx):
                        nxt.extend(self.delattr_(r.st, r.val, self.mangle(t.attr, fx), fx) if r.kind == "ok" else [r])
                elif isinstance(t, ast.Subscript):
                    for r in self.ev(t.value, q.st, fx):
                        if r.kind != "ok":
                            nxt.append(r)
                            continue
                        for r2 in self.ev_index(t.slice, r.st, fx):
                            nxt.extend(self.delitem(r2.st, r.val, r2.val, fx) if r2.kind == "ok" else [r2])
                else:
                    raise Unsupported("del target")
            rs = nxt
        return rs

    def st_If(self, s, st, fx):
        out = []
        for r in self.ev(s.test, st, fx):
            if r.kind != "ok":
                out.append(r)
                continue
            for s2, b in self.split(r.st, self.truthy(r.st, r.val), note="if@%d" % s.lineno):
                out.extend(self.exec_block(s.body if b else s.orelse, s2, fx))
        return out

    def st_Raise(self, s, st, fx):
        if s.exc is None:
            cur = st.ghost.get("handling")
            if not cur:
                raise Unsupported("bare raise outside handler")
            return [Res("exc", st, cur[-1])]
        out = []
        for r in self.ev(s.exc, st, fx):
            if r.kind != "ok":
                out.append(r)
                continue
            v = r.val
            if isinstance(v, PClass):
                v = PExc(v.name, None, [])
                self.known.add(v.cls)
            if not isinstance(v, PExc):
                raise Unsupported("raise of non-exception value")
            out.append(Res("exc", r.st, v))
        return out

    def st_Try(self, s, st, fx):
        body = self.exec_block(s.body, st, fx)
        out = []
        for r in body:
            if r.kind == "ok" and s.orelse:
                out.extend(self.exec_block(s.orelse, r.st, fx))
            elif r.kind == "exc":
                out.extend(self.handle(s, r, fx))
            else:
                out.append(r)
        if s.finalbody:
            fin = []
            for r in out:
                for f in self.exec_block(s.finalbody, r.st, fx):
                    if f.kind == "ok":
                        fin.append(Res(r.kind, f.st, r.val))
                    else:
                        fin.append(f)
            out = fin
        return out

    def handler_classes(self, h, st, fx):
        if h.type is None:
            return ["BaseException"]
        rs = self.ev(h.type, st, fx)
        if len(rs) != 1 or rs[0].kind != "ok":
            raise Unsupported("except clause type")
        v = rs[0].val
        items = v.items if isinstance(v, PTuple) else [v]
        names = []
        for it in items:
            if not isinstance(it, PClass):
                raise Unsupported("except clause with non-static class")
            names.append(it.name)
            self.known.add(it.name)
        return names

    def handle(self, s, r, fx):
        """dispatch exception result r over the handlers of try statement s"""
        e = r.val
        pending = [r.st]
        out = []
        for h in s.handlers:
            names = self.handler_classes(h, r.st, fx)
            nxt = []
            for st in pending:
                m = self.exc_matches(st, e, names)
                if isinstance(m, bool):
                    branches = [(st, m)]
                else:
                    branches = self.split(st, m, note="except %s" % "|".join(names))
                for s2, b in branches:
                    if not b:
                        nxt.append(s2)
                        continue
                    s2 = s2.fork()
                    if h.name:
                        s2.env[h.name] = e
                    s2.ghost = dict(s2.ghost)
                    s2.ghost["handling"] = s2.ghost.get("handling", ()) + (e,)
                    for q in self.exec_block(h.body, s2, fx):
                        q.st.ghost = dict(q.st.ghost)
                        q.st.ghost["handling"] = q.st.ghost.get("handling", ())[:-1]
                        out.append(q)
            pending = nxt
        for st in pending:
            out.append(Res("exc", st, e))
        return out

    def st_With(self, s, st, fx):
        if len(s.items) != 1:
            raise Unsupported("multi-item with")
        item = s.items[0]
        out = []
        for r in self.ev(item.context_expr, st, fx):
            if r.kind != "ok":
                out.append(r)
                continue
            cm = r.val
            for r2 in self.call_method(r.st, cm, "__enter__", [], {}, fx):
                if r2.kind != "ok":
                    out.append(r2)
                    continue
                s2 = r2.st
                if item.optional_vars is not None:
                    rs = self.assign(item.optional_vars, r2.val, s2, fx)
                else:
                    rs = [Res("ok", s2)]
                for q in rs:
                    if q.kind != "ok":
                        out.append(q)
                        continue
                    for b in self.exec_block(s.body, q.st, fx):
                        if b.kind == "exc":
                            args = [NONE, NONE, NONE]   # exc info is opaque to __exit__ models
                            for x in self.call_method(b.st, cm, "__exit__", args, {}, fx):
                                if x.kind != "ok":
                                    out.append(x)
                                    continue
                                for s3, t in self.split(x.st, self.truthy(x.st, x.val)):
                                    out.append(Res("ok", s3) if t else Res("exc", s3, b.val))
                        else:
                            for x in self.call_method(b.st, cm, "__exit__", [NONE, NONE, NONE], {}, fx):
                                out.append(Res(b.kind, x.st, b.val) if x.kind == "ok" else x)
        return out

    def st_FunctionDef(self, s, st, fx):
        info = None
        f = PFunc(info, closure=None, node=s, module=fx.module, name=s.name, owner=None)
        clo = dict(fx.closure)
        clo.update(st.env)
        clo[s.name] = f
        f.closure = clo
        f.defcls = fx.defcls
        f.recv_cls = fx.recv_cls
        st.env[s.name] = f
        return [Res("ok", st)]

    def st_While(self, s, st, fx):
        return self.loop(s, st, fx, None)

    def st_For(self, s, st, fx):
        out = []
        for r in self.ev(s.iter, st, fx):
            if r.kind != "ok":
                out.append(r)
                continue
            for r2 in self.iter_plan(r.st, r.val, fx):
                if r2.kind != "ok":
                    out.append(r2)
                    continue
                out.extend(self.loop(s, r2.st, fx, r2.val))
        return out

    # ------------------------------------------------------------------ loops
    def assigned_names(self, nodes):
        names = set()
        for n in nodes:
            for x in ast.walk(n):
                if isinstance(x, ast.Name) and isinstance(x.ctx, (ast.Store, ast.Del)):
                    names.add(x.id)
                elif isinstance(x, ast.ExceptHandler) and x.name:
                    names.add(x.name)
        return names

    def loop(self, s, st, fx, plan):
        """Invariant-based loop rule (DESIGN 2.4).  plan: PSeq for `for`, None for `while`."""
        ordn = self.loop_ordinal(fx, s)
        spec = None
        if fx.contract is not None:
            spec = fx.contract.loop_spec(fx.info.qual if fx.info else None, ordn, s)
        if spec is None:
            if isinstance(plan, PSeq) and isinstance(plan.n, int):
                return self.unroll(s, st, fx, plan)
            raise Unsupported("loop without invariant: %s loop #%d line %d" % (
                fx.info.qual if fx.info else "?", ordn, s.lineno))
        # static unrolling of literal tuples is handled above; here the general rule
        pre = st
        names = self.assigned_names(s.body + ([s.target] if plan is not None else []))
        label = "%s.loop%d" % (fx.info.name if fx.info else "?", ordn)
        lc = spec.ctx(self, fx, pre, plan)
        pre.ghost = dict(pre.ghost)
        pre.ghost["plans"] = pre.ghost.get("plans", ()) + ((label, plan),)
        # (1) invariant holds on entry
        i0 = z3.IntVal(0)
        from .contracts import set_mode
        set_mode("prove", pre)
        for nm, g in spec.inv(lc, pre, i0):
            self.oblige(pre, "%s.init.%s" % (label, nm), g, kind="loop-init")
        out = []

        def havoced():
            h = pre.fork()
            for nme in names:
                if nme in h.env or True:
                    h.env[nme] = fresh("lv_" + nme)
            mods = spec.modifies(lc, pre)
            for a in mods:
                cond = None
                if isinstance(a, tuple):
                    a, cond = a
                for comp in HEAP_SORTS:
                    if comp == "cls_of":
                        continue
                    new = fresh("lh_" + comp, HEAP_SORTS[comp].range())
                    if cond is not None:
                        new = z3.If(cond, new, z3.Select(h.heap[comp], a))
                    h.heap[comp] = z3.Store(h.heap[comp], a, new)
            na = fresh("alloc", I)
            h.assume(na >= pre.alloc)
            h.alloc = na
            return h, mods

        # (2) arbitrary iteration
        h, mods = havoced()
        set_mode("assume", h)
        i = fresh("it", I)
        h.assume(i >= 0)
        if plan is not None:
            h.assume(i < plan.n)
        for nm, g in spec.inv(lc, h, i):
            h.assume(g)
        allow_addrs = list(mods)

        def loop_allow(addr, A=allow_addrs):
            alts = [z3.And(addr == m[0], m[1]) if isinstance(m, tuple) else addr == m for m in A]
            return z3.Or(*alts) if alts else z3.BoolVal(False)
        fr = {"owner": label, "label": "modifies", "alloc": h.alloc, "allow": loop_allow}
        h.frames = h.frames + (fr,)
        starts = []
        if plan is not None:
            if self.feasible(h):
                cur = plan.at(h, i)
                for x in ([cur] if is_val(cur) else (cur.items if isinstance(cur, PTuple) else [])):
                    if is_val(x):
                        h.assume(z3.Not(is_absent(x)))     # iteration never yields the 'no value' marker
                for q in self.assign(s.target, cur, h, fx):
                    starts.append(q)
        else:
            for r in self.ev(s.test, h, fx):
                if r.kind != "ok":
                    r.st.frames = r.st.frames[:-1]
                    out.append(r)
                    continue
                for s2, b in self.split(r.st, self.truthy(r.st, r.val), note="while@%d" % s.lineno):
                    if b:
                        starts.append(Res("ok", s2))
        for q in starts:
            if q.kind != "ok":
                out.append(q)
                continue
            for r in self.exec_block(s.body, q.st, fx):
                r.st.frames = r.st.frames[:-1]
                if r.kind in ("ok", "cnt"):
                    if getattr(spec, "ghost_step", None):
                        spec.ghost_step(lc, r.st, i)
                    set_mode("prove", r.st)
                    for nm, g in spec.inv(lc, r.st, i + 1):
                        self.oblige(r.st, "%s.step.%s" % (label, nm), g, kind="loop-step")
                    set_mode("assume", r.st)
                    if plan is None and spec.variant is not None:
                        self.oblige(r.st, "%s.variant" % label,
                                    z3.And(spec.variant(lc, r.st) < spec.variant(lc, q.st),
                                           spec.variant(lc, q.st) >= 0), kind="termination")
                elif r.kind == "brk":
                    out.extend(self.after_loop_break(s, r.st, fx))
                else:
                    out.append(r)
        # (3) exit
        e, _ = havoced()
        set_mode("assume", e)
        if plan is not None:
            n = plan.n
            for nm, g in spec.inv(lc, e, n):
                e.assume(g)
            e.note("%s exit" % label)
            if self.feasible(e):
                out.extend(self.exec_block(s.orelse, e, fx) if s.orelse else [Res("ok", e)])
        else:
            k = fresh("itn", I)
            e.assume(k >= 0)
            for nm, g in spec.inv(lc, e, k):
                e.assume(g)
            for r in self.ev(s.test, e, fx):
                if r.kind != "ok":
                    out.append(r)
                    continue
                for s2, b in self.split(r.st, self.truthy(r.st, r.val)):
                    if not b:
                        out.extend(self.exec_block(s.orelse, s2, fx) if s.orelse else [Res("ok", s2)])
        return out

    def loop_ordinal(self, fx, s):
        """syntactic ordinal of loop statement s inside its function (source order)"""
        root = fx.info.node if fx.info is not None else None
        if root is None:
            return 0
        loops = [n for n in ast.walk(root) if isinstance(n, (ast.For, ast.While))]
        loops.sort(key=lambda n: (n.lineno, n.col_offset))
        for k, n in enumerate(loops):
            if n is s:
                return k
        return 0

    def after_loop_break(self, s, st, fx):
        return [Res("ok", st)]

    def unroll(self, s, st, fx, plan):
        """statically known, literal iteration (tuple literals): plain unrolling, no bound involved"""
        states = [Res("ok", st)]
        for k in range(plan.n):
            nxt = []
            for r in states:
                if r.kind != "ok":
                    nxt.append(r)
                    continue
                for q in self.assign(s.target, plan.at(r.st, k), r.st, fx):
                    if q.kind != "ok":
                        nxt.append(q)
                        continue
                    for b in self.exec_block(s.body, q.st, fx):
                        if b.kind in ("ok", "cnt"):
                            nxt.append(Res("ok", b.st))
                        elif b.kind == "brk":
                            nxt.append(Res("brkdone", b.st))
                        else:
                            nxt.append(b)
            states = nxt
        out = []
        for r in states:
            if r.kind == "brkdone":
                out.append(Res("ok", r.st))
            elif r.kind == "ok" and s.orelse:
                out.extend(self.exec_block(s.orelse, r.st, fx))
            else:
                out.append(r)
        return out

    def iter_plan(self, st, v, fx):
        """-> [Res(ok, st, PSeq)]: the finite sequence a `for` loop walks over (snapshot semantics)."""
        if isinstance(v, PSeq):
            return [Res("ok", st, v)]
        if isinstance(v, PTuple):
            items = list(v.items)
            return [Res("ok", st, PSeq(len(items), lambda s, k, items=items: items[k], "tuple literal"))]
        if isinstance(v, PRange):
            lo, hi = v.lo, v.hi
            n = z3.If(hi > lo, hi - lo, 0)
            return [Res("ok", st, PSeq(n, lambda s, k: vint(lo + k), "range"))]
        if self.models is None:
            raise Unsupported("iteration")
        return self.models.iter_plan(self, st, v, fx)

    # ------------------------------------------------------------------ expressions
    def ev(self, e, st, fx):
        m = getattr(self, "ex_" + type(e).__name__, None)
        if m is None:
            raise Unsupported("expression %s" % type(e).__name__)
        return m(e, st, fx)

    def ev_list(self, es, st, fx):
        """evaluate expressions left to right -> [(st, [vals])] + exceptional results"""
        acc = [(st, [])]
        excs = []
        for e in es:
            nxt = []
            for s, vals in acc:
                for r in self.ev(e, s, fx):
                    if r.kind == "ok":
                        nxt.append((r.st, vals + [r.val]))
                    else:
                        excs.append(r)
            acc = nxt
        return acc, excs

    def ex_Constant(self, e, st, fx):
        return [Res("ok", st, self.const(e.value))]

    def ex_Name(self, e, st, fx):
        return [Res("ok", st, self.lookup(e.id, st, fx))]

    def mangle(self, name, fx):
        if name.startswith("__") and not name.endswith("__") and fx.defcls:
            return "_%s%s" % (fx.defcls.name.lstrip("_"), name)
        return name

    def lookup(self, name, st, fx):
        if name in st.env:
            return st.env[name]
        if name in fx.closure:
            return fx.closure[name]
        return self.global_value(fx.module, name)

    BUILTIN_CLASSES = {"int", "bool", "float", "str", "bytes", "list", "dict", "set", "frozenset", "tuple",
                       "slice", "type", "object", "classmethod", "staticmethod",
                       "BaseException", "Exception", "TypeError", "ValueError", "IndexError", "KeyError",
                       "AttributeError", "RuntimeError", "RecursionError", "StopIteration", "LookupError",
                       "NotImplementedError", "AssertionError"}
    BUILTIN_FUNCS = {"len", "isinstance", "issubclass", "hasattr", "getattr", "setattr", "delattr", "hash",
                     "repr", "iter", "next", "any", "all", "enumerate", "range", "reversed", "super", "id",
                     "callable", "min", "max", "sorted", "vars", "exec", "print", "zip", "map", "filter", "sum"}

    def global_value(self, module, name):
        key = (module, name)
        if key in self.global_cache:
            return self.global_cache[key]
        r = self.ft.resolve_name(module, name)
        v = None
        if r is None:
            if name in self.BUILTIN_CLASSES:
                v = self.pclass(name)
            elif name in self.BUILTIN_FUNCS:
                v = PBuiltin(name)
            elif name == "NotImplemented":
                v = NOTIMPL
            elif name == "Ellipsis":
                v = ELLIPSIS
            else:
                raise Unsupported("unresolved name %s in %s" % (name, module))
        elif r[0] == "class":
            v = self.pclass(r[1].name, r[1])
        elif r[0] == "func":
            v = PFunc(r[1])
        elif r[0] == "module":
            v = PModule(r[1])
        elif r[0] == "external":
            v = self.external(r[1])
        elif r[0] == "global":
            v = self.eval_global(r[1][0], name, r[1][1])
        self.global_cache[key] = v
        return v

    EXTERNAL_CLASSES = {
        "types.ModuleType": "module", "lazy_object_proxy.Proxy": "Proxy", "typing.TypeVar": "TypeVar",
        "typing._GenericAlias": "_GenericAlias", "types.GenericAlias": "GenericAlias",
        "types.UnionType": "UnionType", "numbers.Real": "Real", "numbers.Number": "Number",
        "typing.Iterable": "Iterable", "typing.Mapping": "Mapping", "typing.Sequence": "Sequence",
        "dataclasses.Field": "Field", "types.MethodType": "method",
    }
    EXTERNAL_ATOMS = ("typing.Any", "typing.Union", "typing.Literal", "typing_extensions.Literal",
                      "inspect.Parameter.empty")

    def external(self, dotted):
        if dotted in self.EXTERNAL_CLASSES:
            return self.pclass(self.EXTERNAL_CLASSES[dotted])
        if dotted in self.EXTERNAL_ATOMS:
            nm = "<%s>" % dotted
            self.pclass(nm)
            return PClass(nm)
        mod = dotted.rsplit(".", 1)[0]
        if dotted in ("copy", "copyreg", "sys", "inspect", "functools", "types", "warnings", "builtins",
                      "typing", "numbers", "re", "ast", "textwrap", "dataclasses"):
            return PModule(dotted)
        return PBuiltin(dotted)

    def eval_global(self, module, name, expr):
        """module-level constants: only what the verified functions touch"""
        if isinstance(expr, ast.Constant):
            return self.const(expr.value)
        if isinstance(expr, ast.Call) and isinstance(expr.func, ast.Name) and expr.func.id == "object":
            key = ("global", module, name)
            if key not in self.global_addr:
                self.global_addr[key] = 100 + len(self.global_addr)
            return vref(z3.IntVal(self.global_addr[key]))
        if isinstance(expr, (ast.Tuple, ast.List)) and all(isinstance(x, ast.Constant) for x in expr.elts):
            return PTuple([self.const(x.value) for x in expr.elts])
        if isinstance(expr, ast.Name):
            return self.global_value(module, expr.id)
        return PBuiltin("%s.%s" % (module, name))

    def ex_JoinedStr(self, e, st, fx):
        """f-strings: an uninterpreted function of the template and of the *simple* parts
        (names / attribute chains); parts that call functions are dropped (opaque)."""
        tid = ast.unparse(e)
        parts = []
        cur = [Res("ok", st)]
        s = st
        for v in e.values:
            if isinstance(v, ast.FormattedValue) and self.simple_expr(v.value):
                rs = self.ev(v.value, s, fx)
                oks = [r for r in rs if r.kind == "ok"]
                if len(rs) == 1 and oks and is_val(oks[0].val):
                    parts.append(oks[0].val)
                    s = oks[0].st
        fn = fstr_func(tid, len(parts))
        sidt = fn(*parts) if parts else fn()
        return [Res("ok", s, vstr(sidt))]

    def simple_expr(self, e):
        if isinstance(e, ast.Name):
            return True
        if isinstance(e, ast.Attribute):
            return self.simple_expr(e.value) and not e.attr.startswith("__")
        return False

    def ex_Tuple(self, e, st, fx):
        if any(isinstance(x, ast.Starred) for x in e.elts):
            raise Unsupported("starred tuple")
        acc, excs = self.ev_list(e.elts, st, fx)
        return [Res("ok", s, PTuple(vals)) for s, vals in acc] + excs

    def ex_List(self, e, st, fx):
        if any(isinstance(x, ast.Starred) for x in e.elts):
            return self.models.starred_list(self, e, st, fx)
        acc, excs = self.ev_list(e.elts, st, fx)
        out = list(excs)
        for s, vals in acc:
            out.append(Res("ok", s, self.alloc_list(s, [self.to_val(s, v) for v in vals])))
        return out

    def ex_Set(self, e, st, fx):
        return self.models.set_literal(self, e, st, fx)

    def ex_Dict(self, e, st, fx):
        return self.models.dict_literal(self, e, st, fx)

    def ex_Lambda(self, e, st, fx):
        f = PFunc(None, node=e, module=fx.module, name="<lambda>")
        clo = dict(fx.closure)
        clo.update(st.env)
        f.closure = clo
        f.defcls = fx.defcls
        f.recv_cls = fx.recv_cls
        return [Res("ok", st, f)]

    def ex_IfExp(self, e, st, fx):
        out = []
        for r in self.ev(e.test, st, fx):
            if r.kind != "ok":
                out.append(r)
                continue
            for s2, b in self.split(r.st, self.truthy(r.st, r.val), note="ifexp@%d" % e.lineno):
                out.extend(self.ev(e.body if b else e.orelse, s2, fx))
        return out

    def ex_UnaryOp(self, e, st, fx):
        out = []
        for r in self.ev(e.operand, st, fx):
            if r.kind != "ok":
                out.append(r)
                continue
            if isinstance(e.op, ast.Not):
                out.append(Res("ok", r.st, vbool(z3.Not(self.truthy(r.st, r.val)))))
            elif isinstance(e.op, ast.USub):
                v = r.val
                out.append(Res("ok", r.st, z3.If(is_int(v), vint(-i_of(v)), vreal(-num_of(v)))))
            else:
                raise Unsupported("unary op")
        return out

    def pure(self, e):
        """side-effect free & non-raising operand shapes for ite-merging of and/or"""
        if isinstance(e, (ast.Name, ast.Constant)):
            return True
        if isinstance(e, ast.UnaryOp) and isinstance(e.op, ast.Not):
            return self.pure(e.operand)
        if isinstance(e, ast.BoolOp):
            return all(self.pure(v) for v in e.values)
        if isinstance(e, ast.Compare) and all(isinstance(o, (ast.Is, ast.IsNot)) for o in e.ops):
            return self.pure(e.left) and all(self.pure(c) for c in e.comparators)
        return False

    def ex_BoolOp(self, e, st, fx):
        """Python value semantics: `a and b` yields a or b.  Pure operands are merged into one ite term
        (no path split); the rest is evaluated lazily with a split per operand."""
        is_and = isinstance(e.op, ast.And)

        def go(idx, st):
            first = e.values[idx]
            rs = self.ev(first, st, fx)
            if idx == len(e.values) - 1:
                return rs
            out = []
            for r in rs:
                if r.kind != "ok":
                    out.append(r)
                    continue
                t = self.truthy(r.st, r.val)
                rest = e.values[idx + 1:]
                if all(self.pure(x) for x in rest) and (is_val(r.val) or isinstance(r.val, (PClass,))):
                    # merge: evaluate the remaining pure operands in the same state
                    sub = go(idx + 1, r.st)
                    if len(sub) == 1 and sub[0].kind == "ok":
                        try:
                            a = self.to_val(r.st, r.val)
                            b = self.to_val(sub[0].st, sub[0].val)
                            tt = z3.simplify(t)
                            if z3.is_true(tt):
                                out.append(Res("ok", sub[0].st, b if is_and else a))
                            elif z3.is_false(tt):
                                out.append(Res("ok", sub[0].st, a if is_and else b))
                            else:
                                out.append(Res("ok", sub[0].st, z3.If(t, b, a) if is_and else z3.If(t, a, b)))
                            continue
                        except Unsupported:
                            pass
                for s2, b in self.split(r.st, t, note="%s@%d" % ("and" if is_and else "or", e.lineno)):
                    if b == is_and:
                        out.extend(go(idx + 1, s2))
                    else:
                        out.append(Res("ok", s2, r.val))
            return out
        return go(0, st)

    def ex_Compare(self, e, st, fx):
        def go(left, ops, comps, st):
            out = []
            for r in self.ev(comps[0], st, fx):
                if r.kind != "ok":
                    out.append(r)
                    continue
                for q in self.compare(r.st, left, ops[0], r.val, fx):
                    if q.kind != "ok" or len(ops) == 1:
                        out.append(q)
                        continue
                    for s2, b in self.split(q.st, self.truthy(q.st, q.val)):
                        if not b:
                            out.append(Res("ok", s2, q.val))
                        else:
                            out.extend(go(r.val, ops[1:], comps[1:], s2))
            return out
        out = []
        for r in self.ev(e.left, st, fx):
            out.extend(go(r.val, e.ops, e.comparators, r.st) if r.kind == "ok" else [r])
        return out

    def same(self, st, a, b):
        """identity (`is`)"""
        if is_val(a) and is_val(b):
            return a == b
        if isinstance(a, PClass) and isinstance(b, PClass):
            return z3.BoolVal(a.name == b.name)
        if is_val(a) and isinstance(b, PClass):
            return a == self.to_val(st, b)
        if isinstance(a, PClass) and is_val(b):
            return b == self.to_val(st, a)
        if isinstance(a, (PFunc, PBound, PBuiltin)) or isinstance(b, (PFunc, PBound, PBuiltin)):
            if is_val(a) or is_val(b):
                return z3.BoolVal(False) if not (is_val(a) and is_val(b)) else a == b
            return z3.BoolVal(a is b or (isinstance(a, PBuiltin) and isinstance(b, PBuiltin) and a.name == b.name)
                              or (isinstance(a, PFunc) and isinstance(b, PFunc) and a.node is b.node))
        if a is None or b is None:
            return self.same(st, NONE if a is None else a, NONE if b is None else b)
        if isinstance(a, PTuple) or isinstance(b, PTuple):
            return z3.BoolVal(a is b)
        raise Unsupported("identity of %r and %r" % (a, b))

    def compare(self, st, a, op, b, fx):
        if isinstance(op, ast.Is):
            return [Res("ok", st, vbool(self.same(st, a, b)))]
        if isinstance(op, ast.IsNot):
            return [Res("ok", st, vbool(z3.Not(self.same(st, a, b))))]
        if isinstance(op, (ast.In, ast.NotIn)):
            out = []
            for r in self.contains(st, b, a, fx):
                if r.kind == "ok" and isinstance(op, ast.NotIn):
                    out.append(Res("ok", r.st, vbool(z3.Not(self.truthy(r.st, r.val)))))
                else:
                    out.append(r)
            return out
        if isinstance(op, (ast.Eq, ast.NotEq)):
            out = []
            for r in self.equals(st, a, b, fx):
                if r.kind == "ok" and isinstance(op, ast.NotEq):
                    out.append(Res("ok", r.st, vbool(z3.Not(self.truthy(r.st, r.val)))))
                else:
                    out.append(r)
            return out
        if isinstance(a, PBuiltin) and a.name == "sys.version_info" and isinstance(b, PTuple):
            try:
                want = tuple(z3.simplify(i_of(x)).as_long() for x in b.items)
            except Exception:
                raise Unsupported("sys.version_info comparison")
            cur = (3, 12)
            r = {ast.Lt: cur < want, ast.LtE: cur <= want, ast.Gt: cur > want, ast.GtE: cur >= want}[type(op)]
            return [Res("ok", st, vbool(z3.BoolVal(r)))]
        # ordering: numeric only
        if isinstance(a, (int,)):
            a = self.const(a)
        if not (is_val(a) and is_val(b)):
            raise Unsupported("ordering of non-values")
        if not self.valid(st, z3.And(numlike(a), numlike(b))):
            raise Unsupported("ordering comparison of values not known to be numeric (line %d)" % getattr(op, "lineno", 0))
        x, y = num_of(a), num_of(b)
        if self.valid(st, z3.And(is_int(a), is_int(b))):
            x, y = i_of(a), i_of(b)
        t = {ast.Lt: x < y, ast.LtE: x <= y, ast.Gt: x > y, ast.GtE: x >= y}[type(op)]
        return [Res("ok", st, vbool(t))]

    def equals(self, st, a, b, fx):
        if isinstance(a, PClass) or isinstance(b, PClass) or isinstance(a, PTuple) or isinstance(b, PTuple):
            if isinstance(a, PTuple) and isinstance(b, PTuple):
                if len(a.items) != len(b.items):
                    return [Res("ok", st, vbool(z3.BoolVal(False)))]
                conj = []
                for x, y in zip(a.items, b.items):
                    conj.append(py_eq(self.to_val(st, x), self.to_val(st, y)))
                return [Res("ok", st, vbool(z3.And(*conj) if conj else z3.BoolVal(True)))]
            a, b = self.to_val(st, a), self.to_val(st, b)
        if is_val(a) and is_val(b):
            if self.models is not None:
                r = self.models.equals(self, st, a, b, fx)
                if r is not None:
                    return r
            from .vals import kn_axioms
            st.assume(*kn_axioms([a, b]))
            return [Res("ok", st, vbool(py_eq(a, b)))]
        return [Res("ok", st, vbool(self.same(st, a, b)))]

    def ex_BinOp(self, e, st, fx):
        out = []
        acc, excs = self.ev_list([e.left, e.right], st, fx)
        out.extend(excs)
        for s, (a, b) in acc:
            out.extend(self.binop(s, a, e.op, b, fx, e))
        return out

    def binop(self, st, a, op, b, fx, node=None):
        if self.models is not None:
            r = self.models.binop(self, st, a, op, b, fx, node)
            if r is not None:
                return r
        if is_val(a) and is_val(b):
            if self.valid(st, z3.And(is_int(a), is_int(b))):
                x, y = i_of(a), i_of(b)
                if isinstance(op, ast.Add):
                    return [Res("ok", st, vint(x + y))]
                if isinstance(op, ast.Sub):
                    return [Res("ok", st, vint(x - y))]
                if isinstance(op, ast.Mult):
                    return [Res("ok", st, vint(x * y))]
                if isinstance(op, ast.FloorDiv):
                    if self.valid(st, y > 0):
                        return [Res("ok", st, vint(x / y))]     # z3 int division floors for positive divisors
        raise Unsupported("binary operator %s on %r, %r" % (type(op).__name__, a, b))

    def ex_Attribute(self, e, st, fx):
        out = []
        for r in self.ev(e.value, st, fx):
            if r.kind != "ok":
                out.append(r)
                continue
            out.extend(self.getattr_(r.st, r.val, self.mangle(e.attr, fx), fx))
        return out

    def ev_index(self, sl, st, fx):
        if isinstance(sl, ast.Slice):
            parts = []
            s = st
            for p in (sl.lower, sl.upper, sl.step):
                if p is None:
                    parts.append(NONE)
                else:
                    rs = self.ev(p, s, fx)
                    if len(rs) != 1 or rs[0].kind != "ok":
                        raise Unsupported("slice bound with side effects")
                    parts.append(self.to_val(rs[0].st, rs[0].val))
                    s = rs[0].st
            v = self.alloc_obj(s, "slice", {"start": parts[0], "stop": parts[1], "step": parts[2]})
            return [Res("ok", s, v)]
        return self.ev(sl, st, fx)

    def ex_Subscript(self, e, st, fx):
        out = []
        for r in self.ev(e.value, st, fx):
            if r.kind != "ok":
                out.append(r)
                continue
            for r2 in self.ev_index(e.slice, r.st, fx):
                if r2.kind != "ok":
                    out.append(r2)
                    continue
                out.extend(self.getitem(r2.st, r.val, r2.val, fx))
        return out

    def ex_ListComp(self, e, st, fx):
        return self.models.comprehension(self, e, st, fx, "list")

    def ex_SetComp(self, e, st, fx):
        return self.models.comprehension(self, e, st, fx, "set")

    def ex_DictComp(self, e, st, fx):
        return self.models.comprehension(self, e, st, fx, "dict")

    def ex_GeneratorExp(self, e, st, fx):
        return self.models.comprehension(self, e, st, fx, "gen")

    def ex_Starred(self, e, st, fx):
        raise Unsupported("starred expression")

    def pure_quantifier(self, e, st, fx):
        """any(<elt> for x in <seq>) / all(...) where evaluating <elt> has no effect: an exists/forall term"""
        g = e.args[0]
        if len(g.generators) != 1 or g.generators[0].ifs or not isinstance(g.generators[0].target, ast.Name):
            raise Unsupported("any/all over a complex generator expression")
        is_any = e.func.id == "any"
        out = []
        for r in self.ev(g.generators[0].iter, st, fx):
            if r.kind != "ok":
                out.append(r)
                continue
            for r2 in self.iter_plan(r.st, r.val, fx):
                if r2.kind != "ok":
                    out.append(r2)
                    continue
                p, s0 = r2.val, r2.st
                i = fresh("qi", I)
                probe = s0.fork()
                probe.assume(i >= 0, i < p.n)
                probe.env = dict(probe.env)
                probe.env[g.generators[0].target.id] = p.at(probe, i)
                nob = len(self.obligations)
                rs = self.ev(g.elt, probe, fx)
                if len(rs) != 1 or rs[0].kind != "ok" or any(not rs[0].st.heap[c].eq(s0.heap[c]) for c in s0.heap):
                    raise Unsupported("any/all over an element expression with effects or several outcomes")
                # facts learnt while evaluating the element (callee postconditions) hold for every index
                extra = rs[0].st.pc[len(probe.pc):]
                t = self.truthy(rs[0].st, rs[0].val)
                rng = z3.And(i >= 0, i < p.n)
                if isinstance(p.n, int):
                    rng = z3.And(i >= 0, i < z3.IntVal(p.n))
                # what the callees guarantee holds for every index (their preconditions are obliged for every index)
                if extra:
                    s0.assume(z3.ForAll([i], z3.Implies(rng, z3.And(*extra))))
                q = z3.Exists([i], z3.And(rng, t)) if is_any else z3.ForAll([i], z3.Implies(rng, t))
                for ob in self.obligations[nob:]:
                    ob.hyps = list(ob.hyps)          # call-pre obligations inside the element: for every index
                out.append(Res("ok", s0, vbool(q)))
        return out

    def ex_Call(self, e, st, fx):
        if (isinstance(e.func, ast.Name) and e.func.id in ("any", "all") and len(e.args) == 1 and not e.keywords
                and isinstance(e.args[0], ast.GeneratorExp) and e.func.id not in st.env):
            return self.pure_quantifier(e, st, fx)
        # super() needs the static context
        if isinstance(e.func, ast.Name) and e.func.id == "super" and not e.args and "super" not in st.env:
            if fx.defcls is None:
                raise Unsupported("super() outside a class")
            recv = st.env.get(fx.info.node.args.args[0].arg) if fx.info and fx.info.node.args.args else None
            is_cls = fx.info is not None and (fx.info.kind == "classmethod" or fx.info.name == "__new__")
            return [Res("ok", st, PSuper(fx.defcls.qual, recv, fx.recv_cls, is_cls))]
        out = []
        for r in self.ev(e.func, st, fx):
            if r.kind != "ok":
                out.append(r)
                continue
            f = r.val
            # arguments
            accs = [(r.st, [], {})]
            excs = []
            for a in e.args:
                nxt = []
                for s, pos, kw in accs:
                    if isinstance(a, ast.Starred):
                        for q in self.ev(a.value, s, fx):
                            if q.kind != "ok":
                                excs.append(q)
                                continue
                            items = self.star_items(q.st, q.val)
                            nxt.append((q.st, pos + items, kw))
                    else:
                        for q in self.ev(a, s, fx):
                            if q.kind != "ok":
                                excs.append(q)
                            else:
                                nxt.append((q.st, pos + [q.val], kw))
                accs = nxt
            for k in e.keywords:
                nxt = []
                for s, pos, kw in accs:
                    for q in self.ev(k.value, s, fx):
                        if q.kind != "ok":
                            excs.append(q)
                            continue
                        if k.arg is None:
                            kw2 = dict(kw)
                            extra = self.starstar_items(q.st, q.val)
                            if isinstance(extra, dict):
                                kw2.update(extra)
                            else:
                                kw2["**"] = extra
                            nxt.append((q.st, pos, kw2))
                        else:
                            kw2 = dict(kw)
                            kw2[k.arg] = q.val
                            nxt.append((q.st, pos, kw2))
                accs = nxt
            out.extend(excs)
            for s, pos, kw in accs:
                self.site.append("L%d" % e.lineno)
                try:
                    out.extend(self.call(s, f, pos, kw, fx, node=e))
                finally:
                    self.site.pop()
        return out

    def star_items(self, st, v):
        if isinstance(v, PTuple):
            return list(v.items)
        if isinstance(v, PExcArgs):
            return list(v.items)
        raise Unsupported("*args of a symbolic sequence")

    def starstar_items(self, st, v):
        if isinstance(v, PKwargs):
            if v.rest is None:
                return dict(v.items)
            return v
        if isinstance(v, dict):
            return v
        if is_val(v):
            return v            # a symbolic dict: handed to the callee as kw["**"] (only unknown callables accept it)
        raise Unsupported("**kwargs of a symbolic mapping")

    # ------------------------------------------------------------------ calls
    def contract_for(self, f, recv_cls=None):
        if isinstance(f, PFunc) and f.info is not None:
            c = self.contracts.get((f.info.qual, recv_cls)) or self.contracts.get(f.info.qual)
            return c
        return None

    def call(self, st, f, pos, kw, fx, node=None):
        if isinstance(f, PPartial):
            kw2 = dict(f.kwargs)
            kw2.update(kw)
            return self.call(st, f.func, f.args + list(pos), kw2, fx, node)
        if isinstance(f, PBound):
            return self.call_func(st, f.func, [f.selfval] + list(pos), kw, fx, recv_cls=f.recv_cls)
        if isinstance(f, PFunc):
            return self.call_func(st, f, list(pos), kw, fx, recv_cls=getattr(f, "recv_cls", None))
        if isinstance(f, PBuiltin):
            return self.models.builtin(self, st, f.name, pos, kw, fx, node)
        if type(f).__name__ == "PMeth":
            return self.models.method_call(self, st, f.recv, f.name, pos, kw, fx)
        if hasattr(f, "pcall"):
            return f.pcall(self, st, pos, kw, fx)          # engine-level objects defined by contract modules
        if isinstance(f, PClass):
            return self.instantiate(st, f, pos, kw, fx)
        if is_val(f):
            return self.models.call_value(self, st, f, pos, kw, fx)
        raise Unsupported("call of %r" % (f,))

    def call_func(self, st, f, pos, kw, fx, recv_cls=None):
        if not isinstance(f, PFunc):
            return self.call(st, f, pos, kw, fx)
        con = self.contract_for(f, recv_cls)
        if con is not None and not (self.cur_target is con and fx.depth == 0 and False):
            self.stats["by_contract"].add(f.qual)
            return con.apply(self, st, f, pos, kw, fx, recv_cls)
        if f.info is not None and f.info.is_generator:
            raise Unsupported("generator %s without contract" % f.qual)
        if fx.depth >= self.MAX_INLINE:
            raise Unsupported("inline depth exceeded at %s" % f.qual)
        if f.info is not None:
            self.stats["inlined"].add(f.qual)
            self.callee_hashes[f.qual] = f.info.sha
        return self.run(st, f, pos, kw, fx.depth + 1, recv_cls=recv_cls)

    def bind_args(self, st, f, pos, kw, fx2):
        """Python argument binding for a def/lambda node -> env dict or a TypeError result"""
        a = f.node.args
        env = {}
        params = [p.arg for p in a.posonlyargs + a.args]
        pos = list(pos)
        kw = dict(kw)
        rest = kw.pop("**", None)
        defaults = a.defaults
        ndef = len(defaults)
        for i, p in enumerate(params):
            if i < len(pos):
                env[p] = pos[i]
                if p in kw:
                    return None, "multiple values for argument %s" % p
            elif p in kw:
                env[p] = kw.pop(p)
            else:
                di = i - (len(params) - ndef)
                if di >= 0:
                    env[p] = ("default", defaults[di])
                else:
                    return None, "missing argument %s" % p
        extra = pos[len(params):]
        if a.vararg:
            env[a.vararg.arg] = PTuple(extra)
        elif extra:
            return None, "too many positional arguments"
        for p, d in zip(a.kwonlyargs, a.kw_defaults):
            if p.arg in kw:
                env[p.arg] = kw.pop(p.arg)
            elif d is not None:
                env[p.arg] = ("default", d)
            else:
                return None, "missing keyword-only argument %s" % p.arg
        if a.kwarg:
            env[a.kwarg.arg] = PKwargs(kw, rest.rest if isinstance(rest, PKwargs) else None)
            if isinstance(rest, PKwargs):
                env[a.kwarg.arg].items.update(rest.items)
                env[a.kwarg.arg].rest_nonempty = getattr(rest, "rest_nonempty", z3.BoolVal(False))
        elif kw:
            return None, "unexpected keyword arguments %s" % sorted(kw)
        elif rest is not None:
            raise Unsupported("symbolic **kwargs passed to a function without **kwargs")
        return env, None

    def run(self, st, f, pos, kw, depth, recv_cls=None, contract=None):
        """execute the body of a known function -> [Res ok(value) | exc]"""
        defcls = f.owner if f.owner is not None else getattr(f, "defcls", None)
        if recv_cls is None and defcls is not None and f.info is not None and f.info.kind != "staticmethod":
            recv_cls = defcls.qual
        fx2 = Fctx(f.module, f.closure, recv_cls, f.info, contract, depth, defcls)
        env, err = self.bind_args(st, f, pos, kw, fx2)
        if env is None:
            return [self.exc(st, "TypeError", note=err)]
        st = st.fork()
        saved = st.env
        st.env = {}
        # defaults are evaluated in the defining scope
        for k, v in list(env.items()):
            if isinstance(v, tuple) and len(v) == 2 and v[0] == "default":
                rs = self.ev(v[1], st, Fctx(f.module, f.closure, recv_cls, f.info, None, depth, defcls))
                if len(rs) != 1 or rs[0].kind != "ok":
                    raise Unsupported("default argument with effects")
                env[k] = rs[0].val
        st.env = env
        if isinstance(f.node, ast.Lambda):
            rs = [Res("ret", r.st, r.val) if r.kind == "ok" else r for r in self.ev(f.node.body, st, fx2)]
        else:
            rs = self.exec_block(f.node.body, st, fx2)
        out = []
        for r in rs:
            self.stats["paths"] += 1
            if r.kind == "ok":
                r = Res("ok", r.st, NONE)
            elif r.kind == "ret":
                r = Res("ok", r.st, r.val)
            elif r.kind != "exc":
                raise Unsupported("stray %s" % r.kind)
            r.st.env = dict(saved)        # every outcome gets its own copy of the caller's locals
            out.append(r)
        return out

    def instantiate(self, st, c, pos, kw, fx):
        if c.info is None:
            return self.models.builtin_class(self, st, c, pos, kw, fx)
        if c.name in CLS.ids and CLS.is_sub(c.name, "BaseException"):
            return [Res("ok", st, PExc(c.name, None, pos))]        # exception classes of the repository
        qual = c.info.qual
        con = self.contracts.get(("new", qual))
        if con is not None:
            return con.apply(self, st, c, pos, kw, fx, qual)
        new = self.ft.lookup_method(qual, "__new__")
        out = []
        if new and new[0] == "method":
            rs = self.call_func(st, PFunc(new[1]), [c] + list(pos), kw, fx, recv_cls=qual)
        else:
            s2 = st.fork()
            rs = [Res("ok", s2, self.alloc_obj(s2, c.name))]
        for r in rs:
            if r.kind != "ok":
                out.append(r)
                continue
            obj = r.val
            init = self.ft.lookup_method(qual, "__init__")
            if init and init[0] == "method":
                for q in self.call_func(r.st, PFunc(init[1]), [obj] + list(pos), kw, fx, recv_cls=qual):
                    out.append(Res("ok", q.st, obj) if q.kind == "ok" else q)
            else:
                out.append(Res("ok", r.st, obj))
        return out

    def call_method(self, st, obj, name, pos, kw, fx):
        out = []
        for r in self.getattr_(st, obj, name, fx):
            if r.kind != "ok":
                out.append(r)
                continue
            out.extend(self.call(r.st, r.val, pos, kw, fx))
        return out

    # ------------------------------------------------------------------ attributes & items: delegated
    def static_class(self, st, v):
        """class qual of a Val when the path condition pins it to a class of the function table"""
        if not is_val(v):
            return None
        c = z3.simplify(st.get("cls_of", a_of(v)))
        isr = z3.simplify(is_ref(v))
        if z3.is_false(isr):
            return None
        name = None
        if z3.is_int_value(c):
            name = CLS.rev.get(c.as_long())
        else:
            key = ("sc", v.sexpr(), len(st.pc), st.heap["cls_of"].get_id())
            hit = self.global_cache.get(key)
            if hit is not None and hit[0].eq(st.heap["cls_of"]) and all(x.eq(y) for x, y in zip(hit[1], st.pc)):
                return hit[2]
            s = self.solver(qf=True)
            s.add(*st.qf_pc())
            self.stats["feas"] += 1
            if s.check() == z3.sat:
                mv = s.model().eval(st.get("cls_of", a_of(v)), model_completion=True)
                if z3.is_int_value(mv) and mv.as_long() in CLS.rev:
                    if self.valid(st, z3.And(is_ref(v), st.get("cls_of", a_of(v)) == mv)):
                        name = CLS.rev[mv.as_long()]
            if name is not None and not z3.is_true(isr) and not self.valid(st, is_ref(v)):
                name = None
            self.global_cache[key] = (st.heap["cls_of"], list(st.pc), name)
            return name
        if name is None:
            return None
        if not z3.is_true(isr) and not self.valid(st, is_ref(v)):
            return None
        return name

    def class_info(self, name):
        cis = self.ft.by_classname.get(name)
        if cis and len(cis) == 1:
            return cis[0]
        return None

    def getattr_(self, st, obj, name, fx):
        return self.models.getattr_(self, st, obj, name, fx)

    def setattr_(self, st, obj, name, val, fx):
        return self.models.setattr_(self, st, obj, name, val, fx)

    def delattr_(self, st, obj, name, fx):
        return self.models.delattr_(self, st, obj, name, fx)

    def getitem(self, st, obj, idx, fx):
        return self.models.getitem(self, st, obj, idx, fx)

    def setitem(self, st, obj, idx, val, fx):
        return self.models.setitem(self, st, obj, idx, val, fx)

    def delitem(self, st, obj, idx, fx):
        return self.models.delitem(self, st, obj, idx, fx)

    def contains(self, st, container, item, fx):
        return self.models.contains(self, st, container, item, fx)


class PExcArgs(PTuple):
    pass
