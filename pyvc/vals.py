"""Value and heap sorts of the pyvc encoding (see DESIGN.md section 4).

Everything here is *encoding*, none of it is derived from /repo.
"""
import z3

I = z3.IntSort()
B = z3.BoolSort()
R = z3.RealSort()

_Val = z3.Datatype("Val")
_Val.declare("none")
_Val.declare("absent")                 # "no value": missing dict slot / unbound attribute
_Val.declare("bool", ("b", B))
_Val.declare("int", ("i", I))
_Val.declare("real", ("r", R))
_Val.declare("str", ("s", I))          # interned string id (see StrTab)
_Val.declare("ref", ("a", I))          # heap object
_Val.declare("cls", ("c", I))          # class object (sentinels MISSING/EMPTY/... are classes)
Val = _Val.create()

NONE = Val.none
ABSENT = Val.absent
vbool, vint, vreal, vstr, vref, vcls = Val.bool, Val.int, Val.real, Val.str, Val.ref, Val.cls
is_none, is_absent, is_bool, is_int, is_real, is_str, is_ref, is_cls = (
    Val.is_none, Val.is_absent, Val.is_bool, Val.is_int, Val.is_real, Val.is_str,
    Val.is_ref, Val.is_cls)
b_of, i_of, r_of, s_of, a_of, c_of = Val.b, Val.i, Val.r, Val.s, Val.a, Val.c

ArrIV = z3.ArraySort(I, Val)          # int -> Val   (list elements, attribute dict by string id)
ArrVB = z3.ArraySort(Val, B)
ArrVV = z3.ArraySort(Val, Val)


class StrTab:
    """Interned string ids: literals get fixed distinct ids; '' is 0."""
    def __init__(self):
        self.ids = {"": 0}
        self.rev = {0: ""}

    def sid(self, s):
        if s not in self.ids:
            n = len(self.ids)
            self.ids[s] = n
            self.rev[n] = s
        return self.ids[s]

    def val(self, s):
        return vstr(z3.IntVal(self.sid(s)))


STR = StrTab()


class ClsTab:
    """Class ids for statically known classes; bases for the subclass relation."""
    def __init__(self):
        self.ids = {}
        self.rev = {}
        self.bases = {}

    def add(self, name, bases=()):
        if name not in self.ids:
            n = len(self.ids) + 1
            self.ids[name] = n
            self.rev[n] = name
            self.bases[name] = tuple(bases)
        return self.ids[name]

    def cid(self, name):
        if name not in self.ids:
            raise KeyError("unknown class " + name)
        return self.ids[name]

    def val(self, name):
        return vcls(z3.IntVal(self.cid(name)))

    def mro_set(self, name):
        out, todo = [], [name]
        while todo:
            n = todo.pop(0)
            if n in out:
                continue
            out.append(n)
            todo.extend(self.bases.get(n, ()))
        return out

    def is_sub(self, a, b):
        return b in self.mro_set(a)


CLS = ClsTab()
for _n, _b in [
    ("object", ()), ("type", ("object",)), ("NoneType", ("object",)),
    ("int", ("object",)), ("bool", ("int",)), ("float", ("object",)), ("str", ("object",)),
    ("bytes", ("object",)), ("list", ("object",)), ("dict", ("object",)), ("set", ("object",)),
    ("frozenset", ("object",)), ("tuple", ("object",)), ("slice", ("object",)),
    ("function", ("object",)), ("method", ("object",)), ("module", ("object",)),
    ("classmethod", ("object",)), ("staticmethod", ("object",)),
    ("BaseException", ("object",)), ("Exception", ("BaseException",)),
    ("TypeError", ("Exception",)), ("ValueError", ("Exception",)),
    ("LookupError", ("Exception",)), ("IndexError", ("LookupError",)),
    ("KeyError", ("LookupError",)), ("AttributeError", ("Exception",)),
    ("RuntimeError", ("Exception",)), ("RecursionError", ("RuntimeError",)),
    ("NotImplementedError", ("RuntimeError",)), ("StopIteration", ("Exception",)),
    ("AssertionError", ("Exception",)),
    ("NotImplementedType", ("object",)), ("ellipsis", ("object",)),
    ("dict_keys", ("object",)), ("dict_items", ("object",)), ("dict_values", ("object",)),
]:
    CLS.add(_n, _b)

# the singletons NotImplemented / Ellipsis are modelled as class-like atoms
NOTIMPL = vcls(z3.IntVal(CLS.cid("NotImplementedType")))
ELLIPSIS = vcls(z3.IntVal(CLS.cid("ellipsis")))

# uninterpreted symbols shared by all queries
subcls = z3.Function("subcls", I, I, B)            # class c1 is a subclass of c2
kn = z3.Function("kn", Val, Val)                   # canonical form under Python ==/hash (A-EQ)
utruthy = z3.Function("utruthy", I, B)             # truth value of foreign objects
hashable = z3.Function("hashable", Val, B)         # hash(v) does not raise


def numlike(v):
    return z3.Or(is_bool(v), is_int(v), is_real(v))


def num_of(v):
    return z3.If(is_bool(v), z3.If(b_of(v), z3.RealVal(1), z3.RealVal(0)),
                 z3.If(is_int(v), z3.ToReal(i_of(v)), r_of(v)))


def py_eq(a, b):
    """Python a == b under A-EQ: equality of canonical forms (kn).  bool/int are identified by the kn
    axioms; int/float cross-type equality (1 == 1.0) is not modelled (A-FLOAT)."""
    if a.eq(b):
        return z3.BoolVal(True)
    return kn(a) == kn(b)


def key_norm(v):
    """dict/set key canonicalisation: 1 == True == 1.0 collapse; other values through kn."""
    return kn(v)


def kn_axioms(vs):
    """ground instances of the kn axioms (the quantified versions are in Engine.base_axioms);
    they make the quantifier-free pruning solver as informed as the full one for these terms"""
    out = []
    for v in vs:
        out.append(kn(kn(v)) == kn(v))
        out.append(z3.Implies(z3.Or(is_none(v), is_str(v), is_cls(v), is_int(v), is_absent(v), is_real(v)), kn(v) == v))
        out.append(z3.Implies(is_bool(v), kn(v) == vint(z3.If(b_of(v), 1, 0))))
        out.append(z3.Implies(is_ref(v), is_ref(kn(v))))
    return out


ID_OF = z3.Function("id_of", Val, I)          # id(x)
