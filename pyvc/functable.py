"""Extraction: parse the *current* /repo working tree (and the interpreter's own
_collections_abc.py) into a table of classes and functions.  Nothing is imported
or executed.  Every function source consumed is hashed for the evidence.

Dropped by extraction (see DESIGN.md 2.1): docstrings, annotations, comments,
the text of f-string exception messages.  Nothing else.
"""
import ast
import hashlib
import os
import sysconfig

REPO = os.environ.get("PYVC_REPO", "/repo")
STDLIB_ABC = None


def stdlib_abc_path():
    # the abc mixins that run are those of /venv/bin/python (3.12); ask it once
    global STDLIB_ABC
    if STDLIB_ABC is None:
        p = os.environ.get("PYVC_ABC_PATH")
        if not p:
            import subprocess
            try:
                p = subprocess.check_output(
                    ["/venv/bin/python", "-c",
                     "import sysconfig;print(sysconfig.get_paths()['stdlib'])"],
                    text=True).strip() + "/_collections_abc.py"
            except Exception:
                p = sysconfig.get_paths()["stdlib"] + "/_collections_abc.py"
        STDLIB_ABC = p
    return STDLIB_ABC


class ClassInfo:
    def __init__(self, qual, module, node):
        self.qual, self.module, self.node = qual, module, node
        self.name = node.name
        self.base_exprs = node.bases
        self.bases = []          # resolved class quals / builtin names
        self.methods = {}        # name -> FuncInfo
        self.props = {}          # name -> {'get': FuncInfo, 'set': FuncInfo, 'kind': 'property'|'cached_property'}
        self.attrs = {}          # name -> ast expr (class-level constants)


class FuncInfo:
    def __init__(self, qual, module, node, cls=None):
        self.qual, self.module, self.node, self.cls = qual, module, node, cls
        self.name = node.name
        self.decorators = [ast.unparse(d) for d in node.decorator_list]
        self.kind = "function"
        for d in self.decorators:
            if d == "staticmethod":
                self.kind = "staticmethod"
            elif d == "classmethod":
                self.kind = "classmethod"
        src = ast.unparse(node)
        self.sha = hashlib.sha256(src.encode()).hexdigest()[:16]
        self.is_generator = any(isinstance(n, (ast.Yield, ast.YieldFrom)) for n in ast.walk(node))

    def __repr__(self):
        return "<func %s>" % self.qual


class ModuleInfo:
    def __init__(self, name, path, tree):
        self.name, self.path, self.tree = name, path, tree
        self.imports = {}      # local name -> (module, attr or None)
        self.functions = {}
        self.classes = {}
        self.globals = {}      # name -> ast expr


class FuncTable:
    def __init__(self, repo=REPO):
        self.repo = repo
        self.modules = {}
        self.classes = {}      # qual "mod:Class" -> ClassInfo
        self.by_classname = {}  # bare name -> ClassInfo (unique names only)
        self.load_repo()
        self.load_abc()
        self.resolve_bases()

    # ------------------------------------------------------------------
    def load_repo(self):
        root = os.path.join(self.repo, "spec_classes")
        for dp, dn, fn in os.walk(root):
            dn[:] = [d for d in dn if d != "__pycache__"]
            for f in sorted(fn):
                if not f.endswith(".py"):
                    continue
                path = os.path.join(dp, f)
                rel = os.path.relpath(path, self.repo)[:-3].replace(os.sep, ".")
                if rel.endswith(".__init__"):
                    rel = rel[: -len(".__init__")]
                self.load_module(rel, path, is_pkg=f == "__init__.py")

    def load_abc(self):
        self.load_module("_collections_abc", stdlib_abc_path())

    def load_module(self, name, path, is_pkg=False):
        with open(path, encoding="utf-8") as fh:
            src = fh.read()
        tree = ast.parse(src)
        m = ModuleInfo(name, path, tree)
        m.is_pkg = is_pkg
        self.modules[name] = m
        self._scan_body(m, tree.body)

    def _scan_body(self, m, body):
        for node in body:
            if isinstance(node, ast.Import):
                for a in node.names:
                    m.imports[a.asname or a.name.split(".")[0]] = (a.name if a.asname else a.name.split(".")[0], None)
            elif isinstance(node, ast.ImportFrom):
                mod = node.module or ""
                if node.level:
                    base = m.name.split(".")
                    if not m.is_pkg:
                        base = base[:-1]
                    base = base[: len(base) - (node.level - 1)]
                    mod = ".".join(base + ([mod] if mod else []))
                for a in node.names:
                    m.imports[a.asname or a.name] = (mod, a.name)
            elif isinstance(node, ast.FunctionDef):
                m.functions[node.name] = FuncInfo("%s:%s" % (m.name, node.name), m.name, node)
            elif isinstance(node, ast.ClassDef):
                self._scan_class(m, node)
            elif isinstance(node, ast.Assign) and len(node.targets) == 1 and isinstance(node.targets[0], ast.Name):
                m.globals[node.targets[0].id] = node.value
            elif isinstance(node, ast.AnnAssign) and isinstance(node.target, ast.Name) and node.value is not None:
                m.globals[node.target.id] = node.value
            elif isinstance(node, (ast.Try, ast.If)):
                self._scan_body(m, node.body)

    def _scan_class(self, m, node):
        qual = "%s:%s" % (m.name, node.name)
        ci = ClassInfo(qual, m.name, node)
        m.classes[node.name] = ci
        self.classes[qual] = ci
        self.by_classname.setdefault(node.name, []).append(ci)
        for st in node.body:
            if isinstance(st, ast.FunctionDef):
                fi = FuncInfo("%s:%s.%s" % (m.name, node.name, st.name), m.name, st, cls=ci)
                decs = fi.decorators
                if "property" in decs or "cached_property" in decs or "abstractproperty" in decs:
                    ci.props[st.name] = {"get": fi, "set": None,
                                         "kind": "cached_property" if "cached_property" in decs else "property"}
                elif any(d.endswith(".setter") for d in decs):
                    pn = [d for d in decs if d.endswith(".setter")][0][: -len(".setter")]
                    if pn in ci.props:
                        ci.props[pn]["set"] = fi
                else:
                    ci.methods[st.name] = fi
            elif isinstance(st, ast.Assign) and len(st.targets) == 1 and isinstance(st.targets[0], ast.Name):
                ci.attrs[st.targets[0].id] = st.value
            elif isinstance(st, ast.AnnAssign) and isinstance(st.target, ast.Name) and st.value is not None:
                ci.attrs[st.target.id] = st.value

    # ------------------------------------------------------------------
    def resolve_name(self, modname, name, depth=0):
        """Resolve a global name of a module to ('class', ClassInfo) / ('func', FuncInfo) /
        ('module', name) / ('global', (modname, expr)) / ('external', dotted) / None."""
        m = self.modules.get(modname)
        if m is None or depth > 8:
            return ("external", "%s.%s" % (modname, name))
        if name in m.classes:
            return ("class", m.classes[name])
        if name in m.functions:
            return ("func", m.functions[name])
        if name in m.globals:
            return ("global", (modname, m.globals[name]))
        if name in m.imports:
            mod, attr = m.imports[name]
            if attr is None:
                return ("module", mod)
            if mod in self.modules:
                r = self.resolve_name(mod, attr, depth + 1)
                if r and r[0] != "external":
                    return r
                sub = "%s.%s" % (mod, attr)
                if sub in self.modules:
                    return ("module", sub)
                return r
            # collections.abc re-exports _collections_abc
            if mod in ("collections.abc", "typing") and attr in self.modules["_collections_abc"].classes:
                return ("class", self.modules["_collections_abc"].classes[attr])
            return ("external", "%s.%s" % (mod, attr))
        return None

    def resolve_bases(self):
        for ci in self.classes.values():
            for b in ci.base_exprs:
                nm = None
                if isinstance(b, ast.Name):
                    nm = b.id
                elif isinstance(b, ast.Subscript) and isinstance(b.value, ast.Name):
                    nm = b.value.id          # Generic[...]
                if nm is None:
                    continue
                r = self.resolve_name(ci.module, nm)
                if r and r[0] == "class":
                    ci.bases.append(r[1].qual)
                elif nm in ("object", "RuntimeError", "BaseException", "Exception", "type"):
                    ci.bases.append(nm)
                # Generic, ABCMeta-only bases etc. are ignored

    def mro(self, qual):
        """C3 linearisation over the known classes (external bases ignored)."""
        def lin(q):
            ci = self.classes.get(q)
            if ci is None:
                return [q]
            seqs = [lin(b) for b in ci.bases] + [list(ci.bases)]
            res = [q]
            seqs = [s for s in seqs if s]
            while seqs:
                for s in seqs:
                    h = s[0]
                    if not any(h in t[1:] for t in seqs):
                        break
                else:
                    raise ValueError("inconsistent MRO for " + q)
                res.append(h)
                seqs = [[x for x in s if x != h] for s in seqs]
                seqs = [s for s in seqs if s]
            return res
        return lin(qual)

    def lookup_method(self, qual, name, after=None):
        """Find method/property `name` along the MRO of class `qual` (starting after class `after`)."""
        mro = self.mro(qual)
        if after is not None:
            mro = mro[mro.index(after) + 1:]
        for q in mro:
            ci = self.classes.get(q)
            if ci is None:
                continue
            if name in ci.methods:
                return ("method", ci.methods[name])
            if name in ci.props:
                return ("prop", ci.props[name])
            if name in ci.attrs:
                return ("attr", (ci, ci.attrs[name]))
        return None

    def func(self, qual):
        mod, _, path = qual.partition(":")
        m = self.modules[mod]
        parts = path.split(".")
        if len(parts) == 1:
            return m.functions[parts[0]]
        ci = m.classes[parts[0]]
        if parts[1] in ci.methods:
            return ci.methods[parts[1]]
        if parts[1] in ci.props:
            which = parts[2] if len(parts) > 2 else "get"
            return ci.props[parts[1]][which]
        raise KeyError(qual)

    def nested(self, qual, inner):
        """A def nested inside function `qual` (closures such as bounded.validator)."""
        fi = self.func(qual)
        for n in ast.walk(fi.node):
            if isinstance(n, ast.FunctionDef) and n.name == inner and n is not fi.node:
                return FuncInfo("%s.<locals>.%s" % (qual, inner), fi.module, n, cls=None)
        raise KeyError(inner)
