"""helpers to run the concrete harnesses (bounded stand-ins, replay search, source identity check)
as subprocesses under /venv/bin/python with the repository on PYTHONPATH."""
import json
import os
import subprocess

VERIF = os.path.dirname(os.path.dirname(os.path.abspath(__file__)))
VENV_PY = "/venv/bin/python"
REPO = os.environ.get("PYVC_REPO", "/repo")


def run_json(script, args, timeout=1800):
    env = dict(os.environ)
    env["PYTHONPATH"] = "%s:%s" % (REPO, VERIF)
    env["PYTHONDONTWRITEBYTECODE"] = "1"
    p = subprocess.run([VENV_PY, os.path.join(VERIF, script)] + [str(a) for a in args],
                       capture_output=True, text=True, timeout=timeout, env=env, cwd=VERIF)
    lines = [l for l in (p.stdout or "").strip().splitlines() if l.startswith("{")]
    if not lines:
        return {"error": "harness %s produced no result (exit %s): %s" % (script, p.returncode, (p.stderr or "")[-800:])}
    try:
        return json.loads(lines[-1])
    except Exception as e:
        return {"error": "harness %s: unparsable output %s" % (script, e)}


def standin(name, script, args, what, bound):
    """run a bounded stand-in -> record for the evidence (status ok / violation / error)"""
    r = run_json(script, args)
    rec = {"name": name, "kind": "bounded stand-in (never counted as proved)", "stands_in_for": what, "bound": bound}
    if "error" in r:
        rec.update(status="error", detail=r["error"])
    elif r.get("found"):
        rp = r.get("replay")
        if not rp:
            d = os.path.join(VERIF, "replays", "standin")
            os.makedirs(d, exist_ok=True)
            rp = os.path.join(d, name.replace("/", "_") + ".txt")
            with open(rp, "w") as fh:
                fh.write("bounded stand-in %s failed\ncommand: %s %s\n%s\n" % (name, script, " ".join(map(str, args)), json.dumps(r, indent=1)))
        rec.update(status="violation", replay=rp, failure=r.get("failure"), evaluations=r.get("cases", 0))
    else:
        rec.update(status="ok", evaluations=r.get("cases", 0), distinct=r.get("distinct", r.get("cases", 0)))
    return rec


def finder(script):
    def find(fn, violation, outdir):
        r = run_json(script, ["--find", fn or "-", outdir])
        if "error" in r:
            return {"found": False, "error": r["error"]}
        return r
    return find


def codecheck(quals, abc=False):
    """the text that was verified is the code that runs: compare the ast of the extracted functions
    with the ast of the source of the function objects imported under /venv/bin/python"""
    r = run_json("bounded/codecheck.py", [json.dumps(quals)])
    rec = {"name": "source-identity", "kind": "extraction check",
           "stands_in_for": "verified text == code that runs (module path under the repository, ast equal)"}
    if "error" in r:
        rec.update(status="error", detail=r["error"])
    elif r.get("mismatch"):
        rec.update(status="error", detail="extracted source differs from the imported function: %s" % r["mismatch"][:5])
    else:
        rec.update(status="ok", evaluations=r.get("checked", 0), distinct=r.get("checked", 0))
    return rec
