"""Models of Python built-ins and of the object protocol (A-BUILTINS in DESIGN.md section 5).

Each model is small and is cross-checked against CPython by pyvc/selftest.py.
"""
import ast
import os
import z3

from .vals import *
from .vals import py_eq as _py_eq
from .state import St, fresh, HEAP_SORTS
from .pvals import *
from .symex import Res, is_val, APP, APP_RAISES, APP_EXC, metacls, clsattr, PExcArgs, SENTINELS


ENUM_KS = z3.Function("enum_ks", ArrVB, ArrVV, ArrIV)
ENUM_POS = z3.Function("enum_pos", ArrVB, ArrVV, z3.ArraySort(Val, I))
def simple_term(t):
    """no lambda / ite / store inside (such array terms are poison as arguments of uninterpreted functions)"""
    todo, seen = [t], set()
    while todo:
        x = todo.pop()
        if x.get_id() in seen:
            continue
        seen.add(x.get_id())
        if z3.is_quantifier(x):
            return False
        if z3.is_app(x):
            if x.decl().kind() in (z3.Z3_OP_ITE, z3.Z3_OP_STORE, z3.Z3_OP_CONST_ARRAY):
                return False
            todo.extend(x.children())
    return True


def FA(vs, body, pats):
    """ForAll with patterns when they are admissible (no ite / lambda inside), without otherwise"""
    for t in pats:
        ts = t.children() if z3.is_app(t) and t.decl().name() == "pattern" else [t]
        if not all(simple_term(x) for x in ts):
            return z3.ForAll(vs, body)          # (asking z3 would print a warning per attempt)
    try:
        return z3.ForAll(vs, body, patterns=pats)
    except z3.Z3Exception:
        return z3.ForAll(vs, body)


CALLABLE_CLS = z3.Function("callable_cls", I, B)
IT_N = z3.Function("it_n", Val, I)
IT_ARR = z3.Function("it_arr", Val, ArrIV)


class PMeth:
    """bound method of a built-in container / engine-level object"""
    def __init__(self, recv, name):
        self.recv, self.name = recv, name

    def __repr__(self):
        return "PMeth(%s)" % self.name


def py_eq(a, b):
    if a.eq(b):
        return z3.BoolVal(True)
    return kn(a) == kn(b)


ABC_BUILTIN_MEMBERS = {
    "Sequence": ["list", "tuple"], "MutableSequence": ["list"],
    "Mapping": ["dict"], "MutableMapping": ["dict"],
    "Set": ["set", "frozenset"], "MutableSet": ["set"],
    "Iterable": ["list", "tuple", "dict", "set", "frozenset", "dict_keys", "dict_items", "dict_values"],
    "Collection": ["list", "tuple", "dict", "set", "frozenset"],
    "Sized": ["list", "tuple", "dict", "set", "frozenset"],
    "Container": ["list", "tuple", "dict", "set", "frozenset"],
    "Reversible": ["list", "tuple", "dict"],
}
STR_ABCS = ("Sequence", "Iterable", "Collection", "Sized", "Container", "Reversible")


class Models:
    def __init__(self):
        self.attr_hooks = {}       # name -> fn(eng, st, obj, fx) -> [Res] | None   (foreign objects)
        self.method_hooks = {}     # method name -> fn(eng, st, recv, pos, kw, fx) -> [Res] | None
        self.builtin_hooks = {}    # dotted name -> fn(eng, st, pos, kw, fx) -> [Res]
        self.truthy_hooks = []     # fn(eng, st, a, c) -> Bool | None
        self.class_call_hooks = {}  # class name -> fn(eng, st, pos, kw, fx)
        self.iter_hooks = []       # fn(eng, st, v, fx) -> [Res] | None
        self.eq_hooks = []         # fn(eng, st, a, b, fx) -> [Res] | None
        self.dynamic_class_attrs = {"__instance__"}
        self.instcheck_hooks = []  # fn(eng, st, x, C) -> Bool | None

    # ------------------------------------------------------------------ truthiness of instances
    def obj_truthy(self, eng, st, a, c):
        t = None
        for h in self.truthy_hooks:
            t = h(eng, st, a, c)
            if t is not None:
                return t
        return None

    # ------------------------------------------------------------------ isinstance
    def isinstance_(self, eng, st, x, C):
        """-> z3 Bool"""
        if isinstance(C, PTuple):
            return z3.Or(*[self.isinstance_(eng, st, x, c) for c in C.items])
        for h in self.instcheck_hooks:
            r = h(eng, st, x, C)
            if r is not None:
                return r
        if isinstance(C, PClass):
            n = C.name
            eng.known.add(n)
            if n not in CLS.ids:
                eng.pclass(n, C.info)
            if not is_val(x):
                if isinstance(x, PTuple):
                    return z3.BoolVal(n in ("tuple", "object", "Sequence", "Iterable", "Collection", "Sized", "Container", "Reversible"))
                if isinstance(x, PClass):
                    return z3.BoolVal(n in ("type", "object"))
                if isinstance(x, (PFunc,)):
                    return z3.BoolVal(n in ("function", "object"))
                if isinstance(x, PBound):
                    return z3.BoolVal(n in ("method", "object"))
                if isinstance(x, PKwargs):
                    return z3.BoolVal(n in ("dict", "object", "Mapping", "MutableMapping", "Iterable", "Collection", "Sized", "Container"))
                if isinstance(x, (PBuiltin, PModule, PPartial, PInstDict)):
                    return z3.BoolVal(n == "object" or (n == "module" and isinstance(x, PModule))
                                      or (n in ("dict", "Mapping", "MutableMapping") and isinstance(x, PInstDict)))
                raise Unsupported("isinstance of %r" % (x,))
            v = x
            if n == "object":
                return z3.BoolVal(True)
            if n == "int":
                return z3.Or(is_int(v), is_bool(v))
            if n == "bool":
                return is_bool(v)
            if n == "float":
                return is_real(v)
            if n in ("Real", "Number"):
                return numlike(v)
            if n == "str":
                return is_str(v)
            if n == "NoneType":
                return is_none(v)
            if n == "type":
                return is_cls(v)
            c = st.get("cls_of", a_of(v))
            base = z3.And(is_ref(v), subcls(c, CLS.cid(n)))
            if n in ABC_BUILTIN_MEMBERS:
                alts = [base]
                for m in ABC_BUILTIN_MEMBERS[n]:
                    alts.append(z3.And(is_ref(v), subcls(c, CLS.cid(m))))
                if n in STR_ABCS:
                    alts.append(is_str(v))
                return z3.Or(*alts)
            return base
        if is_val(C):
            if not is_val(x):
                x = eng.to_val(st, x)
            return z3.And(is_cls(C), subcls(eng.type_of(st, x), c_of(C)))
        raise Unsupported("isinstance against %r" % (C,))

    # ------------------------------------------------------------------ attribute access
    def getattr_(self, eng, st, obj, name, fx):
        if hasattr(obj, "pgetattr"):
            return obj.pgetattr(eng, st, name, fx)
        if isinstance(obj, PModule):
            return [Res("ok", st, self.module_attr(eng, st, obj, name))]
        if isinstance(obj, PClass):
            return self.class_getattr(eng, st, obj, name, fx)
        if isinstance(obj, PFunc):
            if name in obj.attrs:
                return [Res("ok", st, obj.attrs[name])]
            if name == "__name__":
                return [Res("ok", st, STR.val(obj.name))]
            if name == "__doc__":
                return [Res("ok", st, fresh("doc"))]
            return [eng.exc(st, "AttributeError", note="function has no %s" % name)]
        if isinstance(obj, PBound):
            if name == "__self__":
                return [Res("ok", st, obj.selfval)]
            if name == "__func__":
                return [Res("ok", st, obj.func)]
            return self.getattr_(eng, st, obj.func, name, fx)
        if isinstance(obj, PExc):
            if name == "args":
                return [Res("ok", st, PExcArgs(obj.args))]
            raise Unsupported("exception attribute %s" % name)
        if isinstance(obj, PClassDict):
            return [Res("ok", st, PMeth(obj, name))]
        if isinstance(obj, (PInstDict, PTuple, PKwargs, PView)):
            return [Res("ok", st, PMeth(obj, name))]
        if isinstance(obj, PSuper):
            return self.super_getattr(eng, st, obj, name, fx)
        if isinstance(obj, PBuiltin):
            return [Res("ok", st, PBuiltin(obj.name + "." + name))]
        if isinstance(obj, PPartial):
            raise Unsupported("attribute of partial")
        if is_val(obj):
            return self.val_getattr(eng, st, obj, name, fx)
        raise Unsupported("getattr on %r" % (obj,))

    def module_attr(self, eng, st, m, name):
        if m.name in eng.ft.modules:
            return eng.global_value(m.name, name)
        dotted = "%s.%s" % (m.name, name)
        if dotted == "copyreg.dispatch_table":
            return self.global_object(eng, st, dotted, "dict")
        return eng.external(dotted)

    def global_object(self, eng, st, key, clsname):
        if key not in eng.global_addr:
            eng.global_addr[key] = 100 + len(eng.global_addr)
        a = z3.IntVal(eng.global_addr[key])
        st.assume(st.get("cls_of", a) == CLS.cid(clsname))
        return vref(a)

    def class_getattr(self, eng, st, c, name, fx):
        if name == "__name__":
            return [Res("ok", st, STR.val(c.name))]
        cid = CLS.cid(c.name) if c.name in CLS.ids else CLS.add(c.name, ("object",))
        if name in self.dynamic_class_attrs:
            v = z3.Select(st.get("cdict", z3.IntVal(cid)), STR.sid(name))
            out = []
            for s2, b in eng.split(st, is_absent(v), note="class attr %s missing" % name):
                if b:
                    out.append(eng.exc(s2, "AttributeError", note="%s.%s" % (c.name, name)))
                else:
                    out.append(Res("ok", s2, v))
            return out
        if c.info is not None:
            r = eng.ft.lookup_method(c.info.qual, name)
            if r is not None:
                if r[0] == "method":
                    f = PFunc(r[1])
                    if r[1].kind == "classmethod":
                        return [Res("ok", st, PBound(f, c, c.info.qual))]
                    return [Res("ok", st, f)]
                if r[0] == "attr":
                    ci, expr = r[1]
                    rs = eng.ev(expr, st, type(fx)(ci.module, {}, None, None, None, fx.depth, ci))
                    return rs
                raise Unsupported("property object access %s.%s" % (c.name, name))
            if name in ("__new__",):
                return [Res("ok", st, PBuiltin("object.__new__"))]
        if name in ("__args__", "__origin__", "__spec_class__", "__orig_class__"):
            return [eng.exc(st, "AttributeError", note="%s.%s" % (c.name, name))]
        raise Unsupported("class attribute %s.%s" % (c.name, name))

    def super_getattr(self, eng, st, sp, name, fx):
        r = eng.ft.lookup_method(sp.recv_cls or sp.cls_qual, name, after=sp.cls_qual)
        if r is not None and r[0] == "method":
            f = PFunc(r[1])
            if name == "__new__":
                return [Res("ok", st, f)]
            return [Res("ok", st, PBound(f, sp.selfval, sp.recv_cls))]
        if name in ("__new__", "__init__", "__setattr__", "__delattr__", "__init_subclass__"):
            b = PBuiltin("object." + name)
            if name == "__new__":
                return [Res("ok", st, b)]
            return [Res("ok", st, PPartial(b, [sp.selfval], {}))]
        raise Unsupported("super().%s" % name)

    def val_getattr(self, eng, st, v, name, fx):
        if name == "__class__":
            return [Res("ok", st, self.class_of(eng, st, v))]
        if name == "__dict__":
            if eng.valid(st, is_cls(v)):
                return [Res("ok", st, PClassDict(c_of(v)))]          # the own namespace of a class value
            return [Res("ok", st, PInstDict(a_of(v)))]
        h = self.attr_hooks.get(("pre", name))
        if h is not None:
            r = h(eng, st, v, fx)          # a contract module's model of this attribute takes precedence
            if r is not None:
                return r
        k = eng.static_class(st, v)
        if k is not None:
            ci = eng.class_info(k)
            if ci is not None:
                return self.inst_getattr(eng, st, v, k, ci, name, fx)
            if k in ("list", "dict", "set", "tuple", "frozenset"):
                return [Res("ok", st, PMeth(v, name))]
            if k == "slice" and name in ("start", "stop", "step"):
                return [Res("ok", st, z3.Select(st.get("idict", a_of(v)), STR.sid(name)))]
            if k == "RLock" and name in ("__enter__", "__exit__", "acquire", "release"):
                return [Res("ok", st, PBuiltin("rlock.noop"))]
        h = self.attr_hooks.get(name)
        if h is not None:
            r = h(eng, st, v, fx)
            if r is not None:
                return r
        if name in self.method_hooks or name in PROTOCOL_METHODS:
            return [Res("ok", st, PMeth(v, name))]
        return self.foreign_getattr(eng, st, v, name, fx)

    def class_of(self, eng, st, v):
        k = eng.static_class(st, v)
        if k is not None:
            ci = eng.class_info(k)
            return eng.pclass(k, ci)
        return vcls(eng.type_of(st, v))

    def class_level(self, eng, st, v, sid):
        """the class-level part of an attribute read: on a class value the class's own (inherited) attribute, otherwise the attribute of
        the value's class; decided statically where the path condition settles which (keeps an if-then-else out of most terms)"""
        if eng.valid(st, z3.Not(is_cls(v))):
            return clsattr(eng.type_of(st, v), sid)
        if eng.valid(st, is_cls(v)):
            return clsattr(c_of(v), sid)
        if os.environ.get("PYVC_DEBUG_CLS"):
            print("class_level undecided for", v.sexpr()[:120], sid)
        return z3.If(is_cls(v), clsattr(c_of(v), sid), clsattr(eng.type_of(st, v), sid))

    def foreign_getattr(self, eng, st, v, name, fx):
        """object of a class outside the function table: instance dict, then its class, else AttributeError"""
        sid = STR.sid(name)
        iv = z3.If(is_ref(v), z3.Select(st.get("idict", a_of(v)), sid), ABSENT)
        # (an attribute read on a class value sees what instances of that class see: the class attribute, inherited ones included)
        cv = self.class_level(eng, st, v, sid)
        val = z3.If(is_absent(iv), cv, iv)
        out = []
        for s2, b in eng.split(st, is_absent(val), note="attr %s missing" % name):
            if b:
                out.append(eng.exc(s2, "AttributeError", note="no attribute %s" % name))
            else:
                out.append(Res("ok", s2, val))
        return out

    def inst_getattr(self, eng, st, v, k, ci, name, fx):
        r = eng.ft.lookup_method(ci.qual, name)
        if r is None and name.startswith("_") and "__" in name[1:]:
            # name-mangled private member (_Class__name)
            r = eng.ft.lookup_method(ci.qual, name[name.index("__", 1):])
        if r is not None:
            if r[0] == "prop":
                p = r[1]
                if p["kind"] == "cached_property":
                    val = z3.Select(st.get("idict", a_of(v)), STR.sid(name))
                    st.assume(z3.Not(is_absent(val)))
                    return [Res("ok", st, val)]
                return eng.call_func(st, PFunc(p["get"]), [v], {}, fx, recv_cls=ci.qual)
            if r[0] == "method":
                f = PFunc(r[1])
                if r[1].kind == "staticmethod":
                    return [Res("ok", st, f)]
                if r[1].kind == "classmethod":
                    return [Res("ok", st, PBound(f, eng.pclass(k, ci), ci.qual))]
                return [Res("ok", st, PBound(f, v, ci.qual))]
        sid = STR.sid(name)
        val = z3.Select(st.get("idict", a_of(v)), sid)
        out = []
        for s2, b in eng.split(st, is_absent(val), note="attr %s missing" % name):
            if not b:
                out.append(Res("ok", s2, val))
                continue
            if r is not None and r[0] == "attr":
                cinfo, expr = r[1]
                out.extend(eng.ev(expr, s2, type(fx)(cinfo.module, {}, None, None, None, fx.depth, cinfo)))
                continue
            ga = eng.ft.lookup_method(ci.qual, "__getattr__")
            if ga is not None and ga[0] == "method":
                out.extend(eng.call_func(s2, PFunc(ga[1]), [v, STR.val(name)], {}, fx, recv_cls=ci.qual))
            else:
                out.append(eng.exc(s2, "AttributeError", note="%s has no %s" % (k, name)))
        return out

    def setattr_(self, eng, st, obj, name, val, fx):
        if isinstance(obj, PFunc):
            obj.attrs[name] = val
            return [Res("ok", st)]
        if isinstance(obj, PExc):
            if name == "args":
                obj2 = PExc(obj.cls, obj.cid, val.items if isinstance(val, PTuple) else [val], obj.note)
                # exception objects are immutable engine values: rebinding happens in the env of the handler
                obj.args = obj2.args
                return [Res("ok", st)]
            raise Unsupported("exception attribute store")
        if isinstance(obj, PClass):
            cid = CLS.cid(obj.name)
            self.dynamic_class_attrs.add(name)
            d = st.get("cdict", z3.IntVal(cid))
            st.heap["cdict"] = z3.Store(st.heap["cdict"], z3.IntVal(cid), z3.Store(d, STR.sid(name), eng.to_val(st, val)))
            return [Res("ok", st)]
        if not is_val(obj):
            raise Unsupported("setattr on %r" % (obj,))
        k = eng.static_class(st, obj)
        if k is not None:
            ci = eng.class_info(k)
            if ci is not None:
                r = eng.ft.lookup_method(ci.qual, name)
                if r is not None and r[0] == "prop" and r[1]["kind"] == "property":
                    if r[1]["set"] is None:
                        return [eng.exc(st, "AttributeError", note="can't set attribute")]
                    rs = eng.call_func(st, PFunc(r[1]["set"]), [obj, val], {}, fx, recv_cls=ci.qual)
                    return [Res("ok", q.st) if q.kind == "ok" else q for q in rs]
                sa = eng.ft.lookup_method(ci.qual, "__setattr__")
                if sa is not None and sa[0] == "method" and not getattr(fx, "raw_setattr", False):
                    rs = eng.call_func(st, PFunc(sa[1]), [obj, STR.val(name), val], {}, fx, recv_cls=ci.qual)
                    return [Res("ok", q.st) if q.kind == "ok" else q for q in rs]
                return self.raw_setattr(eng, st, obj, STR.sid(name), val)
        h = self.attr_hooks.get(("set", name)) or self.attr_hooks.get(("set", None))
        if h is not None:
            r = h(eng, st, obj, name, val, fx)
            if r is not None:
                return r
        return self.raw_setattr(eng, st, obj, STR.sid(name), val)

    def raw_setattr(self, eng, st, obj, sid, val):
        a = a_of(obj)
        d = st.get("idict", a)
        eng.write(st, "idict", a, z3.Store(d, sid, eng.to_val(st, val)), "attribute store")
        return [Res("ok", st)]

    def delattr_(self, eng, st, obj, name, fx):
        if not is_val(obj):
            raise Unsupported("delattr on %r" % (obj,))
        k = eng.static_class(st, obj)
        ci = eng.class_info(k) if k else None
        if ci is not None:
            da = eng.ft.lookup_method(ci.qual, "__delattr__")
            if da is not None and da[0] == "method":
                rs = eng.call_func(st, PFunc(da[1]), [obj, STR.val(name)], {}, fx, recv_cls=ci.qual)
                return [Res("ok", q.st) if q.kind == "ok" else q for q in rs]
        else:
            h = self.attr_hooks.get(("del", None))
            if h is not None:
                r = h(eng, st, obj, name, fx)
                if r is not None:
                    return r
        return self.raw_delattr(eng, st, obj, STR.sid(name))

    def raw_delattr(self, eng, st, obj, sid):
        a = a_of(obj)
        d = st.get("idict", a)
        out = []
        for s2, b in eng.split(st, is_absent(z3.Select(d, sid)), note="del missing attr"):
            if b:
                out.append(eng.exc(s2, "AttributeError", note="delete of missing attribute"))
            else:
                eng.write(s2, "idict", a, z3.Store(s2.get("idict", a), sid, ABSENT), "attribute delete")
                out.append(Res("ok", s2))
        return out

    # ------------------------------------------------------------------ containers
    def kind_split(self, eng, st, v, kinds):
        """split on the (builtin/table) class of a Val among `kinds` -> [(st, kindname|None)]"""
        k = eng.static_class(st, v)
        if k is not None:
            for kk in kinds:
                if CLS.is_sub(k, kk):
                    return [(st, kk)]
            return [(st, None)]
        out = []
        rest = st
        for kk in kinds:
            cond = z3.And(is_ref(v), subcls(rest.get("cls_of", a_of(v)), CLS.cid(kk)))
            br = eng.split(rest, cond, note="is %s" % kk)
            nxt = None
            for s2, b in br:
                if b:
                    out.append((s2, kk))
                else:
                    nxt = s2
            if nxt is None:
                return out
            rest = nxt
        out.append((rest, None))
        return out

    def hash_check(self, eng, st, k):
        """dict/set key use: unhashable -> TypeError.  -> [(st, ok:bool)]"""
        if z3.is_false(z3.simplify(is_ref(k))):
            st.assume(hashable(k))           # atoms (numbers, strings, None, classes) are hashable
            return [(st, True)]
        return eng.split(st, hashable(k), note="hashable")

    def as_index(self, eng, st, idx, what):
        if not eng.valid(st, z3.Or(is_int(idx), is_bool(idx))):
            raise Unsupported("%s with an index not known to be an int" % what)
        return z3.If(is_bool(idx), z3.If(b_of(idx), 1, 0), i_of(idx))

    def list_index(self, eng, st, a, idx):
        """CPython subscript index normalisation -> (in_range: Bool, pos: Int)"""
        n = st.get("llen", a)
        i = z3.If(is_bool(idx), z3.If(b_of(idx), 1, 0), i_of(idx))
        pos = z3.If(i < 0, i + n, i)
        return z3.And(pos >= 0, pos < n), pos

    def getitem(self, eng, st, obj, idx, fx):
        if isinstance(obj, PTuple) or isinstance(obj, PExcArgs):
            if is_val(idx):
                c = z3.simplify(i_of(idx))
                if z3.is_int_value(c) and z3.is_true(z3.simplify(is_int(idx))):
                    k = c.as_long()
                    if -len(obj.items) <= k < len(obj.items):
                        return [Res("ok", st, obj.items[k])]
                    return [eng.exc(st, "IndexError")]
            raise Unsupported("symbolic index into tuple literal")
        if isinstance(obj, PInstDict):
            if not is_val(idx):
                raise Unsupported("instance dict key")
            val = z3.Select(st.get("idict", obj.addr), s_of(idx))
            out = []
            for s2, b in eng.split(st, is_absent(val)):
                out.append(eng.exc(s2, "KeyError", idx) if b else Res("ok", s2, val))
            return out
        if isinstance(obj, PKwargs):
            return self.kwargs_get(eng, st, obj, idx, None, True)
        if not is_val(obj):
            raise Unsupported("getitem on %r" % (obj,))
        idx = eng.to_val(st, idx)
        out = []
        for s2, k in self.kind_split(eng, st, obj, ["list", "tuple", "dict", "set"]):
            a = a_of(obj)
            if k == "set":
                out.append(eng.exc(s2, "TypeError", note="'set' object is not subscriptable"))
            elif k in ("list", "tuple"):
                for s3, kk in self.kind_split(eng, s2, idx, ["slice"]):
                    if kk == "slice":
                        out.extend(self.list_slice(eng, s3, a, idx, k))
                        continue
                    isint = z3.Or(is_int(idx), is_bool(idx))
                    for s4, b in eng.split(s3, isint, note="int index"):
                        if not b:
                            out.append(eng.exc(s4, "TypeError", note="list indices must be integers"))
                            continue
                        ii = z3.If(is_bool(idx), vint(z3.If(b_of(idx), 1, 0)), idx)
                        ok, pos = self.list_index(eng, s4, a, ii)
                        for s5, inr in eng.split(s4, ok, note="index in range"):
                            if inr:
                                out.append(Res("ok", s5, z3.Select(s5.get("lelem", a), pos)))
                            else:
                                out.append(eng.exc(s5, "IndexError", note="list index out of range"))
            elif k == "dict":
                for s3, h in self.hash_check(eng, s2, idx):
                    if not h:
                        out.append(eng.exc(s3, "TypeError", note="unhashable"))
                        continue
                    kk = kn(idx)
                    for s4, b in eng.split(s3, z3.Select(s3.get("dhas", a), kk), note="key present"):
                        if b:
                            out.append(Res("ok", s4, z3.Select(s4.get("dval", a), kk)))
                        else:
                            out.append(eng.exc(s4, "KeyError", idx))
            else:
                out.extend(eng.call_method(s2, obj, "__getitem__", [idx], {}, fx))
        return out

    def list_slice(self, eng, st, a, sl, kind):
        """l[lo:hi] with step None: CPython clipping"""
        d = st.get("idict", a_of(sl))
        lo, hi, step = (z3.Select(d, STR.sid(x)) for x in ("start", "stop", "step"))
        if not eng.valid(st, z3.Or(is_none(step), step == vint(1))):
            raise Unsupported("slice with a step")
        n = st.get("llen", a)

        def clip(b, dflt):
            i = i_of(b)
            j = z3.If(i < 0, z3.If(i + n < 0, 0, i + n), z3.If(i > n, n, i))
            return z3.If(is_none(b), dflt, j)
        if not eng.valid(st, z3.And(z3.Or(is_none(lo), is_int(lo)), z3.Or(is_none(hi), is_int(hi)))):
            raise Unsupported("non-integer slice bounds")
        l0 = clip(lo, z3.IntVal(0))
        h0 = clip(hi, n)
        m = z3.If(h0 > l0, h0 - l0, 0)
        src = st.get("lelem", a)
        j = z3.Int("j!sl")
        arr = z3.Lambda([j], z3.If(z3.And(j >= 0, j < m), z3.Select(src, j + l0), ABSENT))
        v = eng.alloc_list_sym(st, m, arr, kind)
        return [Res("ok", st, v)]

    def setitem(self, eng, st, obj, idx, val, fx):
        if isinstance(obj, PInstDict):
            d = st.get("idict", obj.addr)
            eng.write(st, "idict", obj.addr, z3.Store(d, s_of(eng.to_val(st, idx)), eng.to_val(st, val)), "__dict__ store")
            return [Res("ok", st)]
        if not is_val(obj):
            raise Unsupported("setitem on %r" % (obj,))
        idx = eng.to_val(st, idx)
        val = eng.to_val(st, val)
        out = []
        for s2, k in self.kind_split(eng, st, obj, ["list", "dict"]):
            a = a_of(obj)
            if k == "list":
                self.as_index(eng, s2, idx, "list store")
                ok, pos = self.list_index(eng, s2, a, idx)
                for s3, inr in eng.split(s2, ok, note="store index in range"):
                    if inr:
                        eng.write(s3, "lelem", a, z3.Store(s3.get("lelem", a), pos, val), "list store")
                        out.append(Res("ok", s3))
                    else:
                        out.append(eng.exc(s3, "IndexError", note="list assignment index out of range"))
            elif k == "dict":
                for s3, h in self.hash_check(eng, s2, idx):
                    if not h:
                        out.append(eng.exc(s3, "TypeError", note="unhashable"))
                        continue
                    self.dict_put(eng, s3, a, idx, val)
                    out.append(Res("ok", s3))
            else:
                rs = eng.call_method(s2, obj, "__setitem__", [idx, val], {}, fx)
                out.extend(Res("ok", q.st) if q.kind == "ok" else q for q in rs)
        return out

    def dict_put(self, eng, st, a, key, val):
        kk = kn(key)
        had = z3.Select(st.get("dhas", a), kk)
        eng.check_write(st, a, "dict store")
        st.put("dsize", a, st.get("dsize", a) + z3.If(had, 0, 1))
        st.put("dkey", a, z3.Store(st.get("dkey", a), kk, z3.If(had, z3.Select(st.get("dkey", a), kk), key)))
        st.put("dhas", a, z3.Store(st.get("dhas", a), kk, z3.BoolVal(True)))
        st.put("dval", a, z3.Store(st.get("dval", a), kk, val))

    def dict_del(self, eng, st, a, key):
        kk = kn(key)
        eng.check_write(st, a, "dict delete")
        st.put("dsize", a, st.get("dsize", a) - 1)
        st.put("dhas", a, z3.Store(st.get("dhas", a), kk, z3.BoolVal(False)))
        st.put("dval", a, z3.Store(st.get("dval", a), kk, ABSENT))
        st.put("dkey", a, z3.Store(st.get("dkey", a), kk, ABSENT))

    def delitem(self, eng, st, obj, idx, fx):
        if isinstance(obj, PInstDict):
            d = st.get("idict", obj.addr)
            sid = s_of(eng.to_val(st, idx))
            out = []
            for s2, b in eng.split(st, is_absent(z3.Select(d, sid))):
                if b:
                    out.append(eng.exc(s2, "KeyError", idx))
                else:
                    eng.write(s2, "idict", obj.addr, z3.Store(s2.get("idict", obj.addr), sid, ABSENT), "__dict__ delete")
                    out.append(Res("ok", s2))
            return out
        if not is_val(obj):
            raise Unsupported("delitem on %r" % (obj,))
        idx = eng.to_val(st, idx)
        out = []
        for s2, k in self.kind_split(eng, st, obj, ["list", "dict"]):
            a = a_of(obj)
            if k == "list":
                rs = self.list_pop(eng, s2, a, idx)
                out.extend(Res("ok", q.st) if q.kind == "ok" else q for q in rs)
            elif k == "dict":
                for s3, h in self.hash_check(eng, s2, idx):
                    if not h:
                        out.append(eng.exc(s3, "TypeError", note="unhashable"))
                        continue
                    for s4, b in eng.split(s3, z3.Select(s3.get("dhas", a), kn(idx)), note="del key present"):
                        if b:
                            self.dict_del(eng, s4, a, idx)
                            out.append(Res("ok", s4))
                        else:
                            out.append(eng.exc(s4, "KeyError", idx))
            else:
                rs = eng.call_method(s2, obj, "__delitem__", [idx], {}, fx)
                out.extend(Res("ok", q.st) if q.kind == "ok" else q for q in rs)
        return out

    def list_pop(self, eng, st, a, idx):
        self.as_index(eng, st, idx, "list pop/del")
        ok, pos = self.list_index(eng, st, a, idx)
        out = []
        for s2, inr in eng.split(st, ok, note="pop index in range"):
            if not inr:
                out.append(eng.exc(s2, "IndexError", note="pop index out of range"))
                continue
            src = s2.get("lelem", a)
            n = s2.get("llen", a)
            v = z3.Select(src, pos)
            j = z3.Int("j!pop")
            arr = z3.Lambda([j], z3.If(j < pos, z3.Select(src, j), z3.Select(src, j + 1)))
            eng.check_write(s2, a, "list pop")
            s2.put("lelem", a, arr)
            s2.put("llen", a, n - 1)
            out.append(Res("ok", s2, v))
        return out

    def list_insert(self, eng, st, a, idx, val):
        i = self.as_index(eng, st, idx, "list insert")
        n = st.get("llen", a)
        pos = z3.If(i < 0, z3.If(i + n < 0, 0, i + n), z3.If(i > n, n, i))
        src = st.get("lelem", a)
        j = z3.Int("j!ins")
        arr = z3.Lambda([j], z3.If(j < pos, z3.Select(src, j), z3.If(j == pos, val, z3.Select(src, j - 1))))
        eng.check_write(st, a, "list insert")
        st.put("lelem", a, arr)
        st.put("llen", a, n + 1)
        return [Res("ok", st, NONE)]

    def contains(self, eng, st, container, item, fx):
        if isinstance(container, PTuple):
            conds = []
            for it in container.items:
                if is_val(it) and is_val(item):
                    conds.append(py_eq(it, item))
                else:
                    conds.append(eng.same(st, it, item))
            return [Res("ok", st, vbool(z3.Or(*conds) if conds else z3.BoolVal(False)))]
        if isinstance(container, PInstDict):
            item = eng.to_val(st, item)
            return [Res("ok", st, vbool(z3.And(is_str(item),
                    z3.Not(is_absent(z3.Select(st.get("idict", container.addr), s_of(item)))))))]
        if isinstance(container, PClassDict):
            item = eng.to_val(st, item)
            return [Res("ok", st, vbool(z3.And(is_str(item),
                    z3.Not(is_absent(z3.Select(st.get("cdict", container.cid), s_of(item)))))))]
        if isinstance(container, PKwargs):
            return self.kwargs_contains(eng, st, container, item)
        if isinstance(container, PView):
            if container.kind == "keys":
                return self.contains(eng, st, vref(container.addr), item, fx)
            raise Unsupported("membership in dict view")
        if not is_val(container):
            raise Unsupported("membership in %r" % (container,))
        item = eng.to_val(st, item)
        out = []
        for s2, k in self.kind_split(eng, st, container, ["dict", "set", "list", "tuple"]):
            a = a_of(container)
            if k in ("dict", "set"):
                for s3, h in self.hash_check(eng, s2, item):
                    if not h:
                        out.append(eng.exc(s3, "TypeError", note="unhashable"))
                    else:
                        has = z3.Select(s3.get("dhas", a), kn(item))
                        s3.assume(z3.Implies(has, s3.get("dsize", a) > 0))
                        out.append(Res("ok", s3, vbool(has)))
            elif k in ("list", "tuple"):
                j = z3.Int("j!in")
                n = s2.get("llen", a)
                w = fresh("wit", I)
                t = fresh("mem", B)
                el = s2.get("lelem", a)
                s2.assume(t == z3.Exists([j], z3.And(j >= 0, j < n, kn(z3.Select(el, j)) == kn(item))))
                out.append(Res("ok", s2, vbool(t)))
            else:
                out.extend(eng.call_method(s2, container, "__contains__", [item], {}, fx))
        return out

    def equals(self, eng, st, a, b, fx):
        for h in self.eq_hooks:
            r = h(eng, st, a, b, fx)
            if r is not None:
                return r
        return None

    def unpack(self, eng, st, val, n):
        k = eng.static_class(st, val)
        if k in ("tuple", "list"):
            a = a_of(val)
            if eng.valid(st, st.get("llen", a) == n):
                return [z3.Select(st.get("lelem", a), i) for i in range(n)]
        return None

    def binop(self, eng, st, a, op, b, fx, node):
        if isinstance(op, ast.BitOr) and is_val(a) and is_val(b):
            ka, kb = eng.static_class(st, a), eng.static_class(st, b)
            if ka == "set" and kb == "set":
                r = self.alloc_set_union(eng, st, a_of(a), a_of(b))
                return [Res("ok", st, r)]
        if isinstance(op, ast.Add) and is_val(a) and is_val(b):
            ka, kb = eng.static_class(st, a), eng.static_class(st, b)
            if ka == "list" and kb == "list":
                return [Res("ok", st, self.list_concat(eng, st, a_of(a), a_of(b)))]
        for h in self.method_hooks.get(("binop",), []):
            r = h(eng, st, a, op, b, fx)
            if r is not None:
                return r
        return None

    def list_concat(self, eng, st, a, b, kind="list"):
        n1, n2 = st.get("llen", a), st.get("llen", b)
        e1, e2 = st.get("lelem", a), st.get("lelem", b)
        j = z3.Int("j!cat")
        arr = z3.Lambda([j], z3.If(j < n1, z3.Select(e1, j), z3.Select(e2, j - n1)))
        return eng.alloc_list_sym(st, n1 + n2, arr, kind)

    def alloc_set_union(self, eng, st, a, b):
        r = eng.alloc_dict(st, "set")
        ra = a_of(r)
        k = z3.Const("k!u", Val)
        ha, hb = st.get("dhas", a), st.get("dhas", b)
        st.put("dhas", ra, z3.Lambda([k], z3.Or(z3.Select(ha, k), z3.Select(hb, k))))
        ka, kb = st.get("dkey", a), st.get("dkey", b)
        st.put("dkey", ra, z3.Lambda([k], z3.If(z3.Select(ha, k), z3.Select(ka, k), z3.Select(kb, k))))
        sz = fresh("usz", I)
        common, cw = fresh("common", I), fresh("cw")
        st.assume(sz == st.get("dsize", a) + st.get("dsize", b) - common, common >= 0,
                  common <= st.get("dsize", a), common <= st.get("dsize", b),
                  z3.Implies(common > 0, z3.And(z3.Select(ha, cw), z3.Select(hb, cw))))
        st.put("dsize", ra, sz)
        return r

    # ------------------------------------------------------------------ iteration
    def peel(self, eng, st, comp, a):
        """st.get(comp, a) with the stores to provably different addresses peeled off (a plain select on the older heap:
        usable as an argument of the content-determined enumeration functions)"""
        arr = st.heap[comp]
        while z3.is_app(arr) and arr.decl().kind() == z3.Z3_OP_STORE:
            h, b, v = arr.children()
            if eng.valid(st, a != b):
                arr = h
            elif eng.valid(st, a == b):
                return v
            else:
                break
        return z3.Select(arr, a)

    def enum_dict(self, eng, st, a):
        """enumeration of a dict/set: n, keys-in-iteration-order array, position map.  The order is a
        function of the container's *content* (ENUM_KS/ENUM_POS over the has/key arrays), so two
        enumerations of an unchanged container agree; the bijection facts are added to the state."""
        has, dk = self.peel(eng, st, "dhas", a), self.peel(eng, st, "dkey", a)
        n = st.get("dsize", a)
        key = ("enum", has.get_id(), dk.get_id())
        hit = st.ghost.get(key)
        if hit is not None and hit[0].eq(has) and hit[1].eq(dk):
            return n, hit[2], (lambda k, posa=hit[3]: z3.Select(posa, k))
        # named constants (usable in quantifier patterns) for the content-determined enumeration
        ks = fresh("dks", ArrIV)
        posa = fresh("dpos", z3.ArraySort(Val, I))
        if simple_term(has) and simple_term(dk):
            # content-determined order: two enumerations of an unchanged container agree
            st.assume(ks == ENUM_KS(has, dk), posa == ENUM_POS(has, dk))
        pos = lambda k: z3.Select(posa, k)
        i = z3.Int("i!en")
        k = z3.Const("k!en", Val)
        st.assume(n >= 0)
        st.assume(FA([i], z3.Implies(z3.And(i >= 0, i < n),
                  z3.And(z3.Select(has, kn(z3.Select(ks, i))), pos(kn(z3.Select(ks, i))) == i,
                         z3.Not(is_absent(z3.Select(ks, i))),
                         z3.Select(dk, kn(z3.Select(ks, i))) == z3.Select(ks, i))),
                  [z3.Select(ks, i)]))
        st.assume(FA([k], z3.Implies(z3.Select(has, k),
                  z3.And(pos(k) >= 0, pos(k) < n, kn(z3.Select(ks, pos(k))) == k)),
                  [z3.Select(has, k)]))
        st.assume(FA([i], z3.Implies(z3.Or(i < 0, i >= n), z3.Select(ks, i) == ABSENT), [z3.Select(ks, i)]))
        st.ghost = dict(st.ghost)
        st.ghost[key] = (has, dk, ks, posa)
        return n, ks, pos

    def enum_idict(self, eng, st, a):
        n = fresh("in", I)
        ks = fresh("iks", z3.ArraySort(I, I))
        pos = z3.Function("ipos!%d" % n.get_id(), I, I)
        d = st.get("idict", a)
        i, s = z3.Int("i!ei"), z3.Int("s!ei")
        st.assume(n >= 0)
        st.assume(z3.ForAll([i], z3.Implies(z3.And(i >= 0, i < n),
                  z3.And(z3.Not(is_absent(z3.Select(d, z3.Select(ks, i)))), pos(z3.Select(ks, i)) == i)),
                  patterns=[z3.Select(ks, i)]))
        st.assume(z3.ForAll([s], z3.Implies(z3.Not(is_absent(z3.Select(d, s))),
                  z3.And(pos(s) >= 0, pos(s) < n, z3.Select(ks, pos(s)) == s)),
                  patterns=[z3.Select(d, s)]))
        return n, ks, pos

    def iter_plan(self, eng, st, v, fx):
        """iteration plan of v; every plan handed out is recorded in the state (ghost) so that a
        contract can speak about 'the items obtained by iterating argument v'."""
        out = []
        for r in self._iter_plan(eng, st, v, fx):
            if r.kind == "ok":
                r.st.ghost = dict(r.st.ghost)
                r.st.ghost["iterplans"] = r.st.ghost.get("iterplans", ()) + ((v, r.val),)
            out.append(r)
        return out

    def _iter_plan(self, eng, st, v, fx):
        for h in self.iter_hooks:
            r = h(eng, st, v, fx)
            if r is not None:
                return r
        if isinstance(v, PView):
            if v.inst:
                n, ks, pos = self.enum_idict(eng, st, v.addr)
                d = st.get("idict", v.addr)
                if v.kind == "items":
                    at = lambda s, k: PTuple([vstr(z3.Select(ks, k)), z3.Select(d, z3.Select(ks, k))])
                elif v.kind == "keys":
                    at = lambda s, k: vstr(z3.Select(ks, k))
                else:
                    at = lambda s, k: z3.Select(d, z3.Select(ks, k))
                p = PSeq(n, at, "instance dict " + v.kind)
                p.keys, p.pos, p.src = ks, pos, d
                return [Res("ok", st, p)]
            n, ks, pos = self.enum_dict(eng, st, v.addr)
            dv = st.get("dval", v.addr)
            if v.kind == "items":
                at = lambda s, k: PTuple([z3.Select(ks, k), z3.Select(dv, kn(z3.Select(ks, k)))])
            elif v.kind == "keys":
                at = lambda s, k: z3.Select(ks, k)
            else:
                at = lambda s, k: z3.Select(dv, kn(z3.Select(ks, k)))
            p = PSeq(n, at, "dict " + v.kind)
            p.keys, p.pos, p.dval, p.addr = ks, pos, dv, v.addr
            if v.kind == "keys":
                p.arr = ks
            elif v.kind == "values":
                jv = z3.Int("j!dv")
                p.arr = z3.Lambda([jv], z3.If(z3.And(jv >= 0, jv < n), z3.Select(dv, kn(z3.Select(ks, jv))), ABSENT))
            return [Res("ok", st, p)]
        if isinstance(v, PKwargs):
            if v.rest is not None:
                raise Unsupported("iteration over symbolic **kwargs")
            items = [STR.val(k) for k in v.items]
            return [Res("ok", st, PSeq(len(items), lambda s, k, items=items: items[k], "kwargs keys"))]
        if not is_val(v):
            raise Unsupported("iteration over %r" % (v,))
        out = []
        for s2, k in self.kind_split(eng, st, v, ["list", "tuple", "dict", "set"]):
            a = a_of(v)
            if k in ("list", "tuple"):
                n, el = s2.get("llen", a), s2.get("lelem", a)
                s2.assume(n >= 0)
                p = PSeq(n, lambda s, kk, el=el: z3.Select(el, kk), k)
                p.arr = el
                out.append(Res("ok", s2, p))
            elif k in ("dict", "set"):
                out.extend(self.iter_plan(eng, s2, PView("keys", a), fx))
            else:
                out.extend(self.opaque_iter(eng, s2, v, fx))
        return out

    def opaque_iter(self, eng, st, v, fx):
        """iterating a foreign iterable: a finite sequence of arbitrary values (may also raise TypeError
        when the value is not iterable at all)."""
        # A-ITER: the sequence an opaque iterable yields is a function of the object
        n = IT_N(v)
        arr = IT_ARR(v)
        st.assume(n >= 0)
        p = PSeq(n, lambda s, k: z3.Select(arr, k), "opaque iterable")
        p.arr = arr
        p.opaque = True
        return [Res("ok", st, p)]

    # ------------------------------------------------------------------ literals & comprehensions
    def dict_literal(self, eng, e, st, fx):
        # {**a, **b} and {k: v, ...}
        if not e.keys:
            return [Res("ok", st, eng.alloc_dict(st))]
        if all(k is None for k in e.keys):
            accs = [(st, {})]
            excs = []
            for vexp in e.values:
                nxt = []
                for s, items in accs:
                    for r in eng.ev(vexp, s, fx):
                        if r.kind != "ok":
                            excs.append(r)
                            continue
                        v = r.val
                        if isinstance(v, PKwargs) and v.rest is None and not isinstance(items, list):
                            d2 = dict(items)
                            d2.update(v.items)
                            nxt.append((r.st, d2))
                        else:
                            # symbolic mapping: keep the parts, merge below
                            parts = items if isinstance(items, list) else ([PKwargs(items)] if items else [])
                            nxt.append((r.st, parts + [v]))
                accs = nxt
            out = list(excs)
            for s, items in accs:
                if isinstance(items, list):
                    out.extend(self.dict_merge(eng, s, items, fx))
                else:
                    out.append(Res("ok", s, PKwargs(items)))
            return out
        if any(k is None for k in e.keys):
            raise Unsupported("mixed dict literal")
        acc, excs = eng.ev_list([x for kv in zip(e.keys, e.values) for x in kv], st, fx)
        out = list(excs)
        for s, vals in acc:
            d = eng.alloc_dict(s)
            for i in range(0, len(vals), 2):
                self.dict_put(eng, s, a_of(d), eng.to_val(s, vals[i]), eng.to_val(s, vals[i + 1]))
            out.append(Res("ok", s, d))
        return out

    def dict_merge(self, eng, st, parts, fx):
        """{**p0, **p1, ...} over symbolic dicts: a new dict whose content is the right-biased union"""
        vals = [eng.to_val(st, p) for p in parts]
        DICT = CLS.cid("dict")
        alld = z3.And(*[z3.And(is_ref(v), subcls(st.get("cls_of", a_of(v)), DICT)) for v in vals])
        out = []
        for s2, ok in eng.split(st, alld, note="** operands are dicts"):
            if not ok:
                out.append(eng.exc(s2, "TypeError", note="** of a non-mapping"))
                continue
            s2 = s2.fork()
            d = eng.alloc_dict(s2)
            a = a_of(d)
            h, v, dk, n = fresh("mh", ArrVB), fresh("mv", ArrVV), fresh("mk", ArrVV), fresh("mn", I)
            k = z3.Const("k!dm", Val)
            hs = [s2.get("dhas", a_of(x)) for x in vals]
            vs = [s2.get("dval", a_of(x)) for x in vals]
            ks = [s2.get("dkey", a_of(x)) for x in vals]
            val = z3.Select(vs[0], k)
            key = z3.Select(ks[-1], k)
            for i in range(1, len(vals)):
                val = z3.If(z3.Select(hs[i], k), z3.Select(vs[i], k), val)
            for i in range(len(vals) - 2, -1, -1):
                key = z3.If(z3.Select(hs[i], k), z3.Select(ks[i], k), key)
            anyh = z3.Or(*[z3.Select(x, k) for x in hs])
            s2.assume(z3.ForAll([k], z3.And(z3.Select(h, k) == anyh,
                                            z3.Select(v, k) == z3.If(anyh, val, ABSENT),
                                            z3.Select(dk, k) == z3.If(anyh, key, ABSENT))))
            s2.assume(n >= 0, *[n >= s2.get("dsize", a_of(x)) for x in vals])
            s2.assume(z3.ForAll([k], z3.Implies(z3.Select(h, k), n > 0), patterns=[z3.Select(h, k)]))
            s2.put("dhas", a, h)
            s2.put("dval", a, v)
            s2.put("dkey", a, dk)
            s2.put("dsize", a, n)
            out.append(Res("ok", s2, d))
        return out

    def set_literal(self, eng, e, st, fx):
        if any(isinstance(x, ast.Starred) for x in e.elts):
            raise Unsupported("starred set literal")
        acc, excs = eng.ev_list(e.elts, st, fx)
        out = list(excs)
        for s, vals in acc:
            d = eng.alloc_dict(s, "set")
            for v in vals:
                self.dict_put(eng, s, a_of(d), eng.to_val(s, v), NONE)
            out.append(Res("ok", s, d))
        return out

    def starred_list(self, eng, e, st, fx):
        """[*a, *b]: concatenation of the sequences obtained by iterating a and b"""
        if not all(isinstance(x, ast.Starred) for x in e.elts):
            raise Unsupported("mixed starred list literal")
        acc, excs = eng.ev_list([x.value for x in e.elts], st, fx)
        out = list(excs)
        for s, vals in acc:
            states = [(s, z3.IntVal(0), None)]
            for v in vals:
                nxt = []
                for s1, n_acc, f_acc in states:
                    for r in self.iter_plan(eng, s1, v, fx):
                        if r.kind != "ok":
                            out.append(r)
                            continue
                        p = r.val
                        if not hasattr(p, "arr"):
                            raise Unsupported("starred list over %s" % p.desc)
                        arr = p.arr
                        if f_acc is None:
                            nxt.append((r.st, p.n, (lambda j, arr=arr: z3.Select(arr, j))))
                        else:
                            nxt.append((r.st, n_acc + p.n,
                                        (lambda j, f=f_acc, n0=n_acc, arr=arr: z3.If(j < n0, f(j), z3.Select(arr, j - n0)))))
                states = nxt
            for s1, n_acc, f_acc in states:
                j = z3.Int("j!st")
                arr = z3.Lambda([j], f_acc(j)) if f_acc is not None else z3.K(I, ABSENT)
                out.append(Res("ok", s1, eng.alloc_list_sym(s1, n_acc, arr)))
        return out

    def seq_of(self, eng, st, v, fx):
        rs = self.iter_plan(eng, st, v, fx)
        if len(rs) != 1 or rs[0].kind != "ok":
            return None
        p = rs[0].val
        if not hasattr(p, "arr"):
            return None
        arr = p.arr
        return p.n, (lambda j: z3.Select(arr, j))

    def comprehension(self, eng, e, st, fx, kind):
        if kind == "dict":
            r = self.dict_filter_comprehension(eng, e, st, fx)
            if r is not None:
                return r
        raise Unsupported("comprehension (%s) line %d" % (kind, e.lineno))

    def dict_filter_comprehension(self, eng, e, st, fx):
        """{k: v for k, v in <dict>.items() if <pure condition>}: a new dict holding the entries that pass"""
        if len(e.generators) != 1:
            return None
        g = e.generators[0]
        t = g.target
        if not (isinstance(t, ast.Tuple) and len(t.elts) == 2 and all(isinstance(x, ast.Name) for x in t.elts)):
            return None
        kn_, vn_ = t.elts[0].id, t.elts[1].id
        if not (isinstance(e.key, ast.Name) and e.key.id == kn_ and isinstance(e.value, ast.Name) and e.value.id == vn_):
            return None
        it = g.iter
        if not (isinstance(it, ast.Call) and isinstance(it.func, ast.Attribute) and it.func.attr == "items" and not it.args):
            return None
        out = []
        for r in eng.ev(it.func.value, st, fx):
            if r.kind != "ok":
                out.append(r)
                continue
            src = r.val
            if not is_val(src):
                return None
            DICT = CLS.cid("dict")
            for s2, ok in eng.split(r.st, z3.And(is_ref(src), subcls(r.st.get("cls_of", a_of(src)), DICT)), note="comprehension source is a dict"):
                if not ok:
                    raise Unsupported("dict comprehension over a non-dict")
                sa = a_of(src)
                has, dv, dkk = s2.get("dhas", sa), s2.get("dval", sa), s2.get("dkey", sa)
                kc = fresh("ck")             # canonical key (bound variable of the definition below)
                probe = s2.fork()
                probe.assume(z3.Select(has, kc), kn(kc) == kc, hashable(z3.Select(dkk, kc)),      # keys of a dict are hashable
                             kn(z3.Select(dkk, kc)) == kc, z3.Not(is_absent(z3.Select(dv, kc))))
                probe.env = dict(probe.env)
                probe.env[kn_] = z3.Select(dkk, kc)
                probe.env[vn_] = z3.Select(dv, kc)
                cond = z3.BoolVal(True)
                cur = probe
                for test in g.ifs:
                    rs = eng.ev(test, cur, fx)
                    if len(rs) != 1 or rs[0].kind != "ok" or any(not rs[0].st.heap[c].eq(s2.heap[c]) for c in s2.heap):
                        raise Unsupported("dict comprehension with an effectful / branching condition")
                    cond = z3.And(cond, eng.truthy(rs[0].st, rs[0].val))
                    cur = rs[0].st
                s3 = s2.fork()
                d = eng.alloc_dict(s3)
                a = a_of(d)
                h, v, dk, n = fresh("ch", ArrVB), fresh("cv", ArrVV), fresh("cdk", ArrVV), fresh("cn", I)
                keep = z3.And(z3.Select(has, kc), cond)
                s3.assume(z3.ForAll([kc], z3.And(z3.Select(h, kc) == keep,
                                                 z3.Select(v, kc) == z3.If(keep, z3.Select(dv, kc), ABSENT),
                                                 z3.Select(dk, kc) == z3.If(keep, z3.Select(dkk, kc), ABSENT))))
                s3.assume(n >= 0, n <= s3.get("dsize", sa))
                s3.assume(z3.ForAll([kc], z3.Implies(z3.Select(h, kc), n > 0), patterns=[z3.Select(h, kc)]))
                s3.put("dhas", a, h)
                s3.put("dval", a, v)
                s3.put("dkey", a, dk)
                s3.put("dsize", a, n)
                out.append(Res("ok", s3, d))
        return out

    # ------------------------------------------------------------------ calls of values
    def call_value(self, eng, st, f, pos, kw, fx):
        """call of a symbolic value: a reified known callable, or an unknown callback (A-CB)."""
        cs = st.ghost.get("callables", {})
        x = cs.get(f.sexpr())
        if x is not None:
            return eng.call(st, x, pos, kw, fx)
        h = self.method_hooks.get(("call_value",))
        if h is not None:
            r = h(eng, st, f, pos, kw, fx)
            if r is not None:
                return r
        return self.callback(eng, st, f, pos, kw)

    def callback(self, eng, st, f, pos, kw, may_raise=True):
        if kw:
            raise Unsupported("keyword arguments to an unknown callable")
        args = [eng.to_val(st, p) for p in pos]
        n = len(args)
        if n not in APP:
            raise Unsupported("callback arity")
        res = APP[n](f, *args)
        out = []
        st = st.fork()
        st.ghost = dict(st.ghost)
        st.ghost["calls"] = st.ghost.get("calls", ()) + ((f, tuple(args)),)      # ghost: callback invocation log
        ok = st.fork()
        rz = APP_RAISES[n](f, *args)
        ok.assume(z3.Not(rz))
        a = ok.new_addr()
        ok.assume(z3.Implies(is_ref(res), z3.And(a_of(res) >= 0, a_of(res) <= a)), z3.Not(is_absent(res)))
        ok.note("callback returns")
        if eng.feasible(ok):
            out.append(Res("ok", ok, res))
        if may_raise:
            bad = st.fork()
            bad.assume(rz)
            bad.note("callback raises")
            if eng.feasible(bad):
                cid = APP_EXC[n](f, *args)
                bad.assume(subcls(cid, CLS.cid("Exception")))
                out.append(Res("exc", bad, PExc(None, cid, [], "raised by callback")))
        return out

    # ------------------------------------------------------------------ method calls on built-in objects
    def method_call(self, eng, st, recv, name, pos, kw, fx):
        h = self.method_hooks.get(name)
        if h is not None:
            r = h(eng, st, recv, pos, kw, fx)
            if r is not None:
                return r
        if isinstance(recv, PClassDict) and name == "get" and pos:
            key = eng.to_val(st, pos[0])
            v = z3.Select(st.get("cdict", recv.cid), s_of(key))
            dflt = eng.to_val(st, pos[1]) if len(pos) > 1 else NONE
            return [Res("ok", st, z3.If(is_absent(v), dflt, v))]
        if isinstance(recv, PInstDict):
            return self.instdict_method(eng, st, recv, name, pos, kw, fx)
        if isinstance(recv, PKwargs):
            return self.kwargs_method(eng, st, recv, name, pos, kw, fx)
        if isinstance(recv, PTuple):
            raise Unsupported("tuple method %s" % name)
        if is_val(recv):
            k = eng.static_class(st, recv)
            if k is None:
                out = []
                for s2, kk in self.kind_split(eng, st, recv, ["list", "dict", "set"]):
                    if kk is None:
                        out.extend(self.foreign_method(eng, s2, recv, name, pos, kw, fx))
                    else:
                        out.extend(self.builtin_method(eng, s2, recv, kk, name, pos, kw, fx))
                return out
            return self.builtin_method(eng, st, recv, k, name, pos, kw, fx)
        raise Unsupported("method %s on %r" % (name, recv))

    def foreign_method(self, eng, st, recv, name, pos, kw, fx):
        raise Unsupported("method %s on an object of unknown class" % name)

    def builtin_method(self, eng, st, recv, k, name, pos, kw, fx):
        a = a_of(recv)
        pos = [eng.to_val(st, p) for p in pos]
        # explicit calls of the item-protocol methods (e.g. a bound `container.__setitem__` passed around as a callable)
        if name == "__setitem__" and len(pos) == 2 and k in ("list", "dict"):
            return [Res("ok", r.st, NONE) if r.kind == "ok" else r for r in self.setitem(eng, st, recv, pos[0], pos[1], fx)]
        if name == "__getitem__" and len(pos) == 1 and k in ("list", "dict", "tuple"):
            return self.getitem(eng, st, recv, pos[0], fx)
        if name == "__delitem__" and len(pos) == 1 and k in ("list", "dict"):
            return [Res("ok", r.st, NONE) if r.kind == "ok" else r for r in self.delitem(eng, st, recv, pos[0], fx)]
        if k == "list":
            if name == "append":
                n = st.get("llen", a)
                eng.check_write(st, a, "list append")
                st.put("lelem", a, z3.Store(st.get("lelem", a), n, pos[0]))
                st.put("llen", a, n + 1)
                return [Res("ok", st, NONE)]
            if name == "insert":
                return self.list_insert(eng, st, a, pos[0], pos[1])
            if name == "pop":
                idx = pos[0] if pos else vint(z3.IntVal(-1))
                return self.list_pop(eng, st, a, idx)
            if name == "index":
                return self.list_index_of(eng, st, a, pos[0])
            if name == "copy":
                return [Res("ok", st, eng.alloc_list_sym(st, st.get("llen", a), st.get("lelem", a)))]
            if name == "reverse":
                n, src = st.get("llen", a), st.get("lelem", a)
                j = z3.Int("j!rev")
                eng.check_write(st, a, "list reverse")
                st.put("lelem", a, z3.Lambda([j], z3.Select(src, n - 1 - j)))      # stays normalised
                return [Res("ok", st, NONE)]
            if name == "extend":
                out = []
                for r in self.iter_plan(eng, st, pos[0], fx):
                    if r.kind != "ok":
                        out.append(r)
                        continue
                    p = r.val
                    if not hasattr(p, "arr"):
                        raise Unsupported("list.extend over %s" % p.desc)
                    s2 = r.st
                    n, src, arr = s2.get("llen", a), s2.get("lelem", a), p.arr
                    j = z3.Int("j!ext")
                    eng.check_write(s2, a, "list extend")
                    s2.put("lelem", a, z3.Lambda([j], z3.If(j < n, z3.Select(src, j), z3.Select(arr, j - n))))
                    s2.put("llen", a, n + p.n)
                    out.append(Res("ok", s2, NONE))
                return out
        if k == "dict":
            if name == "get":
                key = pos[0]
                dflt = pos[1] if len(pos) > 1 else kw.get("default", NONE)
                dflt = eng.to_val(st, dflt)
                out = []
                for s2, h in self.hash_check(eng, st, key):
                    if not h:
                        out.append(eng.exc(s2, "TypeError", note="unhashable"))
                    elif z3.is_true(z3.simplify(is_ref(dflt))):
                        # an object default (e.g. `d.get(k, set())`): keep the two outcomes apart so that the
                        # class of the result stays known
                        kk = kn(key)
                        for s3, b in eng.split(s2, z3.Select(s2.get("dhas", a), kk), note="dict.get hit"):
                            out.append(Res("ok", s3, z3.Select(s3.get("dval", a), kk) if b else dflt))
                    else:
                        kk = kn(key)
                        out.append(Res("ok", s2, z3.If(z3.Select(s2.get("dhas", a), kk),
                                                       z3.Select(s2.get("dval", a), kk), dflt)))
                return out
            if name in ("keys", "items", "values"):
                return [Res("ok", st, PView(name, a))]
            if name == "update":
                o = pos[0]
                if eng.static_class(st, o) != "dict":
                    raise Unsupported("dict.update with a non-dict")
                b = a_of(o)
                k = z3.Const("k!upd", Val)
                ha, hb = st.get("dhas", a), st.get("dhas", b)
                va, vb = st.get("dval", a), st.get("dval", b)
                ka, kb = st.get("dkey", a), st.get("dkey", b)
                eng.check_write(st, a, "dict update")
                sz = fresh("updsz", I)
                common, cw = fresh("common", I), fresh("cw")
                # |A u B| = |A| + |B| - |A n B|; a non-empty intersection has a witness key
                st.assume(sz == st.get("dsize", a) + st.get("dsize", b) - common, common >= 0,
                          common <= st.get("dsize", a), common <= st.get("dsize", b),
                          z3.Implies(common > 0, z3.And(z3.Select(ha, cw), z3.Select(hb, cw))))
                st.put("dhas", a, z3.Lambda([k], z3.Or(z3.Select(ha, k), z3.Select(hb, k))))
                st.put("dval", a, z3.Lambda([k], z3.If(z3.Select(hb, k), z3.Select(vb, k), z3.Select(va, k))))
                st.put("dkey", a, z3.Lambda([k], z3.If(z3.Select(ha, k), z3.Select(ka, k), z3.Select(kb, k))))
                st.put("dsize", a, sz)
                return [Res("ok", st, NONE)]
            if name == "pop":
                key = pos[0]
                out = []
                for s2, b in eng.split(st, z3.Select(st.get("dhas", a), kn(key)), note="pop key present"):
                    if b:
                        v = z3.Select(s2.get("dval", a), kn(key))
                        self.dict_del(eng, s2, a, key)
                        out.append(Res("ok", s2, v))
                    elif len(pos) > 1:
                        out.append(Res("ok", s2, pos[1]))
                    else:
                        out.append(eng.exc(s2, "KeyError", key))
                return out
        if k == "set":
            if name == "add":
                out = []
                for s2, h in self.hash_check(eng, st, pos[0]):
                    if not h:
                        out.append(eng.exc(s2, "TypeError", note="unhashable"))
                    else:
                        self.dict_put(eng, s2, a, pos[0], NONE)
                        out.append(Res("ok", s2, NONE))
                return out
            if name == "update" and len(pos) == 1 and is_val(pos[0]):
                o = pos[0]
                SET = CLS.cid("set")
                out = []
                for s2, ok in eng.split(st, z3.And(is_ref(o), z3.Or(s2c == SET for s2c in [st.get("cls_of", a_of(o))])), note="set.update operand is a set"):
                    if not ok:
                        raise Unsupported("set.update of a non-set")
                    s2 = s2.fork()
                    b = a_of(o)
                    eng.check_write(s2, a, "set update")
                    h, dk, n = fresh("suh", ArrVB), fresh("suk", ArrVV), fresh("sun", I)
                    kq = z3.Const("k!su", Val)
                    ha, hb = s2.get("dhas", a), s2.get("dhas", b)
                    ka, kb = s2.get("dkey", a), s2.get("dkey", b)
                    s2.assume(z3.ForAll([kq], z3.And(z3.Select(h, kq) == z3.Or(z3.Select(ha, kq), z3.Select(hb, kq)),
                                                     z3.Select(dk, kq) == z3.If(z3.Select(ha, kq), z3.Select(ka, kq), z3.Select(kb, kq)))))
                    s2.assume(n >= s2.get("dsize", a), n >= s2.get("dsize", b), n <= s2.get("dsize", a) + s2.get("dsize", b))
                    s2.put("dhas", a, h)
                    s2.put("dkey", a, dk)
                    s2.put("dsize", a, n)
                    out.append(Res("ok", s2, NONE))
                return out
            if name in ("discard", "remove"):
                out = []
                for s2, h in self.hash_check(eng, st, pos[0]):
                    if not h:
                        out.append(eng.exc(s2, "TypeError", note="unhashable"))
                        continue
                    for s3, b in eng.split(s2, z3.Select(s2.get("dhas", a), kn(pos[0])), note="set has"):
                        if b:
                            self.dict_del(eng, s3, a, pos[0])
                            out.append(Res("ok", s3, NONE))
                        elif name == "remove":
                            out.append(eng.exc(s3, "KeyError", pos[0]))
                        else:
                            out.append(Res("ok", s3, NONE))
                return out
        real = {"list": list, "dict": dict, "set": set, "tuple": tuple, "frozenset": frozenset}.get(k)
        if real is not None and not hasattr(real, name):
            return [eng.exc(st, "AttributeError", note="'%s' object has no attribute '%s'" % (k, name))]
        raise Unsupported("%s.%s" % (k, name))

    def list_index_of(self, eng, st, a, x):
        """list.index(x): first position with an equal element, else ValueError"""
        n, el = st.get("llen", a), st.get("lelem", a)
        j = z3.Int("j!ix")
        found = st.fork()
        p = fresh("ixp", I)
        found.assume(p >= 0, p < n, kn(z3.Select(el, p)) == kn(x),
                     z3.ForAll([j], z3.Implies(z3.And(j >= 0, j < p), kn(z3.Select(el, j)) != kn(x))))
        out = []
        if eng.feasible(found):
            out.append(Res("ok", found, vint(p)))
        miss = st.fork()
        miss.assume(z3.ForAll([j], z3.Implies(z3.And(j >= 0, j < n), kn(z3.Select(el, j)) != kn(x))))
        if eng.feasible(miss):
            out.append(eng.exc(miss, "ValueError", note="x not in list"))
        return out

    def instdict_method(self, eng, st, d, name, pos, kw, fx):
        arr = st.get("idict", d.addr)
        if name in ("items", "keys", "values"):
            return [Res("ok", st, PView(name, d.addr, inst=True))]
        if name == "get":
            key = eng.to_val(st, pos[0])
            dflt = eng.to_val(st, pos[1]) if len(pos) > 1 else NONE
            v = z3.Select(arr, s_of(key))
            return [Res("ok", st, z3.If(z3.Or(z3.Not(is_str(key)), is_absent(v)), dflt, v))]
        if name == "pop":
            key = eng.to_val(st, pos[0])
            v = z3.Select(arr, s_of(key))
            out = []
            for s2, b in eng.split(st, is_absent(v), note="pop missing"):
                if b:
                    if len(pos) > 1:
                        out.append(Res("ok", s2, eng.to_val(s2, pos[1])))
                    else:
                        out.append(eng.exc(s2, "KeyError", key))
                else:
                    eng.write(s2, "idict", d.addr, z3.Store(s2.get("idict", d.addr), s_of(key), ABSENT), "__dict__ pop")
                    out.append(Res("ok", s2, v))
            return out
        raise Unsupported("__dict__.%s" % name)

    # kwargs: concrete names plus optional symbolic rest
    def kwargs_get(self, eng, st, kwv, idx, dflt, strict):
        if kwv.rest is not None:
            raise Unsupported("lookup in symbolic **kwargs")
        idx = eng.to_val(st, idx)
        c = z3.simplify(s_of(idx))
        if z3.is_int_value(c) and z3.is_true(z3.simplify(is_str(idx))):
            name = STR.rev.get(c.as_long())
            if name in kwv.items:
                return [Res("ok", st, kwv.items[name])]
            return [eng.exc(st, "KeyError", idx)] if strict else [Res("ok", st, dflt)]
        # symbolic key: split over the concrete names
        out = []
        rest = st
        for name, v in kwv.items.items():
            br = eng.split(rest, idx == STR.val(name), note="kwarg %s" % name)
            nxt = None
            for s2, b in br:
                if b:
                    out.append(Res("ok", s2, v))
                else:
                    nxt = s2
            if nxt is None:
                return out
            rest = nxt
        out.append(eng.exc(rest, "KeyError", idx) if strict else Res("ok", rest, dflt))
        return out

    def kwargs_contains(self, eng, st, kwv, item):
        if kwv.rest is not None:
            raise Unsupported("membership in symbolic **kwargs")
        item = eng.to_val(st, item)
        return [Res("ok", st, vbool(z3.Or(*[item == STR.val(n) for n in kwv.items]) if kwv.items else z3.BoolVal(False)))]

    def kwargs_method(self, eng, st, kwv, name, pos, kw, fx):
        if name == "get":
            return self.kwargs_get(eng, st, kwv, pos[0], pos[1] if len(pos) > 1 else NONE, False)
        if name == "items":
            if kwv.rest is not None:
                raise Unsupported("items of symbolic **kwargs")
            items = [PTuple([STR.val(k), v]) for k, v in kwv.items.items()]
            return [Res("ok", st, PSeq(len(items), lambda s, k, items=items: items[k], "kwargs items"))]
        if name == "pop":
            r = self.kwargs_get(eng, st, kwv, pos[0], pos[1] if len(pos) > 1 else None, len(pos) < 2)
            raise Unsupported("kwargs.pop")
        raise Unsupported("kwargs.%s" % name)

    # ------------------------------------------------------------------ builtin functions
    def builtin(self, eng, st, name, pos, kw, fx, node=None):
        h = self.builtin_hooks.get(name)
        if h is not None:
            r = h(eng, st, pos, kw, fx)
            if r is not None:
                return r
        m = getattr(self, "bi_" + name.replace(".", "_"), None)
        if m is None:
            raise Unsupported("builtin %s" % name)
        return m(eng, st, pos, kw, fx)

    def bi_len(self, eng, st, pos, kw, fx):
        x = pos[0]
        if isinstance(x, PTuple):
            return [Res("ok", st, vint(z3.IntVal(len(x.items))))]
        if isinstance(x, PKwargs) and x.rest is None:
            return [Res("ok", st, vint(z3.IntVal(len(x.items))))]
        if not is_val(x):
            raise Unsupported("len of %r" % (x,))
        out = []
        for s2, k in self.kind_split(eng, st, x, ["list", "tuple", "dict", "set"]):
            a = a_of(x)
            if k in ("list", "tuple"):
                s2.assume(s2.get("llen", a) >= 0)
                out.append(Res("ok", s2, vint(s2.get("llen", a))))
            elif k in ("dict", "set"):
                s2.assume(s2.get("dsize", a) >= 0)
                out.append(Res("ok", s2, vint(s2.get("dsize", a))))
            else:
                out.extend(eng.call_method(s2, x, "__len__", [], {}, fx))
        return out

    def bi_isinstance(self, eng, st, pos, kw, fx):
        return [Res("ok", st, vbool(self.isinstance_(eng, st, pos[0], pos[1])))]

    def bi_issubclass(self, eng, st, pos, kw, fx):
        h = self.builtin_hooks.get("issubclass")
        if h is not None:
            r = h(eng, st, pos, kw, fx)
            if r is not None:
                return r
        a, b = pos
        if isinstance(a, PClass) and isinstance(b, PClass):
            return [Res("ok", st, vbool(z3.BoolVal(CLS.is_sub(a.name, b.name))))]
        a, b = eng.to_val(st, a), eng.to_val(st, b)
        out = []
        for s2, ok in eng.split(st, z3.And(is_cls(a), is_cls(b)), note="issubclass of classes"):
            if ok:
                out.append(Res("ok", s2, vbool(subcls(c_of(a), c_of(b)))))
            else:
                out.append(eng.exc(s2, "TypeError", note="issubclass() arg must be a class"))
        return out

    def bi_hasattr(self, eng, st, pos, kw, fx):
        obj, name = pos
        nm = self.static_str(name)
        if nm is None:
            # symbolic name: getattr by ordinary lookup, AttributeError -> False
            out = []
            for r in self.dyn_getattr(eng, st, obj, name, None, fx):
                if r.kind == "ok":
                    out.append(Res("ok", r.st, vbool(z3.BoolVal(True))))
                elif r.val.cls is not None and CLS.is_sub(r.val.cls, "AttributeError"):
                    out.append(Res("ok", r.st, vbool(z3.BoolVal(False))))
                else:
                    out.append(r)
            return out
        out = []
        for r in eng.getattr_(st, obj, nm, fx):
            if r.kind == "ok":
                out.append(Res("ok", r.st, vbool(z3.BoolVal(True))))
            elif isinstance(r.val, PExc) and r.val.cls == "AttributeError":
                out.append(Res("ok", r.st, vbool(z3.BoolVal(False))))
            else:
                out.append(r)
        return out

    def static_str(self, v):
        if isinstance(v, str):
            return v
        if is_val(v):
            c = z3.simplify(s_of(v))
            if z3.is_int_value(c) and z3.is_true(z3.simplify(is_str(v))):
                return STR.rev.get(c.as_long())
        return None

    def bi_getattr(self, eng, st, pos, kw, fx):
        obj, name = pos[0], pos[1]
        nm = self.static_str(name)
        if nm is None:
            return self.dyn_getattr(eng, st, obj, name, pos[2] if len(pos) > 2 else None, fx)
        out = []
        if isinstance(obj, PClass) and obj.name in SENTINELS and len(pos) > 2:
            return [Res("ok", st, pos[2])]          # the sentinel objects (MISSING, ...) carry no attributes
        for r in eng.getattr_(st, obj, nm, fx):
            if r.kind == "exc" and len(pos) > 2 and isinstance(r.val, PExc) and r.val.cls == "AttributeError":
                out.append(Res("ok", r.st, pos[2]))
            else:
                out.append(r)
        return out

    def dyn_getattr(self, eng, st, obj, name, dflt, fx):
        h = self.attr_hooks.get(("dynget", None))
        if h is not None:
            r = h(eng, st, obj, name, dflt, fx)
            if r is not None:
                return r
        if isinstance(obj, PClass) and is_val(name):
            obj = eng.to_val(st, obj)          # a sentinel / class atom
        if is_val(obj) and is_val(name) and eng.static_class(st, obj) is None:
            # foreign object, symbolic attribute name: instance dict, then its class
            sid = s_of(name)
            iv = z3.If(is_ref(obj), z3.Select(st.get("idict", a_of(obj)), sid), ABSENT)
            val = z3.If(is_absent(iv), self.class_level(eng, st, obj, sid), iv)
            out = []
            for s2, b in eng.split(st, is_absent(val), note="dynamic attr missing"):
                if not b:
                    out.append(Res("ok", s2, val))
                elif dflt is not None:
                    out.append(Res("ok", s2, dflt))
                else:
                    out.append(eng.exc(s2, "AttributeError", note="no such attribute"))
            return out
        raise Unsupported("getattr with a symbolic name on %r (static class %s)" % (obj, eng.static_class(st, obj) if is_val(obj) else "-"))

    def bi_setattr(self, eng, st, pos, kw, fx):
        obj, name, val = pos
        nm = self.static_str(name)
        if nm is None and is_val(obj) and eng.valid(st, is_cls(obj)) and is_val(name):
            # setattr(cls, name, value) on a class value: a store into the class's own namespace
            c = c_of(obj)
            d = st.get("cdict", c)
            st = st.fork()
            st.heap["cdict"] = z3.Store(st.heap["cdict"], c, z3.Store(d, s_of(name), eng.to_val(st, val)))
            return [Res("ok", st, NONE)]
        if nm is None:
            h = self.attr_hooks.get(("dynset", None))
            if h is not None:
                r = h(eng, st, obj, name, val, fx)
                if r is not None:
                    return r
            raise Unsupported("setattr with a symbolic name")
        return [Res("ok", q.st, NONE) if q.kind == "ok" else q for q in eng.setattr_(st, obj, nm, val, fx)]

    def bi_delattr(self, eng, st, pos, kw, fx):
        obj, name = pos
        nm = self.static_str(name)
        if nm is None:
            h = self.attr_hooks.get(("dyndel", None))
            if h is not None:
                r = h(eng, st, obj, name, fx)
                if r is not None:
                    return r
            raise Unsupported("delattr with a symbolic name")
        return [Res("ok", q.st, NONE) if q.kind == "ok" else q for q in eng.delattr_(st, obj, nm, fx)]

    def bi_hash(self, eng, st, pos, kw, fx):
        v = eng.to_val(st, pos[0])
        out = []
        for s2, h in self.hash_check(eng, st, v):
            out.append(Res("ok", s2, fresh("hash")) if h else eng.exc(s2, "TypeError", note="unhashable"))
        return out

    def bi_repr(self, eng, st, pos, kw, fx):
        return [Res("ok", st, vstr(fresh("repr", I)))]

    def bi_copy_copy(self, eng, st, pos, kw, fx):
        """copy.copy(x) of an object without __copy__: a new object of the same class holding the same attribute values / elements
        (shallow); values that are no heap objects are returned as they are"""
        v = eng.to_val(st, pos[0])
        out = []
        for br, isref in eng.split(st, is_ref(v), "copy.copy of an object"):
            if not isref:
                out.append(Res("ok", br, v))
                continue
            a = br.new_addr()
            for comp in ("cls_of", "idict", "llen", "lelem", "dhas", "dval", "dkey", "dsize"):
                br.put(comp, a, br.get(comp, a_of(v)))
            out.append(Res("ok", br, vref(a)))
        return out

    def bi_id(self, eng, st, pos, kw, fx):
        if len(pos) == 1 and (is_val(pos[0]) or isinstance(pos[0], PClass)):
            return [Res("ok", st, vint(ID_OF(eng.to_val(st, pos[0]))))]          # the same object has the same id
        return [Res("ok", st, vint(fresh("id", I)))]

    def bi_range(self, eng, st, pos, kw, fx):
        vs = [eng.to_val(st, p) for p in pos]
        for v in vs:
            if not eng.valid(st, is_int(v)):
                raise Unsupported("range of non-int")
        if len(vs) == 1:
            return [Res("ok", st, PRange(z3.IntVal(0), i_of(vs[0])))]
        if len(vs) == 2:
            return [Res("ok", st, PRange(i_of(vs[0]), i_of(vs[1])))]
        raise Unsupported("range with step")

    def bi_enumerate(self, eng, st, pos, kw, fx):
        out = []
        for r in self.iter_plan(eng, st, pos[0], fx):
            if r.kind != "ok":
                out.append(r)
                continue
            p = r.val
            q = PSeq(p.n, lambda s, k, p=p: PTuple([vint(k) if not isinstance(k, int) else vint(z3.IntVal(k)), p.at(s, k)]),
                     "enumerate(%s)" % p.desc)
            q.inner = p
            if hasattr(p, "arr"):
                q.arr_inner = p.arr
            out.append(Res("ok", r.st, q))
        return out

    def bi_iter(self, eng, st, pos, kw, fx):
        return self.iter_plan(eng, st, pos[0], fx)

    def bi_max(self, eng, st, pos, kw, fx):
        vs = [eng.to_val(st, p) for p in pos]
        if len(vs) != 2 or not all(eng.valid(st, is_int(v)) for v in vs):
            raise Unsupported("max() of non-ints")
        return [Res("ok", st, vint(z3.If(i_of(vs[0]) >= i_of(vs[1]), i_of(vs[0]), i_of(vs[1]))))]

    def bi_next(self, eng, st, pos, kw, fx):
        p = pos[0]
        if not isinstance(p, PSeq):
            raise Unsupported("next() of a non-iterator")
        if isinstance(p.n, int):
            if p.n == 0:
                return [eng.exc(st, "StopIteration")]
            return [Res("ok", st, p.at(st, 0))]
        out = []
        for s2, b in eng.split(st, p.n > 0, note="iterator non-empty"):
            if b:
                v = p.at(s2, z3.IntVal(0))
                if is_val(v):
                    s2.assume(z3.Not(is_absent(v)))
                out.append(Res("ok", s2, v))
            elif len(pos) > 1:
                out.append(Res("ok", s2, pos[1]))
            else:
                out.append(eng.exc(s2, "StopIteration"))
        return out

    def bi_callable(self, eng, st, pos, kw, fx):
        x = pos[0]
        if isinstance(x, (PFunc, PBound, PBuiltin, PClass, PPartial)):
            return [Res("ok", st, vbool(z3.BoolVal(True)))]
        if is_val(x):
            # callable(x) of an arbitrary value: classes, functions and methods are; None, numbers, strings are not; for other
            # objects it is a property of the object's class (uninterpreted)
            c = st.get("cls_of", a_of(x))
            FN, MT = CLS.cid("function"), CLS.cid("method")
            return [Res("ok", st, vbool(z3.If(is_cls(x), z3.Not(z3.Or(*[c_of(x) == CLS.cid(sn) for sn in SENTINELS])),
                                              z3.If(is_ref(x), z3.Or(c == FN, c == MT, CALLABLE_CLS(c)), False))))]
        raise Unsupported("callable() of a symbolic value")

    def bi_object___new__(self, eng, st, pos, kw, fx):
        c = pos[0]
        if isinstance(c, PClass):
            return [Res("ok", st, eng.alloc_obj(st, c.name))]
        if is_val(c):
            a = st.new_addr()
            st.put("cls_of", a, c_of(c))
            st.put("idict", a, z3.K(I, ABSENT))
            return [Res("ok", st, vref(a))]
        raise Unsupported("object.__new__ of %r" % (c,))

    def bi_object___init__(self, eng, st, pos, kw, fx):
        return [Res("ok", st, NONE)]

    def bi_object___setattr__(self, eng, st, pos, kw, fx):
        obj, name, val = pos
        nm = self.static_str(name)
        if nm is not None:
            return [Res("ok", q.st, NONE) if q.kind == "ok" else q
                    for q in self.raw_setattr(eng, st, obj, STR.sid(nm), val)]
        return [Res("ok", q.st, NONE) if q.kind == "ok" else q
                for q in self.raw_setattr(eng, st, obj, s_of(eng.to_val(st, name)), val)]

    def bi_functools_partial(self, eng, st, pos, kw, fx):
        return [Res("ok", st, PPartial(pos[0], pos[1:], kw))]

    def bi_threading_RLock(self, eng, st, pos, kw, fx):
        CLS.add("RLock", ("object",))
        eng.known.add("RLock")
        return [Res("ok", st, eng.alloc_obj(st, "RLock"))]

    def bi_rlock_noop(self, eng, st, pos, kw, fx):
        # A-RLOCK: a re-entrant lock provides mutual exclusion and is released on every exit; sequentially a no-op
        return [Res("ok", st, NONE)]

    def bi_inspect_isclass(self, eng, st, pos, kw, fx):
        x = pos[0]
        if isinstance(x, PClass):
            return [Res("ok", st, vbool(z3.BoolVal(True)))]
        if is_val(x):
            return [Res("ok", st, vbool(is_cls(x)))]
        return [Res("ok", st, vbool(z3.BoolVal(False)))]

    def bi_inspect_ismethod(self, eng, st, pos, kw, fx):
        x = pos[0]
        if isinstance(x, PBound):
            return [Res("ok", st, vbool(z3.BoolVal(True)))]
        if is_val(x):
            return [Res("ok", st, vbool(z3.And(is_ref(x), st.get("cls_of", a_of(x)) == CLS.cid("method"))))]
        return [Res("ok", st, vbool(z3.BoolVal(False)))]

    def bi_inspect_isfunction(self, eng, st, pos, kw, fx):
        x = pos[0]
        if isinstance(x, PFunc):
            return [Res("ok", st, vbool(z3.BoolVal(True)))]
        if is_val(x):
            return [Res("ok", st, vbool(z3.And(is_ref(x), st.get("cls_of", a_of(x)) == CLS.cid("function"))))]
        return [Res("ok", st, vbool(z3.BoolVal(False)))]

    def bi_reversed(self, eng, st, pos, kw, fx):
        v = eng.to_val(st, pos[0])
        if not eng.valid(st, z3.And(is_ref(v), st.get("cls_of", a_of(v)) == CLS.cid("list"))):
            raise Unsupported("reversed() of something not known to be a list")
        a = a_of(v)
        n, arr = st.get("llen", a), st.get("lelem", a)
        rn, rarr = fresh("revn", I), fresh("reva", ArrIV)
        j = z3.Int("j!rev")
        st = st.fork()
        st.assume(rn == n, z3.ForAll([j], z3.Select(rarr, j) == z3.If(z3.And(j >= 0, j < n), z3.Select(arr, n - 1 - j), ABSENT),
                                     patterns=[z3.Select(rarr, j)]))
        return [Res("ok", st, eng.alloc_list_sym(st, rn, rarr))]

    def bi_warnings_warn(self, eng, st, pos, kw, fx):
        st.ghost = dict(st.ghost)
        st.ghost["warnings"] = st.ghost.get("warnings", 0) + 1
        return [Res("ok", st, NONE)]

    # ------------------------------------------------------------------ builtin classes called as constructors
    def builtin_class(self, eng, st, c, pos, kw, fx):
        h = self.class_call_hooks.get(c.name)
        if h is not None:
            r = h(eng, st, pos, kw, fx)
            if r is not None:
                return r
        n = c.name
        if n in CLS.ids and CLS.is_sub(n, "BaseException"):
            return [Res("ok", st, PExc(n, None, pos))]
        if n == "type" and len(pos) == 1:
            x = pos[0]
            if is_val(x):
                return [Res("ok", st, self.class_of(eng, st, x))]
            if isinstance(x, PTuple):
                return [Res("ok", st, eng.pclass("tuple"))]
            raise Unsupported("type(%r)" % (x,))
        if n == "list":
            if not pos:
                return [Res("ok", st, eng.alloc_list(st, []))]
            out = []
            for r in self.iter_plan(eng, st, pos[0], fx):
                if r.kind != "ok":
                    out.append(r)
                    continue
                p = r.val
                if hasattr(p, "arr"):
                    out.append(Res("ok", r.st, eng.alloc_list_sym(r.st, p.n, p.arr)))
                else:
                    raise Unsupported("list() of %s" % p.desc)
            return out
        if n == "dict" and not pos and not kw:
            return [Res("ok", st, eng.alloc_dict(st))]
        if n == "set":
            if not pos:
                return [Res("ok", st, eng.alloc_dict(st, "set"))]
            return self.set_from(eng, st, pos[0], fx)
        if n == "tuple" and not pos:
            return [Res("ok", st, PTuple([]))]
        if n == "classmethod" or n == "staticmethod":
            return [Res("ok", st, pos[0])]
        if n == "method" and len(pos) == 2 and not kw:
            # types.MethodType(func, obj): a new method object
            st = st.fork()
            a = st.new_addr()
            st.put("cls_of", a, z3.IntVal(CLS.cid("method")))
            d = z3.Store(z3.Store(z3.K(I, ABSENT), STR.sid("__func__"), eng.to_val(st, pos[0])),
                         STR.sid("__self__"), eng.to_val(st, pos[1]))
            st.put("idict", a, d)
            return [Res("ok", st, vref(a))]
        raise Unsupported("constructor %s(...)" % n)

    def set_from(self, eng, st, src, fx):
        """set(iterable): key set = the values iterated"""
        out = []
        for r in self.iter_plan(eng, st, src, fx):
            if r.kind != "ok":
                out.append(r)
                continue
            p = r.val
            s2 = r.st
            if not hasattr(p, "arr") and not hasattr(p, "keys"):
                raise Unsupported("set() of %s" % p.desc)
            arr = p.arr if hasattr(p, "arr") else p.keys
            d = eng.alloc_dict(s2, "set")
            a = a_of(d)
            k = z3.Const("k!sf", Val)
            j = z3.Int("j!sf")
            hasf = fresh("sfh", ArrVB)
            s2.assume(z3.ForAll([k], z3.Select(hasf, k) ==
                                z3.Exists([j], z3.And(j >= 0, j < p.n, kn(z3.Select(arr, j)) == k))))
            s2.put("dhas", a, hasf)
            sz = fresh("sfs", I)
            s2.assume(sz >= 0, sz <= p.n, z3.Implies(p.n > 0, sz > 0))
            s2.put("dsize", a, sz)
            dk = fresh("sfk", ArrVV)
            s2.assume(z3.ForAll([j], z3.Implies(z3.And(j >= 0, j < p.n),
                                                kn(z3.Select(dk, kn(z3.Select(arr, j)))) == kn(z3.Select(arr, j))),
                                patterns=[z3.Select(arr, j)]))
            s2.put("dkey", a, dk)
            out.append(Res("ok", s2, d))
        return out


PROTOCOL_METHODS = {"append", "insert", "pop", "index", "get", "items", "keys", "values", "add", "discard",
                    "remove", "extend", "update", "copy", "clear", "reverse", "count"}
