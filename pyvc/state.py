"""Symbolic state: environment, SSA heap, path condition, allocation pointer."""
import itertools
import z3
from .vals import (Val, I, B, ArrIV, ArrVB, ArrVV, NONE, ABSENT, vref, vint, vbool, vstr, vcls,
                   is_ref, a_of, STR, CLS)

HEAP_SORTS = {
    "cls_of": z3.ArraySort(I, I),          # address -> class id
    "idict": z3.ArraySort(I, ArrIV),       # address -> (string id -> Val)   instance __dict__
    "llen": z3.ArraySort(I, I),            # lists / tuples
    "lelem": z3.ArraySort(I, ArrIV),
    "dhas": z3.ArraySort(I, ArrVB),        # dicts / sets (keys are canonicalised with key_norm)
    "dval": z3.ArraySort(I, ArrVV),
    "dkey": z3.ArraySort(I, ArrVV),        # canonical key -> the key object actually stored
    "dsize": z3.ArraySort(I, I),
    "cdict": z3.ArraySort(I, ArrIV),       # class id -> (string id -> Val)  mutable class attributes
    "gwit": z3.ArraySort(I, z3.ArraySort(Val, I)),   # GHOST: per dict, canonical key -> witness position
}

_uid = itertools.count()
_HQ = {}


def has_quant(e):
    """does the term contain a forall/exists (lambdas do not count)"""
    k = e.get_id()
    r = _HQ.get(k)
    if r is not None and r[0].eq(e):
        return r[1]
    r = False
    todo = [e]
    seen = set()
    while todo:
        x = todo.pop()
        xi = x.get_id()
        if xi in seen:
            continue
        seen.add(xi)
        if z3.is_quantifier(x):
            if not x.is_lambda():
                r = True
                break
            todo.append(x.body())
        else:
            ch = x.children()
            if z3.is_eq(x) and any(z3.is_quantifier(c) for c in ch):
                r = True       # array == lambda needs extensionality: as hard as a quantifier
                break
            todo.extend(ch)
    _HQ[k] = (e, r)      # the term is kept alive so that its id cannot be reused
    return r


def fresh(prefix, sort=Val):
    return z3.Const("%s!%d" % (prefix, next(_uid)), sort)


class St:
    __slots__ = ("env", "heap", "pc", "alloc", "ghost", "frames", "log")

    def __init__(self):
        self.env = {}
        self.heap = {}
        self.pc = []
        self.alloc = None
        self.ghost = {}
        self.frames = ()       # stack of write-permission predicates (callables addr -> Bool)
        self.log = ()          # readable trace of decisions (for reports)

    def fork(self):
        s = St()
        s.env = dict(self.env)
        s.heap = dict(self.heap)
        s.pc = list(self.pc)
        s.alloc = self.alloc
        s.ghost = dict(self.ghost)
        s.frames = self.frames
        s.log = self.log
        return s

    def assume(self, *conds):
        for c in conds:
            if isinstance(c, bool):
                c = z3.BoolVal(c)
            if z3.is_and(c):
                self.assume(*c.children())      # flatten: keeps ground conjuncts usable on their own
            else:
                self.pc.append(c)
        return self

    def qf_pc(self):
        """the quantifier-free conjuncts of the path condition (a sound weakening used for pruning)"""
        return [c for c in self.pc if not has_quant(c)]

    def note(self, msg):
        self.log = self.log + (msg,)
        return self

    # ---- heap primitives -------------------------------------------------
    def get(self, comp, addr):
        return z3.Select(self.heap[comp], addr)

    def put(self, comp, addr, value):
        self.heap[comp] = z3.Store(self.heap[comp], addr, value)

    def new_addr(self):
        a = self.alloc
        self.alloc = a + 1
        return a


def initial_state(tag="H0"):
    st = St()
    for comp, sort in HEAP_SORTS.items():
        st.heap[comp] = z3.Const("%s_%s" % (tag, comp), sort)
    st.alloc = z3.Int("alloc0")
    st.assume(st.alloc >= 1000)     # addresses below 1000 are reserved for global singletons
    # heap well-formedness: no reference stored in the initial heap points at an unallocated address
    a, i = z3.Int("a!hw"), z3.Int("i!hw")
    k = z3.Const("k!hw", Val)
    for comp, idx in (("idict", i), ("lelem", i), ("dval", k), ("dkey", k)):
        t = z3.Select(z3.Select(st.heap[comp], a), idx)
        # (only for allocated objects: what lies above the allocation pointer is arbitrary - that is where the loop
        # rule leaves the objects allocated by earlier iterations)
        st.assume(z3.ForAll([a, idx], z3.Implies(z3.And(a < st.alloc, is_ref(t)), z3.And(a_of(t) >= 0, a_of(t) < st.alloc)),
                            patterns=[t]))
    for comp in ("llen", "dsize"):
        t = z3.Select(st.heap[comp], a)
        st.assume(z3.ForAll([a], t >= 0, patterns=[t]))
    # a dict/set that has a key is not empty (dsize is the cardinality of the key set)
    t = z3.Select(z3.Select(st.heap["dhas"], a), k)
    st.assume(z3.ForAll([a, k], z3.Implies(t, z3.Select(st.heap["dsize"], a) > 0), patterns=[t]))
    # list arrays are normalised: the 'no value' marker outside [0, len)  (maintained by every list model)
    t = z3.Select(z3.Select(st.heap["lelem"], a), i)
    st.assume(z3.ForAll([a, i], z3.Implies(z3.Or(i < 0, i >= z3.Select(st.heap["llen"], a)), t == ABSENT), patterns=[t]))
    return st
