"""Discharging obligations: z3 first, cvc5 on what z3 leaves open; 16-process pool (fork)."""
import os
import subprocess
import tempfile
import time
import z3

try:
    z3.set_param("memory_max_size", 3000)          # MB per process: an exhausted solver answers unknown instead of being killed
except Exception:          # pragma: no cover
    pass

VERDICTS = ("proved", "refuted", "undecided")


_sk = [0]


def skolemize(g):
    """replace universally quantified variables in positive positions of the goal by fresh constants
    (equivalent for validity; spares the solver its own skolemisation inside a big negated formula)"""
    if z3.is_quantifier(g) and g.is_forall():
        vs = []
        for i in range(g.num_vars()):
            _sk[0] += 1
            vs.append(z3.Const("sk!%d!%s" % (_sk[0], g.var_name(i)), g.var_sort(i)))
        return skolemize(z3.substitute_vars(g.body(), *reversed(vs)))
    if z3.is_and(g):
        return z3.And(*[skolemize(c) for c in g.children()])
    if z3.is_implies(g):
        return z3.Implies(g.arg(0), skolemize(g.arg(1)))
    if z3.is_or(g):
        return z3.Or(*[skolemize(c) for c in g.children()])
    return g


def check_one(axioms, ob, timeout_ms):
    t0 = time.time()
    try:
        goal = ob.goal if os.environ.get("PYVC_NOSKOLEM") else skolemize(ob.goal)
    except Exception:
        goal = ob.goal
    orig_goal = ob.goal
    ob = type(ob)(ob.oid, ob.kind, ob.hyps, goal, ob.meta)
    # stage 1: quantifier-free hypotheses only (a weakening: unsat here is a proof); fast and robust
    from .state import has_quant
    s = z3.Solver()
    s.set("timeout", min(3000, timeout_ms))
    for a in axioms:
        if not has_quant(a):
            s.add(a)
    for h in ob.hyps:
        if not has_quant(h):
            s.add(h)
    s.add(z3.Not(ob.goal))
    if s.check() == z3.unsat:
        return ("proved", "z3", time.time() - t0, None)
    # stage 2: full hypotheses; small portfolio (z3's quantifier engine is sensitive to configuration)
    # (the goal with its universal quantifiers replaced by constants, and - where that differs - the goal as stated:
    # each form is markedly easier for z3 on some obligations)
    configs = [{"mbqi": True}, {"mbqi": True, "orig": True}, {"mbqi": False}, {"mbqi": True, "seed": 17}]
    if orig_goal.eq(goal):
        del configs[1]
    r = z3.unknown
    s = None
    for k, cfg in enumerate(configs):
        s = z3.Solver()
        s.set("timeout", max(1000, timeout_ms // (2 if k == 0 else 4)))
        if not cfg.get("mbqi", True):
            s.set("smt.mbqi", False)
        if "seed" in cfg:
            s.set("smt.random_seed", cfg["seed"])
        for a in axioms:
            s.add(a)
        s.add(*ob.hyps)
        s.add(z3.Not(orig_goal if cfg.get("orig") else ob.goal))
        r = s.check()
        if r == z3.unsat:
            return ("proved", "z3" if k == 0 else "z3(%s)" % ("stated-goal" if cfg.get("orig") else "cfg%d" % k), time.time() - t0, None)
        if r == z3.sat and cfg.get("mbqi", True):
            break
    dt = time.time() - t0
    if r == z3.sat:
        try:
            m = s.model()
            txt = model_text(m)
        except Exception as e:       # pragma: no cover
            txt = "model unavailable: %s" % e
        return ("refuted", "z3", dt, txt)
    # unknown: hand the same query, as SMT-LIB text, to fresh solver processes (a fresh context removes
    # the dependence on term ids of this process), then to the other installed solvers
    why = s.reason_unknown()
    try:
        smt2 = s.to_smt2()
    except Exception as e:
        return ("undecided", "z3:unknown(%s); no smt2: %s" % (why, e), time.time() - t0, None)
    notes = []
    if os.environ.get("PYVC_FAST"):
        return ("undecided", "z3:unknown(%s) (no CLI fallback: PYVC_FAST)" % why, time.time() - t0, None)
    for name, cmd in (("z3-new", ["z3-new", "-T:%d" % max(5, timeout_ms // 1000)]),
                      ("z3-4.8", ["/usr/bin/z3", "-T:%d" % max(5, timeout_ms // 1000)]),
                      ("cvc5", ["/usr/bin/cvc5", "--tlimit=%d" % timeout_ms])):
        v = run_cli(cmd, smt2, max(5, timeout_ms // 1000))
        if v == "unsat":
            return ("proved", name, time.time() - t0, None)
        notes.append("%s:%s" % (name, v[:40]))
        if v == "sat" and name.startswith("z3"):
            return ("refuted", name, time.time() - t0, "model not extracted (CLI run)")
    return ("undecided", "z3:unknown(%s) %s" % (why, " ".join(notes)), time.time() - t0, None)


def run_cli(cmd, smt2, timeout_s):
    d = "/dev/shm" if os.path.isdir("/dev/shm") else None
    with tempfile.NamedTemporaryFile("w", suffix=".smt2", delete=False, dir=d) as fh:
        fh.write(smt2 if not cmd[0].endswith("cvc5") else "(set-logic ALL)\n" + smt2)
        path = fh.name
    try:
        p = subprocess.run(cmd + [path], capture_output=True, text=True, timeout=timeout_s + 10)
        out = (p.stdout or "").strip().splitlines()
        return out[0] if out else "error:" + (p.stderr or "")[:80]
    except subprocess.TimeoutExpired:
        return "timeout"
    except Exception as e:
        return "error:%s" % e
    finally:
        try:
            os.unlink(path)
        except OSError:
            pass


def run_cvc5(smt2, timeout_s):
    with tempfile.NamedTemporaryFile("w", suffix=".smt2", delete=False, dir="/dev/shm" if os.path.isdir("/dev/shm") else None) as fh:
        fh.write("(set-logic ALL)\n" + smt2)
        path = fh.name
    try:
        p = subprocess.run(["/usr/bin/cvc5", "--tlimit=%d" % (timeout_s * 1000), path],
                           capture_output=True, text=True, timeout=timeout_s + 5)
        out = (p.stdout or "").strip().splitlines()
        return out[0] if out else "error:" + (p.stderr or "")[:100]
    except subprocess.TimeoutExpired:
        return "timeout"
    finally:
        os.unlink(path)


def model_text(m, limit=4000):
    parts = []
    for d in m.decls():
        n = d.name()
        if "!q" in n:
            continue
        try:
            parts.append("%s = %s" % (n, m[d]))
        except Exception:
            pass
    t = "\n".join(sorted(parts))
    return t[:limit]


def discharge(axioms, obs, timeout_ms=10000, procs=None):
    """-> list of (verdict, backend/info, seconds, model) aligned with obs; parallel via fork."""
    procs = procs or min(16, os.cpu_count() or 1)
    if len(obs) <= 2 or procs == 1:
        return [check_one(axioms, o, timeout_ms) for o in obs]
    # fork workers; each handles a stripe and writes results to a pipe
    import pickle
    pipes = []
    for k in range(procs):
        r, w = os.pipe()
        pid = os.fork()
        if pid == 0:
            os.close(r)
            res = []
            try:
                for i in range(k, len(obs), procs):
                    try:
                        res.append((i, check_one(axioms, obs[i], timeout_ms)))
                    except Exception as e:
                        res.append((i, ("undecided", "error %s" % e, 0.0, None)))
                with os.fdopen(w, "wb") as fh:
                    pickle.dump(res, fh)
            finally:
                os._exit(0)
        os.close(w)
        pipes.append((pid, r))
    out = [None] * len(obs)
    for pid, r in pipes:
        with os.fdopen(r, "rb") as fh:
            try:
                res = pickle.load(fh)
            except EOFError:
                res = []
        os.waitpid(pid, 0)
        for i, v in res:
            out[i] = v
    for i in range(len(out)):
        if out[i] is None:
            out[i] = ("undecided", "worker died", 0.0, None)
    return out
