"""Contracts: sidecar specifications of the real functions (DESIGN.md section 3).

A contract is used twice:
  * verify(): the function's *body* (read from /repo) is executed symbolically from an arbitrary
    state satisfying `pre`, and every exit must satisfy `post` / the declared exceptional
    postcondition, every heap write must hit the `modifies` set or a fresh object;
  * apply(): at a call site inside another function only the contract is used (modularity).
"""
import z3

from .vals import *
from .state import St, fresh, HEAP_SORTS, initial_state
from .pvals import *
from .symex import Res, Fctx, is_val, Ob


class Ctx:
    def __init__(self, eng, con, pre, args):
        self.eng, self.con, self.pre, self.args = eng, con, pre, args
        self.post = None
        self.res = None
        self.exc = None
        self.ghost = {}
        self.side = "apply"

    def __getattr__(self, name):
        a = self.__dict__.get("args", {})
        if name in a:
            return a[name]
        raise AttributeError(name)

    # helpers ---------------------------------------------------------
    def lemma(self, st, name, g):
        """cut rule: prove g once (own obligation), then use it as a hypothesis of the later ones"""
        if self.side == "verify":
            self.eng.oblige(st, "%s.lemma.%s" % (self.con.name(), name), g, kind="lemma")
            st.assume(g)

    def fld(self, st, obj, name):
        return z3.Select(st.get("idict", a_of(obj)), STR.sid(name))


class LoopSpec:
    variant = None

    def __init__(self, inv, modifies=None, variant=None, ghost_step=None):
        self._inv, self._mod = inv, modifies
        self.ghost_step = ghost_step
        if variant is not None:
            self.variant = variant

    def ctx(self, eng, fx, pre, plan):
        lc = Ctx(eng, None, pre, dict(pre.env))
        lc.plan = plan
        lc.entry = fx.entry_ctx if hasattr(fx, "entry_ctx") else None
        return lc

    def inv(self, lc, st, i):
        return self._inv(lc, st, i)

    def modifies(self, lc, pre):
        return self._mod(lc, pre) if self._mod else []


class Contract:
    qual = None          # "module:Class.method"
    recv = None          # class qual of the receiver (verification of inherited methods per subclass)
    assumed = False      # contract of a function that is not verified (external / out of subset)
    pure_fn = None
    loops = {}           # ordinal -> LoopSpec   (or (inner function name, ordinal))
    raises = {}          # exception class name -> method name
    kwargs_names = ()    # concrete names to put into **kwargs when verifying
    star_args = ()       # concrete arity for *args when verifying
    reason = ""
    verify_recv = None   # receiver class used when verifying a contract that callers look up by name only
    raw_args = False     # keep engine-level argument values (functions, tuples) instead of reifying them

    def name(self):
        n = self.qual.split(":")[1]
        if self.recv:
            n += "[%s]" % self.recv.split(":")[1]
        return n

    # ---- specification hooks (override) -----------------------------
    def setup(self, c):
        """typing/shape assumptions about the entry state (verification only)"""

    def pre(self, c):
        return []

    def post(self, c):
        return []

    def modifies(self, c):
        return []

    def result(self, c):
        return None

    def loop_spec(self, fqual, ordn, node):
        return self.loops.get(ordn)

    def link_bound(self, eng, st, v, bound):
        pass

    # ---- caller side -------------------------------------------------
    def bind(self, eng, st, f, pos, kw, fx):
        fx2 = Fctx(f.module, f.closure, None, f.info, None, fx.depth, f.owner)
        env, err = eng.bind_args(st, f, pos, kw, fx2)
        if env is None:
            return None, err
        for k, v in list(env.items()):
            if isinstance(v, tuple) and len(v) == 2 and v[0] == "default":
                saved = st.env
                st.env = {}
                rs = eng.ev(v[1], st, fx2)
                st.env = saved
                if len(rs) != 1 or rs[0].kind != "ok":
                    raise Unsupported("default argument with effects")
                env[k] = rs[0].val
        return env, None

    def havoc(self, st, mods):
        """forget the contents of the objects a callee may modify; an entry (addr, cond) is modified only when cond holds"""
        for a in mods:
            cond = None
            if isinstance(a, tuple):
                a, cond = a
            for comp, sort in HEAP_SORTS.items():
                if comp in ("cls_of", "cdict", "gwit"):
                    continue          # ghost state changes only through explicit ghost assignments in contracts
                new = fresh("hv_" + comp, sort.range())
                if cond is not None:
                    new = z3.If(cond, new, z3.Select(st.heap[comp], a))
                st.heap[comp] = z3.Store(st.heap[comp], a, new)
        na = fresh("alloc", I)
        st.assume(na >= st.alloc)
        st.alloc = na

    def apply(self, eng, st, f, pos, kw, fx, recv_cls):
        env, err = self.bind(eng, st, f, pos, kw, fx)
        if env is None:
            return [eng.exc(st, "TypeError", note=err)]
        if not self.raw_args:
            for k, v in list(env.items()):
                if isinstance(v, (PFunc, PBound, PPartial, PClass, PTuple)) and not isinstance(v, PKwargs):
                    env[k] = eng.to_val(st, v)
        c = Ctx(eng, self, st, env)
        nm = self.name()
        set_mode("prove", st)
        for cn, g in self.pre(c):
            eng.oblige(st, "call-pre.%s.%s" % (nm, cn), g, kind="call-pre")
        mods = list(self.modifies(c))
        for a in mods:
            if isinstance(a, tuple):
                eng.check_write(st, a[0], "modifies of %s" % nm, cond=a[1])
            else:
                eng.check_write(st, a, "modifies of %s" % nm)
        out = []
        post = st.fork()
        self.havoc(post, mods)
        c.post = post
        c.exc = None
        set_mode("assume", post)
        c.res = self.result(c)
        if c.res is None:
            c.res = fresh("res_" + nm.replace(".", "_"))
            post.assume(z3.Not(is_absent(c.res)))
        for cn, g in self.post(c):
            post.assume(g)
        post.note("%s returns" % nm)
        if eng.feasible(post):
            out.append(Res("ok", post, c.res))
        for ecls, meth in self.raises.items():
            pe = st.fork()
            self.havoc(pe, mods)
            c2 = Ctx(eng, self, st, env)
            c2.post = pe
            if ecls == "*":
                cid = fresh("exc_cls", I)
                pe.assume(subcls(cid, CLS.cid("Exception")))
                c2.exc = PExc(None, cid, [], "raised inside %s" % nm)
            else:
                eng.known.add(ecls)
                if ecls not in CLS.ids:
                    CLS.add(ecls, ("Exception",))
                c2.exc = PExc(ecls, None, [], "raised by %s" % nm)
            set_mode("assume", pe)
            for cn, g in getattr(self, meth)(c2):
                pe.assume(g)
            pe.note("%s raises %s" % (nm, ecls))
            if eng.feasible(pe):
                out.append(Res("exc", pe, c2.exc))
        return out

    # ---- verification of the body -------------------------------------
    def entry_args(self, eng, st, f):
        """fresh symbolic arguments for every parameter"""
        a = f.node.args
        env = {}
        for p in a.posonlyargs + a.args + a.kwonlyargs:
            env[p.arg] = fresh("arg_" + p.arg)
            st.assume(z3.Not(is_absent(env[p.arg])))
            st.assume(z3.Implies(is_ref(env[p.arg]), z3.And(a_of(env[p.arg]) >= 0, a_of(env[p.arg]) < st.alloc)))
        if a.vararg:
            items = [fresh("va%d" % i) for i in range(len(self.star_args))] if not self.star_args or isinstance(self.star_args[0], str) else list(self.star_args)
            env[a.vararg.arg] = PTuple(items)
        if a.kwarg and getattr(self, "kwargs_symbolic", False):
            # **kwargs as an arbitrary dict of its own: string keys, present (allocated) values
            d = eng.alloc_dict(st)
            A = a_of(d)
            h, v, dk, n = fresh("kwh", ArrVB), fresh("kwv", ArrVV), fresh("kwk", ArrVV), fresh("kwn", I)
            k = z3.Const("k!kw", Val)
            st.put("dhas", A, h)
            st.put("dval", A, v)
            st.put("dkey", A, dk)
            st.put("dsize", A, n)
            st.assume(n >= 0)
            st.assume(z3.ForAll([k], z3.Implies(z3.Select(h, k), z3.And(
                n > 0, is_str(z3.Select(dk, k)), kn(z3.Select(dk, k)) == k, z3.Not(is_absent(z3.Select(v, k))),
                z3.Implies(is_ref(z3.Select(v, k)), z3.And(a_of(z3.Select(v, k)) >= 0, a_of(z3.Select(v, k)) < A)))),
                patterns=[z3.Select(h, k)]))
            env[a.kwarg.arg] = d
        elif a.kwarg:
            items = {}
            for n in self.kwargs_names:
                items[n] = fresh("kw_" + n)
                st.assume(z3.Not(is_absent(items[n])))
                st.assume(z3.Implies(is_ref(items[n]), z3.And(a_of(items[n]) >= 0, a_of(items[n]) < st.alloc)))
            env[a.kwarg.arg] = PKwargs(items)
        return env

    def verify(self, eng, finfo=None, closure=None):
        """-> number of exit paths; obligations are appended to eng.obligations"""
        f = PFunc(finfo if finfo is not None else eng.ft.func(self.qual), closure=closure or {})
        st = initial_state()
        env = self.entry_args(eng, st, f)
        c = Ctx(eng, self, st, env)
        c.side = "verify"
        nm = self.name()
        if "self" in env and (self.recv or self.verify_recv):
            ci = eng.ft.classes[self.recv or self.verify_recv]
            eng.pclass(ci.name, ci)
            a = fresh("self_addr", I)
            st.assume(a >= 1000, a < st.alloc)
            env["self"] = vref(a)
            st.assume(st.get("cls_of", a) == CLS.cid(ci.name))
        set_mode("assume", st)
        self.setup(c)
        for cn, g in self.pre(c):
            st.assume(g)
        if not eng.feasible(st):
            raise RuntimeError("vacuous precondition for %s" % nm)
        s = eng.solver(10000, qf=True)
        s.add(*st.qf_pc())
        if s.check() != z3.sat:
            raise RuntimeError("precondition of %s not shown satisfiable (%s)" % (nm, s.check()))
        mods = list(self.modifies(c))
        def allow(addr, A=mods):
            alts = [z3.And(addr == m[0], m[1]) if isinstance(m, tuple) else addr == m for m in A]
            return z3.Or(*alts) if alts else z3.BoolVal(False)
        st.frames = ({"owner": nm, "label": "modifies", "alloc": st.alloc, "allow": allow},)
        entry = st.fork()
        c.pre = entry
        st = st.fork()
        st.env = dict(env)
        eng.cur_target = self
        eng.site = []
        fx = Fctx(f.module, f.closure, self.recv or self.verify_recv or (f.owner.qual if f.owner else None), f.info, self, 0, f.owner)
        fx.entry_ctx = c
        pos = []
        rs = self.run_body(eng, st, f, fx)
        npaths = 0
        for r in rs:
            npaths += 1
            cc = Ctx(eng, self, entry, env)
            cc.side = "verify"
            cc.post = r.st
            set_mode("prove", r.st)
            if r.kind == "ok":
                cc.res = r.val
                for cn, g in self.post(cc):
                    eng.oblige(r.st, "%s.post.%s" % (nm, cn), g, kind="post")
            else:
                e = r.val
                cc.exc = e
                meth = None
                if e.cls is not None:
                    for ecls in self.raises:
                        if ecls != "*" and CLS.is_sub(e.cls, ecls):
                            meth = self.raises[ecls]
                            break
                if meth is None and "*" in self.raises:
                    meth = self.raises["*"]
                if meth is None:
                    eng.oblige(r.st, "%s.noexc.%s" % (nm, e.cls or "callback-exception"), z3.BoolVal(False),
                               kind="noexc", meta={"exc": repr(e)})
                else:
                    for cn, g in getattr(self, meth)(cc):
                        eng.oblige(r.st, "%s.exc[%s].%s" % (nm, e.cls or "*", cn), g, kind="exc-post")
        eng.cur_target = None
        set_mode("assume")
        return npaths

    # cut points (Floyd): `cuts` = [(anchor, name, inv)] in source order; anchor is the beginning of the unparsed text of
    # a top-level statement of the body.  At a cut every incoming path proves inv(c, state); execution continues from ONE
    # state: the entry state with the modifies set and every assigned local forgotten, inv assumed.  (Objects outside the
    # modifies set are never written - that is what the write-site frame obligations establish - so their entry contents
    # are still valid; objects allocated meanwhile lie above the entry allocation pointer, where nothing is known.)
    cuts = ()

    def run_cut_segments(self, eng, st, f, fx):
        import ast
        body = list(f.node.body)
        idx = []
        pos = 0
        for cut in self.cuts:
            anchor, name, inv = cut[:3]
            hit = None
            for i in range(pos, len(body)):
                if ast.unparse(body[i]).startswith(anchor):
                    hit = i
                    break
            if hit is None:
                raise Unsupported("cut point %r not found in %s" % (anchor, self.name()))
            idx.append((hit, name, inv, len(cut) > 3 and cut[3] == "assumed"))
            pos = hit + 1
        names = eng.assigned_names(body)
        entry = fx.entry_ctx.pre
        finals = []
        cur = [st]
        start = 0
        nm = self.name()
        for hit, name, inv, assumed in idx + [(len(body), None, None, False)]:
            seg = body[start:hit]
            oks = []
            if assumed:
                # the segment before this cut is NOT verified: its effect is taken to be the cut invariant (an assumption the
                # contract must declare); execution continues from the cut state
                eng.stats["assumed"].add("segment before cut '%s' of %s" % (name, nm))
                oks = [Res("ok", s0) for s0 in cur]
                seg_names = eng.assigned_names(seg)
            for s0 in ([] if assumed else cur):
                for r in (eng.exec_block(seg, s0, fx) if seg else [Res("ok", s0)]):
                    (oks if r.kind == "ok" else finals).append(r)
            if inv is None:
                finals.extend(oks)
                break
            lc = Ctx(eng, self, entry, dict(fx.entry_ctx.args))
            lc.side = "verify"
            for r in ([] if assumed else oks):
                set_mode("prove", r.st)
                for cn, g in inv(lc, r.st):
                    eng.oblige(r.st, "%s.cut.%s.%s" % (nm, name, cn), g, kind="cut")
            # the one state execution continues from
            h = entry.fork()
            h.env = dict(oks[0].st.env) if oks else dict(st.env)
            for v in eng.assigned_names(body[:hit]):     # locals assigned before the cut
                if v in h.env or assumed:
                    h.env[v] = fresh("cv_" + v)
            self.havoc(h, list(self.modifies(fx.entry_ctx)))
            h.frames = st.frames
            h.ghost = dict(st.ghost)
            set_mode("assume", h)
            for cn, g in inv(lc, h):
                h.assume(g)
            h.note("cut %s" % name)
            cur = [h] if oks and eng.feasible(h) else []
            start = hit
        return finals

    def run_body(self, eng, st, f, fx):
        import ast
        if isinstance(f.node, ast.Lambda):
            rs = eng.ev(f.node.body, st, fx)
        elif self.cuts:
            rs = self.run_cut_segments(eng, st, f, fx)
        else:
            rs = eng.exec_block(f.node.body, st, fx)
        out = []
        for r in rs:
            if r.kind == "ok" and not isinstance(f.node, ast.Lambda):
                out.append(Res("ok", r.st, NONE))
            elif r.kind == "ret":
                out.append(Res("ok", r.st, r.val))
            elif r.kind in ("exc", "ok"):
                out.append(r)
            else:
                raise Unsupported("stray %s at function exit" % r.kind)
        return out


MODE_HOOKS = []      # lists whose [0] is set to "assume"/"prove" around clause evaluation
SINK = [None]        # where definitional extensions (fresh == term) made by spec functions are recorded


def set_mode(m, sink=None):
    for h in MODE_HOOKS:
        h[0] = m
    if sink is not None:
        SINK[0] = sink


def define(prefix, term):
    """definitional extension: a fresh constant equal to `term`, recorded in the current sink state"""
    if SINK[0] is None:
        raise RuntimeError("definition outside clause evaluation")
    st = SINK[0]
    defs = st.ghost.get("defs", {})
    hit = defs.get(term.get_id())
    if hit is not None and hit[0].eq(term):
        return hit[1]
    c = fresh(prefix, term.sort())
    st.assume(c == term)
    st.ghost = dict(st.ghost)
    defs = dict(defs)
    defs[term.get_id()] = (term, c)
    st.ghost["defs"] = defs
    return c


REGISTRY = {}


def register(con_cls):
    inst = con_cls()
    key = (inst.qual, inst.recv) if inst.recv else inst.qual
    REGISTRY[key] = inst
    return con_cls
