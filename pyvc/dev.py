"""developer driver:  python3-vt -m pyvc.dev <module> [ContractClassName ...]"""
import importlib
import sys
import time
import traceback
import z3
from .functable import FuncTable
from .symex import Engine
from .models import Models
from .contracts import REGISTRY
from .pvals import Unsupported
from . import smt


def main():
    modname = sys.argv[1]
    only = set(a for a in sys.argv[2:] if not a.startswith("-"))
    mod = importlib.import_module(modname)
    ft = FuncTable()
    models = Models()
    if hasattr(mod, "install_hooks"):
        mod.install_hooks(models)
    extra = getattr(mod, "EXTRA_CONTRACTS", [])
    contracts = dict(REGISTRY)
    for cls in extra:
        inst = cls()
        contracts[(inst.qual, inst.recv) if inst.recv else inst.qual] = inst
    for key, con in list(REGISTRY.items()):
        if only and type(con).__name__ not in only:
            continue
        if con.assumed:
            continue
        eng = Engine(ft, contracts, models, axioms=list(getattr(mod, "AXIOMS", [])))
        t0 = time.time()
        try:
            n = con.custom_verify(eng) if hasattr(con, "custom_verify") else con.verify(eng)
        except Unsupported as e:
            print("UNSUPPORTED", con.name(), e)
            traceback.print_exc()
            continue
        t1 = time.time()
        flt = [a.split("=", 1)[1] for a in sys.argv if a.startswith("--only=")]
        if flt:
            eng.obligations = [o for o in eng.obligations if any(f in o.oid for f in flt)]
        to = [int(a.split("=", 1)[1]) for a in sys.argv if a.startswith("--to=")]
        res = smt.discharge(eng.base_axioms(), eng.obligations, to[0] if to else 10000)
        t2 = time.time()
        bad = [(o, r) for o, r in zip(eng.obligations, res) if r[0] != "proved"]
        print("%-40s paths=%d obligations=%d proved=%d symex=%.1fs smt=%.1fs feas=%d" % (
            con.name(), n, len(res), len(res) - len(bad), t1 - t0, t2 - t1, eng.stats["feas"]))
        for o, r in bad:
            print("   %s %s %s" % (r[0].upper(), o.oid, r[1]))
            print("      path:", " | ".join(o.meta.get("log", ())))
            if "-m" in sys.argv and r[3]:
                print(r[3][:1500])


if __name__ == "__main__":
    main()
