"""Engine-level (non-symbolic) values that never need to live in the symbolic heap."""


class PFunc:
    """A function of the function table (or a nested def / lambda) plus its captured environment."""
    def __init__(self, info, closure=None, node=None, module=None, name=None, owner=None):
        self.info = info            # FuncInfo or None for lambdas
        self.node = node if node is not None else (info.node if info else None)
        self.closure = closure or {}
        self.module = module or (info.module if info else None)
        self.name = name or (info.name if info else "<lambda>")
        self.owner = owner if owner is not None else (info.cls if info else None)
        self.attrs = {}             # function attributes set by the code (e.g. __raw__)

    @property
    def qual(self):
        return self.info.qual if self.info else "%s:<lambda>" % self.module

    def __repr__(self):
        return "PFunc(%s)" % self.qual


class PBound:
    def __init__(self, func, selfval, recv_cls=None):
        self.func, self.selfval, self.recv_cls = func, selfval, recv_cls

    def __repr__(self):
        return "PBound(%r)" % (self.func,)


class PPartial:
    def __init__(self, func, args, kwargs):
        self.func, self.args, self.kwargs = func, list(args), dict(kwargs)


class PClass:
    """A statically known class: repo class (info set) or builtin (info None)."""
    def __init__(self, name, info=None):
        self.name, self.info = name, info

    def __repr__(self):
        return "PClass(%s)" % self.name

    def __eq__(self, o):
        return isinstance(o, PClass) and o.name == self.name

    def __hash__(self):
        return hash(("PClass", self.name))


class PBuiltin:
    def __init__(self, name):
        self.name = name

    def __repr__(self):
        return "PBuiltin(%s)" % self.name


class PModule:
    def __init__(self, name):
        self.name = name

    def __repr__(self):
        return "PModule(%s)" % self.name


class PTuple:
    def __init__(self, items):
        self.items = list(items)

    def __repr__(self):
        return "PTuple(%r)" % (self.items,)


class PInstDict:
    """obj.__dict__ of a heap instance"""
    def __init__(self, addr):
        self.addr = addr


class PView:
    """dict view: kind in keys/values/items over dict at address addr (or an instance dict)."""
    def __init__(self, kind, addr, inst=False):
        self.kind, self.addr, self.inst = kind, addr, inst


class PSuper:
    def __init__(self, cls_qual, selfval, recv_cls, is_cls=False):
        self.cls_qual, self.selfval, self.recv_cls, self.is_cls = cls_qual, selfval, recv_cls, is_cls


class PExc:
    """An exception instance.  cls is a known class name, or None with a symbolic class id."""
    def __init__(self, cls=None, cid=None, args=None, note=""):
        self.cls, self.cid, self.args, self.note = cls, cid, list(args or []), note
        self.cause = None

    def __repr__(self):
        return "PExc(%s%s)" % (self.cls or "?", (" " + self.note) if self.note else "")


class PRange:
    def __init__(self, lo, hi):
        self.lo, self.hi = lo, hi        # z3 Int terms


class PSeq:
    """An immutable snapshot sequence (n: Int term, at: callable Int term -> value).
    Used for iteration plans and enumerate()."""
    def __init__(self, n, at, desc=""):
        self.n, self.at, self.desc = n, at, desc


class PClassDict:
    """`cls.__dict__` of a (possibly symbolic) class value: the class's own namespace"""
    def __init__(self, cid):
        self.cid = cid


class PKwargs:
    """**kwargs captured as a concrete name->value mapping plus an optional symbolic rest."""
    def __init__(self, items, rest=None):
        self.items, self.rest = dict(items), rest


class Unsupported(Exception):
    """The function uses something outside the stated subset: reported as undecided, never as a violation."""
