"""Per-property check runner: verify every function under contract from /repo's current source,
discharge the obligations, compare with the committed baseline, replay failures, write evidence.

Exit codes: 0 held / 1 violation (VIOLATION line printed) / 2 undecided / 3 checker error.
"""
import concurrent.futures as cf
import hashlib
import importlib
import json
import os
import subprocess
import sys
import time
import traceback

VERIF = os.path.dirname(os.path.dirname(os.path.abspath(__file__)))
VENV_PY = "/venv/bin/python"
REPO = os.environ.get("PYVC_REPO", "/repo")


def family_of(oid):
    """obligation id -> family (function, clause) independent of paths, sites and clause indices"""
    base = oid.split("@")[0]
    parts = base.split(".")
    out = []
    for p in parts:
        if p.isdigit():
            continue
        out.append(p)
    return ".".join(out)


def _load(prop_mod):
    pm = importlib.import_module(prop_mod)
    from .functable import FuncTable
    from .models import Models
    from .contracts import REGISTRY
    for m in pm.CONTRACT_MODULES:
        importlib.import_module(m)
    ft = FuncTable(REPO)
    models = Models()
    for m in pm.CONTRACT_MODULES:
        mod = sys.modules[m]
        if hasattr(mod, "install_hooks"):
            mod.install_hooks(models)
    contracts = dict(REGISTRY)
    if hasattr(pm, "select_contracts"):
        contracts = pm.select_contracts(contracts)
    return pm, ft, models, contracts


def verify_target(args):
    """worker: one function under contract -> dict (picklable)"""
    prop_mod, key, timeout_ms, max_fail = args
    t0 = time.time()
    out = {"key": repr(key), "obligations": [], "error": None, "unsupported": None}
    try:
        import z3
        from .symex import Engine
        from .pvals import Unsupported
        from . import smt
        pm, ft, models, contracts = _load(prop_mod)
        if isinstance(key, tuple) and key and key[0] == "byname":
            # target of a sub-check: resolved here, so that its contract modules are imported in this worker only
            key = [k for k, c in contracts.items() if type(c).__name__ == key[1] and not c.assumed][0]
        con = contracts[key]
        out["name"] = con.name()
        out["qual"] = con.qual

        def fam(oid, nm=con.name()):
            f = family_of(oid)
            # callee preconditions are obligations of the *calling* function: keep callers apart
            return "%s:%s" % (nm, f) if f.startswith("call-pre.") else f
        try:
            fi = con.finfo(ft) if hasattr(con, "finfo") else ft.func(con.qual)
            out["sha"] = fi.sha
            out["lines"] = [fi.node.lineno, fi.node.end_lineno]
            out["file"] = ft.modules[fi.module].path
        except Exception as e:
            out["unsupported"] = "function not found in the source tree: %s" % e
            return out
        axioms = list(getattr(sys.modules[type(con).__module__], "AXIOMS", []))
        eng = Engine(ft, contracts, models, axioms=axioms)
        try:
            if hasattr(con, "custom_verify"):
                npaths = con.custom_verify(eng)
            else:
                npaths = con.verify(eng)
        except Unsupported as e:
            out["unsupported"] = str(e)
            out["symex_s"] = time.time() - t0
            return out
        out["paths"] = npaths
        out["symex_s"] = time.time() - t0
        out["inlined"] = {q: eng.callee_hashes.get(q) for q in sorted(eng.stats["inlined"])}
        out["by_contract"] = sorted(eng.stats["by_contract"])
        out["assumed_used"] = sorted(eng.stats["assumed"])
        ax = eng.base_axioms()
        nfail = 0
        nretry = 0
        t1 = time.time()
        flt = getattr(pm, "FAMILY_FILTER", None)
        for ob in eng.obligations:
            if flt is not None and not any(t in ob.oid for t in flt):
                continue            # clause of another property proved by that property's own check
            if nfail >= max_fail:
                out["obligations"].append({"oid": ob.oid, "family": fam(ob.oid), "kind": ob.kind,
                                           "verdict": "skipped", "info": "after %d failures" % nfail, "secs": 0.0,
                                           "log": list(ob.meta.get("log", ()))})
                continue
            v, info, secs, model = smt.check_one(ax, ob, timeout_ms)
            if v == "undecided" and nretry < 2:
                nretry += 1 if True else 0
                v2, info2, secs2, model2 = smt.check_one(ax, ob, timeout_ms * 4)       # one retry with a larger budget (at most two
                if v2 == "proved":                                                     # fruitless retries per function)
                    nretry -= 1
                secs += secs2
                if v2 != "undecided":
                    v, info, model = v2, info2 + " (retry, 4x budget)" if v2 == "proved" else info2, model2
            if v != "proved":
                nfail += 1
            rec = {"oid": ob.oid, "family": fam(ob.oid), "kind": ob.kind, "verdict": v, "info": info,
                   "secs": round(secs, 3), "log": list(ob.meta.get("log", ()))}
            if v != "proved":
                rec["model"] = model
                try:
                    rec["goal"] = z3.simplify(ob.goal).sexpr()[:3000]
                except Exception:
                    rec["goal"] = ""
            elif len(out["obligations"]) < 2:
                rec["goal"] = ob.goal.sexpr()[:600]
            out["obligations"].append(rec)
        out["smt_s"] = time.time() - t1
    except Exception as e:
        out["error"] = "%s: %s\n%s" % (type(e).__name__, e, traceback.format_exc()[-1500:])
    return out


def run_property(prop_mod, tier="quick", seed=0):
    t0 = time.time()
    pm, ft, models, contracts = _load(prop_mod)
    pid = pm.PROPERTY
    timeout_ms = 10000 if tier == "quick" else 60000
    keys = [k for k, c in contracts.items() if not c.assumed and (not hasattr(pm, "TARGETS") or type(c).__name__ in pm.TARGETS)]
    # deterministic order, seed only rotates it
    keys.sort(key=repr)
    if seed and keys:
        r = seed % len(keys)
        keys = keys[r:] + keys[:r]
    results = []
    # one fresh interpreter per job: the contract registry is process-global, and a sub-check may register a different contract for
    # the same function (the *body* contract of protect_via_deepcopy against its caller-side contract) - a worker that had served
    # such a job would hand the wrong contract to the next one
    import multiprocessing
    ctx = multiprocessing.get_context("spawn")
    with cf.ProcessPoolExecutor(max_workers=min(16, os.cpu_count() or 4, max(1, len(keys) + sum(len(n) for _, n in getattr(pm, 'SUBCHECKS', [])))),
                                mp_context=ctx, max_tasks_per_child=1) as ex:
        futs = [ex.submit(verify_target, (prop_mod, k, timeout_ms, 6)) for k in keys]
        # sub-checks: (props-like module, [contract class names]) verified under their own contract registry
        for sub_mod, names in getattr(pm, "SUBCHECKS", []):
            futs += [ex.submit(verify_target, (sub_mod, ("byname", n), timeout_ms, 6)) for n in names]
        jobs = [(prop_mod, k, timeout_ms, 6) for k in keys]
        for sub_mod, names in getattr(pm, "SUBCHECKS", []):
            jobs += [(sub_mod, ("byname", n), timeout_ms, 6) for n in names]
        lost = []
        for job, f in zip(jobs, futs):
            try:
                results.append(f.result(timeout=3600))
            except Exception as e:
                lost.append((job, e))
    # a worker process that died (a solver crash or the kernel's OOM killer takes the whole pool down): every job that did not
    # deliver is run again, one at a time, each in a fresh process of its own
    for job, e in lost:
        try:
            with cf.ProcessPoolExecutor(max_workers=1, mp_context=ctx, max_tasks_per_child=1) as ex1:
                results.append(ex1.submit(verify_target, job).result(timeout=3600))
        except Exception as e2:
            results.append({"key": repr(job[1]), "error": "worker failed twice: %s / %s" % (e, e2), "obligations": []})
    if False:
        for f in []:
            pass
    extra = []
    if hasattr(pm, "extra_checks"):
        extra = pm.extra_checks(ft, tier, seed)      # syntactic / bounded stand-in results
    return finish(pm, pid, tier, seed, results, extra, contracts, time.time() - t0)


def load_baseline(pid):
    p = os.path.join(VERIF, "obligations.baseline.json")
    if os.path.exists(p):
        return json.load(open(p)).get(pid, {})
    return {}


def load_findings(pid):
    p = os.path.join(VERIF, "KNOWN_FINDINGS.jsonl")
    out = []
    if os.path.exists(p):
        for line in open(p):
            line = line.strip()
            if not line or line.startswith("#") or line.startswith("fixed:"):
                continue
            try:
                d = json.loads(line)
            except Exception:
                continue
            if d.get("property") == pid and d.get("status", "open") == "open":
                out.append(d)
    return out


def finish(pm, pid, tier, seed, results, extra, contracts, wall):
    baseline = load_baseline(pid)
    findings = load_findings(pid)
    fam = {}          # family -> {"n":, "proved":, "bad": [records]}
    errors, unsupported = [], []
    functions = []
    samples = []
    by_backend = {}
    slow = []
    solver_s = 0.0
    slowest = []
    for r in results:
        if r.get("error"):
            errors.append("%s: %s" % (r.get("name", r["key"]), r["error"]))
            continue
        if r.get("unsupported"):
            unsupported.append({"function": r.get("name", r["key"]), "reason": r["unsupported"]})
            continue
        functions.append({"function": r["name"], "qual": r["qual"], "source_sha256_16": r.get("sha"),
                          "file": r.get("file"), "lines": r.get("lines"), "paths": r.get("paths"),
                          "obligations": len(r["obligations"]),
                          "inlined_callees": r.get("inlined"), "callees_by_contract": r.get("by_contract"),
                          "symex_s": round(r.get("symex_s", 0), 2), "smt_s": round(r.get("smt_s", 0), 2)})
        for o in r["obligations"]:
            f = fam.setdefault(o["family"], {"n": 0, "proved": 0, "bad": [], "function": r["name"]})
            f["n"] += 1
            solver_s += o["secs"]
            if o["secs"] >= 2.5:
                slowest.append({"obligation": o["oid"], "function": r["name"], "secs": o["secs"], "verdict": o["verdict"], "backend": o["info"]})
            if o["verdict"] == "proved":
                f["proved"] += 1
                by_backend[o["info"]] = by_backend.get(o["info"], 0) + 1
                if o["info"] != "z3":
                    slow.append({"obligation": o["oid"], "backend": o["info"], "secs": o["secs"], "path": o["log"][-5:]})
                if "goal" in o and len(samples) < 6:
                    samples.append({"obligation": o["oid"], "kind": o["kind"], "path": o["log"][-4:],
                                    "goal_smt": o["goal"], "verdict": "proved by " + o["info"]})
            else:
                f["bad"].append(o)
    total = sum(f["n"] for f in fam.values())
    proved = sum(f["proved"] for f in fam.values())
    # ---- classification -------------------------------------------------------------
    violations, undecided = [], []
    anchors = baseline.get("families", {})
    base_hashes = baseline.get("hashes", {})
    cur_hashes = {r["name"]: {"sha": r.get("sha"), "inlined": r.get("inlined") or {}} for r in results if r.get("name") and not r.get("error")}
    LAST_HASHES[pid] = cur_hashes
    for name, f in fam.items():
        if f["bad"]:
            rec = {"family": name, "function": f["function"], "bad": f["bad"]}
            same_source = f["function"] in base_hashes and base_hashes[f["function"]] == cur_hashes.get(f["function"])
            only_budget = all(b["verdict"] in ("undecided", "skipped") for b in f["bad"])
            if name in anchors and not (same_source and only_budget):
                violations.append(rec)          # passed on the unchanged tree, fails now
            else:
                # new obligation family, or: the solvers ran out of budget on a function whose source (and inlined callees) is
                # byte-for-byte what the baseline was written from - undecided, never a violation
                if name in anchors:
                    rec["note"] = "solver budget exhausted; source of %s unchanged since the baseline" % f["function"]
                undecided.append(rec)
    missing = [a for a in anchors if a not in fam]
    # functions that left the subset / disappeared: their baseline families are undecided, stand-in decides
    lost_functions = sorted(set(anchors[a] for a in missing))
    known_lines = []
    exit_code = 0
    out_lines = []
    viol_count = 0
    os.makedirs(os.path.join(VERIF, "replays", pid), exist_ok=True)
    standin = getattr(pm, "find_counterexample", None)
    by_fn = {}
    for v in violations:
        region = match_finding(findings, v)
        if region is not None:
            known_lines.append("KNOWN-FINDING: property=%s %s" % (pid, region["what"]))
            continue
        by_fn.setdefault(v["function"], []).append(v)
    for fn, vs in sorted(by_fn.items()):
        # one replay search per function; all its failed families are named in the replay file
        v = dict(vs[0])
        v["family"] = vs[0]["family"] if len(vs) == 1 else "%s (+%d more families of %s)" % (vs[0]["family"], len(vs) - 1, fn)
        v["bad"] = [b for x in vs for b in x["bad"][:2]][:6]
        v["all_families"] = [x["family"] for x in vs]
        path, found = make_replay(pm, pid, v, standin)
        viol_count += 1
        out_lines.append("VIOLATION property=%s replay=%s%s" % (pid, path, "" if found else " no-failing-input-found"))
        exit_code = 1
    for e in extra:
        if e.get("status") == "violation":
            region = match_finding(findings, {"family": e["name"], "function": e.get("function", ""), "bad": []}, e)
            if region is not None:
                known_lines.append("KNOWN-FINDING: property=%s %s" % (pid, region["what"]))
                continue
            viol_count += 1
            out_lines.append("VIOLATION property=%s replay=%s" % (pid, e["replay"]))
            exit_code = 1
        elif e.get("status") == "known":
            known_lines.append("KNOWN-FINDING: property=%s %s" % (pid, e["what"]))
        elif e.get("status") == "error":
            errors.append("%s: %s" % (e["name"], e.get("detail", "")))
    if exit_code == 0 and (undecided or missing or unsupported):
        # try the bounded stand-in for the functions concerned before giving up
        decided = False
        if standin is not None:
            fns = sorted(set([u["function"] for u in undecided] + lost_functions + [u["function"] for u in unsupported]))
            for fn in fns:
                res = standin(fn, None, os.path.join(VERIF, "replays", pid))
                if res and res.get("found"):
                    viol_count += 1
                    out_lines.append("VIOLATION property=%s replay=%s" % (pid, res["replay"]))
                    exit_code = 1
                    decided = True
        if not decided:
            for u in undecided:
                out_lines.append("UNDECIDED property=%s obligation=%s (%s)" % (pid, u["family"], u["bad"][0]["info"]))
            for m in missing:
                out_lines.append("UNDECIDED property=%s obligation=%s (not generated on this tree)" % (pid, m))
            for u in unsupported:
                out_lines.append("UNDECIDED property=%s function=%s out-of-subset: %s" % (pid, u["function"], u["reason"]))
            exit_code = 2
    if errors:
        for e in errors:
            out_lines.append("CHECKER-ERROR property=%s %s" % (pid, e.replace("\n", " | ")[:600]))
        if exit_code == 0 or exit_code == 2:
            exit_code = 3
    if total == 0 and not extra:
        out_lines.append("CHECKER-ERROR property=%s zero obligations generated" % pid)
        exit_code = 3
    # ---- evidence -----------------------------------------------------------------------
    assumed = [{"function": c.qual, "contract": type(c).__name__, "why": c.reason}
               for c in contracts.values() if c.assumed]
    level = getattr(pm, "LEVEL", "proof")
    coverage = {
        "obligations": total, "discharged": proved,
        "checker_cmd": "cd /verif && ./check %s --tier %s" % (pid, tier),
        "trusted_base": ["CPython semantics as encoded by pyvc (pyvc/symex.py, pyvc/models.py)", "z3 5.1.0", "cvc5 1.0.3 (fallback)",
                         "python ast module", "sidecar contracts of assumed functions (listed under assumed_contracts)"],
        "functions_under_contract": functions,
        "obligation_families": {k: {"obligations": v["n"], "discharged": v["proved"]} for k, v in sorted(fam.items())},
        "discharged_by_backend": by_backend,
        "solver_seconds": round(solver_s, 2),
        "needed_fallback_backend": slow,
        "assumed_contracts": assumed,
        "out_of_subset": unsupported,
        "baseline_families": len(anchors), "baseline_families_missing": missing,
        "samples": samples,
        "bounded_and_syntactic_checks": extra,
        "obligations_over_2.5s": sorted(slowest, key=lambda x: -x["secs"])[:25],
        "known_findings_open": [f["what"] for f in findings],
        "explanation": getattr(pm, "EXPLANATION", ""),
        "vacuity": {"precondition_satisfiable_checked_per_function": True,
                    "exit_paths_total": sum(f.get("paths") or 0 for f in functions)},
    }
    if level != "proof" or proved != total or total == 0:
        # keep the exploration-style keys too so that the file validates whatever level is claimed
        coverage["evaluations"] = max(1, total + sum(e.get("evaluations", 0) for e in extra))
        coverage["distinct_nontrivial"] = max(2, len(fam) + sum(e.get("distinct", 0) for e in extra))
        coverage["rule"] = ("one case per proof obligation generated from the current source (distinct = obligation "
                            "families) plus the cases enumerated by the labelled bounded stand-ins")
    ev = {"property_id": pid, "tier": tier, "seed": seed, "level": level, "coverage": coverage,
          "assumptions": list(getattr(pm, "ASSUMPTIONS", [])) + ["assumed contract: %s (%s)" % (a["function"], a["why"]) for a in assumed],
          "wall_s": round(wall, 2), "violations": viol_count}
    os.makedirs(os.path.join(VERIF, "evidence"), exist_ok=True)
    with open(os.path.join(VERIF, "evidence", "%s.json" % pid), "w") as fh:
        json.dump(ev, fh, indent=1, default=str)
    seen_lines = set()
    for l in known_lines + out_lines:
        if l not in seen_lines:
            seen_lines.add(l)
            print(l)
    print("%s: %d functions under contract, %d/%d obligations discharged, %d families, %.1fs wall, exit %d" % (
        pid, len(functions), proved, total, len(fam), wall, exit_code))
    return exit_code, fam


def match_finding(findings, v, extra=None):
    for f in findings:
        if f.get("family") and f["family"] == v["family"]:
            return f
        if extra is not None and f.get("check") and f["check"] == extra.get("name"):
            return f
    return None


def make_replay(pm, pid, v, standin):
    """write the replay file for a failed obligation family; try to find a concrete failing input"""
    d = os.path.join(VERIF, "replays", pid)
    os.makedirs(d, exist_ok=True)
    safe = "".join(ch if ch.isalnum() or ch in "._-" else "_" for ch in v["family"])[:120]
    found = None
    if standin is not None:
        try:
            found = standin(v["function"], v, d)
        except Exception as e:
            found = {"found": False, "error": str(e)}
    if found and found.get("found"):
        path = found["replay"]
        # append the failed obligation to the replay header
        try:
            txt = open(path).read()
            hdr = "# failed obligation: %s\n# verdict: %s (%s)\n# path: %s\n# all failed families: %s\n" % (
                v["family"], v["bad"][0]["verdict"], v["bad"][0]["info"], " | ".join(v["bad"][0]["log"][-6:]),
                ", ".join(v.get("all_families", [v["family"]])))
            open(path, "w").write(hdr + txt)
        except Exception:
            pass
        return path, True
    path = os.path.join(d, safe + ".txt")
    with open(path, "w") as fh:
        fh.write("failed obligation family: %s\nfunction: %s\nall failed families: %s\n" % (
            v["family"], v["function"], ", ".join(v.get("all_families", [v["family"]]))))
        fh.write("this family was discharged on the unchanged tree (obligations.baseline.json) and is not any more.\n")
        if found:
            fh.write("bounded search for a concrete failing input: %s\n" % json.dumps({k: x for k, x in found.items() if k != "replay"}))
        for b in v["bad"][:3]:
            fh.write("\nobligation: %s\nverdict: %s (%s)\npath: %s\ngoal:\n%s\n" % (
                b["oid"], b["verdict"], b["info"], " | ".join(b["log"]), b.get("goal", "")))
            if b.get("model"):
                fh.write("solver model (not replayed):\n%s\n" % b["model"])
    return path, False


LAST_HASHES = {}


def write_baseline(pid, fam):
    p = os.path.join(VERIF, "obligations.baseline.json")
    data = json.load(open(p)) if os.path.exists(p) else {}
    data[pid] = {"families": {k: v["function"] for k, v in sorted(fam.items()) if not v["bad"]}, "hashes": LAST_HASHES.get(pid, {})}
    json.dump(data, open(p, "w"), indent=1, sort_keys=True)


def main(argv):
    import argparse
    ap = argparse.ArgumentParser()
    ap.add_argument("prop")
    ap.add_argument("--tier", default=os.environ.get("VERIF_TIER", "quick"))
    ap.add_argument("--write-baseline", action="store_true")
    a = ap.parse_args(argv)
    seed = int(os.environ.get("VERIF_SEED", "0") or 0)
    try:
        code, fam = run_property("props.%s" % a.prop.lower(), a.tier, seed)
    except Exception:
        traceback.print_exc()
        print("CHECKER-ERROR property=%s runner crashed" % a.prop)
        return 3
    if a.write_baseline:
        write_baseline(a.prop.upper(), fam)
    return code


if __name__ == "__main__":
    sys.exit(main(sys.argv[1:]))
