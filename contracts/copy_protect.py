"""protect_via_deepcopy as a *copier*, verified against its body.

Everywhere else in the spec-heap proofs protect_via_deepcopy is used through the contract `ProtectCopy`
(spec_core.py).  Here that contract is discharged against the function's current source: the early return
hands back only values copy.deepcopy would return unchanged anyway (atoms), everything else goes through
copy.deepcopy - whose behaviour is the one remaining assumption, A-COPY - under the module guard, whose
__new__/__enter__/__exit__ are used through their proved C20 contracts.
"""
import z3
from pyvc.vals import *
from pyvc.pvals import *
from pyvc.symex import Res
from pyvc.contracts import Contract, register
from . import c20_copyreg as g
from . import spec_core as sc
from .spec_heap import *

MUT = sc.MUT


class DeepcopyAssumed(sc.ProtectCopy):
    """copy.deepcopy(x, memo): ASSUMED (A-COPY), for spec instances the proved contract of __deepcopy__"""
    reason = "A-COPY: copy.deepcopy (standard library) - deep-equal, mutable parts fresh, atoms as they are, nothing pre-existing modified"


_DC = DeepcopyAssumed()


def deepcopy_hook(eng, st, pos, kw, fx):
    eng.stats["assumed"].add("copy.deepcopy")
    f = PFunc(eng.ft.func(MUT + ":protect_via_deepcopy"))       # (obj, memo): only used to bind the two arguments
    return _DC.apply(eng, st, f, list(pos), kw, fx, None)


@register
class ProtectBody(g.Protect):
    """protect_via_deepcopy(obj, memo): the contract ProtectCopy (a mutate-safe copy; atoms as they are) *and* the guard
    clauses of C20, against the body"""
    qual = MUT + ":protect_via_deepcopy"
    raises = {"*": "exc_any"}

    def setup(self, c):
        sc.assume_spec_shape(c.eng, c.pre, c.obj)
        c.pre.assume(z3.Not(is_absent(c.obj)))
        c.pre.assume(sc.deq(c.obj, c.obj))          # deep equality is reflexive
        # A-META: a spec class does not derive from an immutable built-in scalar type (int, str, bytes, module ...)
        c.pre.assume(z3.Implies(sc.is_spec(c.eng, c.pre, c.obj), z3.Not(sc.leaf(c.pre, c.obj))))
        # bytes objects are immutable leaves for copy.deepcopy (the value model has no bytes sort: they are heap objects)
        self.c = c

    def post(self, c):
        v = c.eng.to_val(c.pre, c.obj)
        # 'slots' (the attribute-wise relation for spec instances) is not re-proved here: it is produced by copy.deepcopy
        # dispatching to the class's __deepcopy__ (contract DeepCopy, proved) and merely handed on by this function
        return self.restored(c) + [("c02." + n, f) for n, f in sc.ProtectCopy.post(self, c) if n != "slots"]

    def exc_any(self, c):
        return self.restored(c)


def install_hooks(models):
    sc.install_hooks(models)
    g.install_hooks(models)
    models.builtin_hooks["copy.deepcopy"] = deepcopy_hook
