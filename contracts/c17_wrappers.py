"""C17 - every generated method accepts exactly what its advertised signature says: translation validation.

MethodBuilder.build assembles the text of a wrapper function and exec's it.  On every run the real MethodBuilder is executed
(bounded/c17_dump.py, under the repository's interpreter) for a corpus of spec classes and hands over, for each generated
method: the wrapper's source text, the advertised signature, the implementation's signature and the accepted virtual keywords.
Each *distinct* wrapper text is then proved, for all argument values:
    - a keyword outside the advertised virtual keywords raises TypeError before the implementation is called;
    - otherwise the implementation is called exactly once, every parameter forwarded under its own name with the value given,
      the remaining keywords forwarded unchanged, and the implementation's result is returned;
and compared statically with the advertised signature (names, kinds, which parameters have defaults, virtual keywords).
validate_attrs (the nested keyword check of MethodBuilder.build) is verified once, against its body, for every keyword set.
The corpus of classes is bounded; each generated program is proved for all inputs (category: translation validation).
"""
import ast
import json
import os
import subprocess
import z3
from pyvc.vals import *
from pyvc.state import fresh
from pyvc.pvals import *
from pyvc.symex import Res, is_val
from pyvc.contracts import Contract, LoopSpec, register, REGISTRY
from pyvc.functable import FuncInfo

MB = "spec_classes.utils.method_builder"
BUILD = MB + ":MethodBuilder.build"
VERIF = os.path.dirname(os.path.dirname(os.path.abspath(__file__)))
REPO = os.environ.get("PYVC_REPO", "/repo")


def dump():
    env = dict(os.environ, PYTHONPATH="%s:%s" % (REPO, VERIF))
    out = subprocess.run(["/venv/bin/python", os.path.join(VERIF, "bounded", "c17_dump.py")], capture_output=True, text=True, env=env, timeout=300)
    if out.returncode != 0:
        raise RuntimeError("c17_dump failed: %s" % out.stderr[-800:])
    return json.loads(out.stdout)


def impl_call_hook(eng, st, f, pos, kw, fx):
    """the call of `implementation(...)` inside a wrapper: logged (ghost), result opaque"""
    if not (is_val(f) and st.ghost.get("c17_impl") is not None and f.eq(st.ghost["c17_impl"])):
        return None
    st = st.fork()
    st.ghost = dict(st.ghost)
    st.ghost["impl_calls"] = st.ghost.get("impl_calls", ()) + ((tuple(pos), dict(kw)),)
    r = fresh("impl_result")
    st.assume(z3.Not(is_absent(r)))
    bad = st.fork()
    ec = fresh("impl_exc", I)
    bad.assume(subcls(ec, CLS.cid("Exception")))
    return [Res("ok", st, r), Res("exc", bad, PExc(None, ec, [], "raised by the implementation"))]


def difference_update_hook(eng, st, recv, pos, kw, fx):
    if is_val(recv):
        # only used to word the error message: the content of the scratch set does not matter
        a = a_of(recv)
        st = st.fork()
        eng.check_write(st, a, "set difference_update")
        st.put("dhas", a, fresh("duh", ArrVB))
        st.put("dsize", a, fresh("dun", I))
        return [Res("ok", st, NONE)]
    return None


def install_hooks(models):
    models.method_hooks[("call_value",)] = impl_call_hook
    models.method_hooks["difference_update"] = difference_update_hook


def all_valid(st, attrs, valid):
    """every key of the dict `attrs` is a member of the set `valid`"""
    k = z3.Const("k!va", Val)
    return z3.ForAll([k], z3.Implies(z3.Select(st.get("dhas", a_of(attrs)), k), z3.Select(st.get("dhas", a_of(valid)), k)))


@register
class ValidateAttrs(Contract):
    """validate_attrs(attrs) inside MethodBuilder.build: TypeError iff some keyword is not in VALID_KWARGS; no effect"""
    qual = BUILD + ".<locals>.validate_attrs"
    raises = {"TypeError": "exc_type"}

    def finfo(self, ft):
        return ft.nested(BUILD, "validate_attrs")

    def custom_verify(self, eng):
        fi = self.finfo(eng.ft)
        self.fv = {"VALID_KWARGS": fresh("fv_valid"), "self": fresh("fv_self")}
        return Contract.verify(self, eng, fi, closure=dict(self.fv))

    def valid_set(self, c):
        if c.side == "verify":
            return self.fv["VALID_KWARGS"]
        return c.eng.to_val(c.pre, self._f.closure["VALID_KWARGS"])

    def apply(self, eng, st, f, pos, kw, fx, recv_cls):
        self._f = f
        return Contract.apply(self, eng, st, f, pos, kw, fx, recv_cls)

    def setup(self, c):
        st, v = c.pre, self.fv["VALID_KWARGS"]
        st.assume(is_ref(v), st.get("cls_of", a_of(v)) == CLS.cid("set"), a_of(v) >= 1000, a_of(v) < st.alloc)
        a = c.attrs
        st.assume(is_ref(a), st.get("cls_of", a_of(a)) == CLS.cid("dict"), a_of(a) >= 1000, a_of(a) < st.alloc, a_of(a) != a_of(v))
        k = z3.Const("k!vs", Val)
        st.assume(z3.ForAll([k], z3.Implies(z3.Select(st.get("dhas", a_of(a)), k), z3.And(is_str(z3.Select(st.get("dkey", a_of(a)), k)),
                                                                                          kn(z3.Select(st.get("dkey", a_of(a)), k)) == k)),
                            patterns=[z3.Select(st.get("dhas", a_of(a)), k)]))
        s = self.fv["self"]
        st.assume(is_ref(s), z3.Not(is_absent(z3.Select(st.get("idict", a_of(s)), STR.sid("name")))))

    def pre(self, c):
        a = c.eng.to_val(c.pre, c.attrs)
        return [("dict", z3.And(is_ref(a), c.pre.get("cls_of", a_of(a)) == CLS.cid("dict")))]

    def modifies(self, c):
        return []

    def post(self, c):
        return [("c17.all-valid", all_valid(c.pre, c.eng.to_val(c.pre, c.attrs), self.valid_set(c))), ("none", c.eng.to_val(c.post, c.res) == NONE)]

    def exc_type(self, c):
        return [("c17.some-invalid", z3.Not(all_valid(c.pre, c.eng.to_val(c.pre, c.attrs), self.valid_set(c))))]

    def inv0(lc, st, i):
        p = lc.plan
        j = z3.Int("j!va")
        valid = lc.entry.con.fv["VALID_KWARGS"]
        return [("so-far", z3.ForAll([j], z3.Implies(z3.And(j >= 0, j < i), z3.Select(lc.pre.get("dhas", a_of(valid)), kn(z3.Select(p.keys, j)))),
                                     patterns=[z3.Select(p.keys, j)]))]
    loops = {0: LoopSpec(inv0, None)}


class Wrapper(Contract):
    """one generated wrapper text (instances are created per distinct text of the corpus)"""
    kwargs_symbolic = True
    raises = {"TypeError": "exc_type", "*": "exc_any"}

    def __init__(self, rec, idx):
        self.rec = rec
        self.idx = idx
        self.qual = "%s#generated/%s/%d" % (BUILD, rec["name"], idx)
        tree = ast.parse(rec["source"])
        self.node = [n for n in tree.body if isinstance(n, ast.FunctionDef)][0]
        self.has_kwargs = self.node.args.kwarg is not None
        self.validates = any(isinstance(n, ast.Call) and isinstance(n.func, ast.Name) and n.func.id == "validate_attrs" for n in ast.walk(self.node))

    def name(self):
        return "generated %s #%d" % (self.rec["name"], self.idx)

    def finfo(self, ft):
        return FuncInfo(self.qual, MB, self.node)

    def custom_verify(self, eng):
        fi = self.finfo(eng.ft)
        self.impl = fresh("implementation")
        self.valid = fresh("valid_kwargs")
        va = eng.ft.nested(BUILD, "validate_attrs")
        self.fv_self = fresh("builder")
        closure = {"implementation": self.impl, "DEFAULTS": fresh("DEFAULTS"), "MISSING": eng.global_value("spec_classes.types.missing", "MISSING"),
                   "validate_attrs": PFunc(va, closure={"VALID_KWARGS": self.valid, "self": self.fv_self})}
        return Contract.verify(self, eng, fi, closure=closure)

    def setup(self, c):
        eng, st = c.eng, c.pre
        st.assume(is_ref(self.impl), st.get("cls_of", a_of(self.impl)) == CLS.cid("function"))
        v = self.valid
        # the concrete keyword set of this wrapper
        st.assume(is_ref(v), st.get("cls_of", a_of(v)) == CLS.cid("set"), a_of(v) >= 1000, a_of(v) < st.alloc)
        k = z3.Const("k!ws", Val)
        names = [STR.val(n) for n in self.rec["valid_kwargs"]]
        member = z3.Or(*[k == kn(n) for n in names]) if names else z3.BoolVal(False)
        st.assume(z3.ForAll([k], z3.Select(st.get("dhas", a_of(v)), k) == member))
        from pyvc.vals import kn_axioms
        st.assume(*kn_axioms(names))
        if self.has_kwargs:
            st.assume(a_of(c.kwargs) != a_of(v))
        st.ghost = dict(st.ghost)
        st.ghost["c17_impl"] = self.impl

    def modifies(self, c):
        return []

    def forwarded(self, c):
        """the implementation was called exactly once: no positional arguments, every parameter under its own name with the value
        given, the remaining keywords (if any) handed on unchanged"""
        calls = c.post.ghost.get("impl_calls", ())
        if len(calls) != 1:
            return z3.BoolVal(False)
        pos, kw = calls[0]
        params = [a.arg for a in self.node.args.posonlyargs + self.node.args.args + self.node.args.kwonlyargs]
        if pos or set(kw) - {"**"} != set(params) or (("**" in kw) != self.has_kwargs):
            return z3.BoolVal(False)
        eqs = [c.eng.to_val(c.post, kw[p]) == c.eng.to_val(c.pre, getattr(c, p)) for p in params]
        if self.has_kwargs:
            eqs.append(c.eng.to_val(c.post, kw["**"]) == c.kwargs)
        return z3.And(*eqs) if eqs else z3.BoolVal(True)

    def post(self, c):
        out = [("c17.forwarded", self.forwarded(c))]
        if self.has_kwargs and self.validates:
            out.append(("c17.keywords-valid", all_valid(c.pre, c.kwargs, self.valid)))
        calls = c.post.ghost.get("impl_calls", ())
        return out

    def exc_type(self, c):
        # a TypeError of the wrapper itself (not of the implementation): an unknown keyword, and nothing has been called
        calls = c.post.ghost.get("impl_calls", ())
        ok = z3.BoolVal(len(calls) == 0 and self.has_kwargs and self.validates)
        return [("c17.rejected-before-call", ok), ("c17.some-invalid", z3.Not(all_valid(c.pre, c.kwargs, self.valid)) if self.has_kwargs else z3.BoolVal(False))]

    def exc_any(self, c):
        # whatever the implementation raised, after the one call
        calls = c.post.ghost.get("impl_calls", ())
        return [("c17.after-call", z3.BoolVal(len(calls) == 1))]


def static_signature_check(rec):
    """advertised signature vs the wrapper's def line and the implementation's signature (no solver involved)"""
    node = [n for n in ast.parse(rec["source"]).body if isinstance(n, ast.FunctionDef)][0]
    a = node.args
    bad = []
    defs = []
    npos = len(a.args)
    ndef = len(a.defaults)
    for i, p in enumerate(a.posonlyargs + a.args):
        defs.append((p.arg, "POSITIONAL_OR_KEYWORD", i >= npos - ndef))
    for p, d in zip(a.kwonlyargs, a.kw_defaults):
        defs.append((p.arg, "KEYWORD_ONLY", d is not None))
    adv = [(n, k, hd) for n, k, hd, _ in rec["advertised"]]
    virt = [x for x in adv if x[0] in rec["valid_kwargs"] or x[1] == "VAR_KEYWORD"]
    real = [x for x in adv if x not in virt]
    if real != defs:
        bad.append("advertised parameters %r differ from the wrapper's own %r" % (real, defs))
    vnames = sorted(x[0] for x in virt if x[1] != "VAR_KEYWORD")
    if a.kwarg is not None:
        has_var = any(x[1] == "VAR_KEYWORD" for x in adv)
        validates = "validate_attrs(kwargs)" in rec["source"]
        if validates and (vnames != sorted(rec["valid_kwargs"]) or has_var):
            bad.append("advertised virtual keywords %r differ from the accepted ones %r" % (vnames, rec["valid_kwargs"]))
        if not validates and not has_var:
            bad.append("the wrapper accepts arbitrary keywords but does not advertise **kwargs")
        if any(x[1] not in ("KEYWORD_ONLY", "VAR_KEYWORD") for x in virt):
            bad.append("a virtual keyword is not advertised keyword-only")
    elif virt:
        bad.append("virtual keywords advertised but the wrapper takes no **kwargs")
    impl = {n: (k, hd) for n, k, hd in rec["impl_params"]}
    impl_var = any(k == "VAR_KEYWORD" for k, _ in impl.values())
    for n, k, hd in defs:
        if n not in impl and not impl_var:
            bad.append("parameter %s is forwarded by name but the implementation does not take it" % n)
    for n, (k, hd) in impl.items():
        if k in ("POSITIONAL_OR_KEYWORD", "KEYWORD_ONLY") and not hd and n not in [d[0] for d in defs]:
            bad.append("the implementation requires %s, which the wrapper never passes" % n)
    return bad


RECORDS = []
STATIC = []


def build_registry():
    seen = {}
    for rec in dump():
        key = (rec["source"], tuple(rec["valid_kwargs"]))
        STATIC.append((rec["name"], static_signature_check(rec)))
        if key in seen:
            continue
        seen[key] = rec
        w = Wrapper(rec, len(seen))
        REGISTRY[w.qual] = w
        RECORDS.append(rec)


build_registry()
