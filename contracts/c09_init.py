"""C09 - the generated constructor assigns exactly what the class hierarchy specifies.

InitMethod.init(spec_cls, self, **kwargs) has three phases, all under contract here:
  phase 2 - the loop over the attributes owned by spec_cls: each init-enabled attribute receives the prepared keyword value
            (a protective copy of it unless do_not_copy / routed by a subclass) if one was given, otherwise the default
            Attr.lookup_default_value(type(self)) yields (nearest along the MRO), otherwise it is left alone (missing);
            no other slot is written;
  phase 3 - __post_init__ runs exactly once, after the loop; the `initializing` flag is removed.
  phase 1 - routing through the parents: for every proper ancestor along the MRO that has spec metadata, the attributes *owned by
            that ancestor* are taken out of the keyword dict (protectively copied unless do_not_copy) or looked up as defaults and
            handed to that ancestor's constructor; proved of this phase: the keyword dict keeps exactly what was passed for the
            attributes this class owns, nothing but the instance, the keyword dict and scratch dicts is written, class-level records
            are untouched.  What a parent's constructor does to the instance is arbitrary (A-PARENT-CTOR: it writes to the instance
            only and may raise) - user-written constructors are code outside the library.
Assumed: cls.mro() is a list of classes starting with cls, which does not occur again (A-MRO); a parent's metadata is a well-formed
record whose attributes all occur in the instance's metadata (A-META).  Overflow attributes (init_overflow_attr: a dynamically
named helper is called) are outside the scope.
"""
import z3
from pyvc.vals import *
from pyvc.state import fresh
from pyvc.pvals import *
from pyvc.symex import Res, is_val, APP, APP_RAISES
from pyvc.contracts import Contract, LoopSpec, register
from pyvc.models import FA
from .spec_core import *
from . import spec_core as sc

INIT_Q = CORE + ":InitMethod.init"


MRO_N = z3.Function("mro_n", Val, I)
MRO_AT = z3.Function("mro_at", Val, I, Val)


def mro_hook(eng, st, recv, pos, kw, fx):
    if is_val(recv) and not pos and eng.valid(st, is_cls(recv)):
        st = st.fork()
        n = MRO_N(recv)
        arr = fresh("mroarr", ArrIV)
        j = z3.Int("j!mro9")
        st.assume(z3.ForAll([j], z3.Select(arr, j) == z3.If(z3.And(j >= 0, j < n), MRO_AT(recv, j), ABSENT), patterns=[z3.Select(arr, j)]))
        return [Res("ok", st, eng.alloc_list_sym(st, n, arr))]
    return None


class PParentInit:
    """`parent.__init__` of a class value: an arbitrary (user-written or generated) constructor.  A-PARENT-CTOR: it writes to the
    instance it is given and to nothing else that existed before, never defines an instance-level __spec_class__, may raise"""
    def __init__(self, parent):
        self.parent = parent

    def pcall(self, eng, st, pos, kw, fx):
        eng.stats["assumed"].add("A-PARENT-CTOR")
        obj = eng.to_val(st, pos[0])
        # what is handed to the parent is what its signature advertises (C09/C17: the generated constructor takes the init-enabled
        # attributes and the key, nothing else): every keyword is an init-enabled attribute of the instance's metadata
        pk = kw.get("**") if isinstance(kw, dict) else None
        if pk is not None and "instance_metadata" in st.env and "parent_metadata" in st.env:
            pk = eng.to_val(st, pk)
            im, pm = eng.to_val(st, st.env["instance_metadata"]), eng.to_val(st, st.env["parent_metadata"])
            k = z3.Const("k!adv", Val)
            has = st.get("dhas", a_of(pk))
            eng.oblige(st, "call-pre.parent-constructor.c09.advertised-keywords",
                       z3.ForAll([k], z3.Implies(z3.Select(has, k), z3.Or(
                           kn(k) == kn(fld(st, pm, "key")),
                           z3.And(rec(st, im, k)[0], fld(st, rec(st, im, k)[1], "init") == vbool(z3.BoolVal(True)))))),
                       kind="call-pre")
            # a constructor is invoked for the class that owns the metadata it was generated from - with A-MRO (every class occurs
            # once along the MRO) no constructor gets a second turn through a plain subclass that merely inherits it
            eng.oblige(st, "call-pre.parent-constructor.c09.own-constructor", owner_of(eng, st, pm) == eng.to_val(st, self.parent),
                       kind="call-pre")
        ok = st.fork()
        eng.check_write(ok, a_of(obj), "parent constructor")
        d0 = ok.get("idict", a_of(obj))
        d1 = fresh("pinit_idict", z3.ArraySort(I, Val))
        SCs = STR.sid("__spec_class__")
        ok.assume(z3.Select(d1, SCs) == z3.Select(d0, SCs))
        ok.put("idict", a_of(obj), d1)
        na = fresh("alloc", I)
        ok.assume(na >= ok.alloc)
        ok.alloc = na
        ok.note("parent constructor returns")
        bad = ok.fork()
        ec = fresh("pinit_exc", I)
        bad.assume(subcls(ec, CLS.cid("Exception")))
        bad.note("parent constructor raises")
        return [Res("ok", ok, NONE), Res("exc", bad, PExc(None, ec, [], "raised by a parent constructor"))]


def parent_init_hook(eng, st, v, fx):
    if is_val(v) and eng.valid(st, is_cls(v)):
        return [Res("ok", st, PParentInit(v))]
    return None


def install_hooks(models):
    sc.install_hooks(models)
    models.method_hooks["mro"] = mro_hook
    models.attr_hooks[("pre", "__init__")] = parent_init_hook


def owner_of(eng, st, m):
    """m.owner as attribute lookup on a foreign object reads it"""
    sid = STR.sid("owner")
    iv = z3.If(is_ref(m), z3.Select(st.get("idict", a_of(m)), sid), ABSENT)
    return z3.If(is_absent(iv), sc.cls_level(eng, st, m, sid), iv)


def rec(st, m, k):
    """the Attr record of name k (canonical key) in metadata m"""
    A = a_of(fld(st, m, "attrs"))
    return z3.Select(st.get("dhas", A), k), z3.Select(st.get("dval", A), k)


@register
class Init(SpecArgs):
    """InitMethod.init(spec_cls, self, **kwargs)"""
    qual = INIT_Q
    kwargs_symbolic = True
    raises = {"*": "exc_any"}

    # ---- vocabulary ------------------------------------------------------------------------------------------------
    def meta(self, c):
        if c.side == "verify" and getattr(self, "_m", None) is not None:
            return self._m
        return meta_of(c.eng, c.pre, c.self)

    def eligible(self, c, k):
        """k names an init-enabled attribute owned by spec_cls (and is not the overflow attribute)"""
        st, m = c.pre, self.meta(c)
        has, a = rec(st, m, k)
        return z3.And(has, c.eng.truthy(st, fld(st, a, "init")), fld(st, a, "owner") == c.eng.to_val(st, c.spec_cls),
                      k != kn(fld(st, m, "init_overflow_attr")))

    def given(self, c, kwst, k):
        """(a keyword value was passed for k, that value) - read from the keyword dict as it is at the cut"""
        K = a_of(c.kwargs)
        v = z3.Select(kwst.get("dval", K), k)
        return z3.And(z3.Select(kwst.get("dhas", K), k), v != sentinel(c.eng, c.pre, "MISSING")), v

    def assigned(self, c, k, r, new, old):
        """slot `new` after self.__setattr__(k, r, force=True, skip_invalidation=True) on a slot holding `old`"""
        eng, st, m = c.eng, c.pre, self.meta(c)
        has, a = rec(st, m, k)
        p = prepared_kw(a, c.self, r, kw_nil)
        return z3.If(is_sentinel(eng, st, p), new == old, new == p)

    def slot_rel(self, c, kwst, k, new, old):
        eng, st, m = c.eng, c.pre, self.meta(c)
        has, a = rec(st, m, k)
        gv, v = self.given(c, kwst, k)
        r = z3.Const("r!in", Val)
        routed_here = fld(st, m, "owner") == eng.to_val(st, c.spec_cls)
        copyreq = z3.And(routed_here, z3.Not(eng.truthy(st, fld(st, a, "do_not_copy"))))
        kls = klass(eng, st, c.self)
        own_copy = z3.And(deq(r, v), z3.Or(r == v, z3.And(is_ref(r), a_of(r) >= st.alloc)))
        from_kw = z3.Exists([r], z3.And(z3.If(copyreq, own_copy, r == v), self.assigned(c, k, r, new, old)), patterns=[deq(r, v)]) \
            if False else z3.Exists([r], z3.And(z3.If(copyreq, own_copy, r == v), self.assigned(c, k, r, new, old)))
        from_default = z3.Exists([r], z3.And(deq(r, DV(a, kls)), z3.Not(is_sentinel(eng, st, r)), self.assigned(c, k, r, new, old)))
        return z3.If(gv, from_kw, z3.If(NODEF(a, kls), new == old, from_default))

    # ---- contract --------------------------------------------------------------------------------------------------
    def setup(self, c):
        eng, st = c.eng, c.pre
        self.typed(c, c.self)
        self._m = None
        m = fresh("meta")
        st.assume(m == meta_of(eng, st, c.self))
        self._m = m
        st.assume(is_spec(eng, st, c.self), is_cls(c.spec_cls))
        st.assume(a_of(c.kwargs) != a_of(c.self), a_of(c.kwargs) != a_of(m), a_of(c.kwargs) != a_of(fld(st, m, "attrs")))
        # scope: no overflow attribute
        st.assume(is_none(fld(st, m, "init_overflow_attr")))
        pi = fld(st, m, "post_init")
        st.assume(z3.Or(is_none(pi), z3.And(is_ref(pi), st.get("cls_of", a_of(pi)) == cid("function"))))
        k = z3.Const("k!io", Val)
        A = a_of(fld(st, m, "attrs"))
        # A-META: every record says who owns it (a class) and whether it takes part in initialisation
        st.assume(z3.ForAll([k], z3.Implies(z3.Select(st.get("dhas", A), k), z3.And(
            is_cls(fld(st, z3.Select(st.get("dval", A), k), "owner")), kn(k) == k)), patterns=[z3.Select(st.get("dhas", A), k)]))
        self._cut = None
        # the MRO of spec_cls: a list of classes starting with spec_cls itself, which does not occur again (A-MRO)
        sk = c.spec_cls
        j = z3.Int("j!m9")
        st.assume(MRO_N(sk) >= 1, MRO_AT(sk, 0) == sk,
                  z3.ForAll([j], z3.Implies(z3.And(j >= 1, j < MRO_N(sk)), z3.And(is_cls(MRO_AT(sk, j)), MRO_AT(sk, j) != sk)), patterns=[MRO_AT(sk, j)]))
        # A-META for the parents: a parent's metadata (if any) is a well-formed record whose attributes all occur in the instance's metadata
        pc = z3.Int("c!pm")
        SCs = STR.sid("__spec_class__")
        pm = clsattr(pc, SCs)
        kq = z3.Const("k!pm", Val)
        PA = a_of(fld(st, pm, "attrs"))
        st.assume(z3.ForAll([pc], z3.Implies(z3.And(z3.Not(is_absent(pm)), z3.Not(is_none(pm))), z3.And(
            is_ref(pm), st.get("cls_of", a_of(pm)) == cid("SpecClassMetadata"), a_of(pm) >= 1000, a_of(pm) < z3.Int("alloc0"), utruthy(a_of(pm)),
            is_ref(fld(st, pm, "attrs")), st.get("cls_of", PA) == cid("dict"), PA >= 1000, PA < z3.Int("alloc0"), st.get("dsize", PA) >= 0,
            a_of(pm) != a_of(c.self), PA != a_of(c.self), a_of(pm) != a_of(c.kwargs), PA != a_of(c.kwargs),
            z3.Not(is_absent(fld(st, pm, "key"))), z3.Or(is_none(fld(st, pm, "key")), is_str(fld(st, pm, "key"))))), patterns=[clsattr(pc, SCs)]))
        A = a_of(fld(st, m, "attrs"))
        st.assume(z3.ForAll([pc, kq], z3.Implies(z3.And(z3.Not(is_absent(pm)), z3.Not(is_none(pm)), z3.Select(st.get("dhas", PA), kq)),
                                                 z3.And(z3.Select(st.get("dhas", A), kq), is_str(kq), kn(kq) == kq,
                                                        z3.Select(st.get("dkey", PA), kq) == kq)),
                            patterns=[z3.Select(st.get("dhas", PA), kq)]))

    def modifies(self, c):
        return [a_of(c.self), a_of(c.kwargs)]

    # the state the verified phases start from (ASSUMPTION: effect of phase 1)
    def cut_own(self, c, st):
        eng, pre = c.eng, c.pre
        m = self.meta(c)
        out = [("metadata", eng.to_val(st, st.env["instance_metadata"]) == m),
               ("class", st.get("cls_of", a_of(c.self)) == pre.get("cls_of", a_of(c.self))),
               ("no-instance-meta", is_absent(fld(st, c.self, "__spec_class__"))),
               ("records", st.get("idict", a_of(m)) == pre.get("idict", a_of(m))),
               ("no-overflow", is_none(fld(st, eng.to_val(st, st.env["instance_metadata"]), "init_overflow_attr")))]
        # the keyword dict still holds what was passed for the attributes this class owns (parents only take their own)
        K = a_of(c.kwargs)
        k = z3.Const("k!ck", Val)
        out.append(("own-keywords", z3.ForAll([k], z3.Implies(self.eligible(c, k), z3.And(
            z3.Select(st.get("dhas", K), k) == z3.Select(pre.get("dhas", K), k),
            z3.Select(st.get("dval", K), k) == z3.Select(pre.get("dval", K), k))))))
        # nothing but the instance and the keyword dict has been written (class-level records as they were)
        for comp in ("dhas", "dval", "dsize", "dkey"):
            out.append(("attrs-" + comp, st.get(comp, a_of(fld(pre, m, "attrs"))) == pre.get(comp, a_of(fld(pre, m, "attrs")))))
        if c.side == "verify":
            self._cut = st          # (the last state this is evaluated on is the one execution continues from)
        return out

    cuts = (("for attr, attr_spec in instance_metadata.attrs.items()", "own-attributes", lambda c, st: c.con.cut_own(c, st)),)

    def post(self, c):
        eng, st = c.eng, c.pre
        cut = self._cut if (c.side == "verify" and self._cut is not None) else None
        k = z3.Const("k!ip", Val)
        s = z3.Int("s!ip")
        old = (lambda kk: z3.Select(D(cut, c.self), s_of(kk))) if cut is not None else (lambda kk: z3.Select(fresh("cutd", z3.ArraySort(I, Val)), s_of(kk)))
        kwst = cut if cut is not None else st
        pi = fld(st, self.meta(c), "post_init")
        out = [("c09.own", z3.Implies(is_none(pi), z3.ForAll([k], z3.Implies(self.eligible(c, k), self.slot_rel(
            c, kwst, k, z3.Select(D(c.post, c.self), s_of(k)), old(k))))))]
        if cut is not None:
            flag = STR.sid("__spec_class_initializing__")
            out.append(("c09.others", z3.Implies(is_none(pi), z3.ForAll([s], z3.Implies(
                z3.And(z3.Not(self.eligible(c, kn(vstr(s)))), s != flag), z3.Select(D(c.post, c.self), s) == z3.Select(D(cut, c.self), s))))))
        routed_here = fld(st, self.meta(c), "owner") == eng.to_val(st, c.spec_cls)
        # ghost call log of the verified phases: exactly one callback - __post_init__(self) - and it comes after the loop
        calls = c.post.ghost.get("calls", ())
        once = z3.And(z3.BoolVal(len(calls) == 1), *([calls[0][0] == pi, calls[0][1][0] == c.self] if len(calls) == 1 else []))
        out.append(("c09.post-init-once", z3.Implies(z3.And(routed_here, z3.Not(is_none(pi))), once)))
        out.append(("c09.no-post-init", z3.Implies(z3.Or(z3.Not(routed_here), is_none(pi)), z3.BoolVal(len(calls) == 0))))
        out.append(("c09.flag-removed", z3.Implies(routed_here, is_absent(fld(c.post, c.self, "__spec_class_initializing__")))))
        return out

    def exc_any(self, c):
        return []

    # loop #2: for attr, attr_spec in instance_metadata.attrs.items()
    def inv2(lc, st, i):
        con, c = lc.entry.con, lc.entry
        eng, pre = lc.eng, c.pre
        cut = con._cut
        k = z3.Const("k!il", Val)
        s = z3.Int("s!il")
        p = lc.plan
        done = lambda kk: z3.And(con.eligible(c, kk), p.pos(kk) >= 0, p.pos(kk) < i)
        K = a_of(c.kwargs)
        return [("done", z3.ForAll([k], z3.Implies(done(k), con.slot_rel(c, cut, k, z3.Select(D(st, c.self), s_of(k)), z3.Select(D(cut, c.self), s_of(k)))))),
                ("rest", z3.ForAll([s], z3.Implies(z3.Not(done(kn(vstr(s)))), z3.Select(D(st, c.self), s) == z3.Select(D(cut, c.self), s)))),
                ("keywords", z3.And(*[st.get(comp, K) == cut.get(comp, K) for comp in ("dhas", "dval", "dsize", "dkey")])),
                ("metadata", eng.to_val(st, st.env["instance_metadata"]) == con.meta(c)),
                # ground instance for the record visited next: it is a well-formed Attr record stored under its own name
                ("next-record", z3.Implies(z3.And(i >= 0, i < p.n), z3.And(
                    wf_attr(pre, z3.Select(p.dval, kn(z3.Select(p.keys, i)))),
                    fld(pre, z3.Select(p.dval, kn(z3.Select(p.keys, i))), "name") == z3.Select(p.keys, i))))]

    def mod2(lc, pre):
        return [a_of(lc.entry.self)]

    # phase 1: `for parent in reversed(spec_cls.mro()[1:])` (loop 0) and `for attr in parent_metadata.attrs` (loop 1)
    def kept(c, st):
        """the keyword dict still holds what was passed for the attributes this class owns; it is the same object"""
        con = c.con
        K = a_of(c.kwargs)
        k = z3.Const("k!kp", Val)
        pre = c.pre
        return z3.ForAll([k], z3.Implies(con.eligible(c, k), z3.And(
            z3.Select(st.get("dhas", K), k) == z3.Select(pre.get("dhas", K), k),
            z3.Select(st.get("dval", K), k) == z3.Select(pre.get("dval", K), k))))

    def advertised(c, st, pk):
        """every keyword collected for the parent is an init-enabled attribute of the instance's metadata"""
        m = c.con.meta(c)
        k = z3.Const("k!adv1", Val)
        has = st.get("dhas", a_of(pk))
        return z3.ForAll([k], z3.Implies(z3.Select(has, k), z3.And(rec(st, m, k)[0], fld(st, rec(st, m, k)[1], "init") == vbool(z3.BoolVal(True)))))

    def inv0(lc, st, i):
        c = lc.entry
        eng, pre, con = lc.eng, c.pre, c.con
        m = con.meta(c)
        p = lc.plan
        sk = eng.to_val(pre, c.spec_cls)
        j = z3.Int("j!i0")
        return [("keywords", Init.kept(c, st)),
                ("metadata", eng.to_val(st, st.env["instance_metadata"]) == m),
                ("no-instance-meta", is_absent(fld(st, c.self, "__spec_class__"))),
                ("class", st.get("cls_of", a_of(c.self)) == pre.get("cls_of", a_of(c.self))),
                # every class visited is a proper ancestor: a class value other than spec_cls
                ("ancestors", FA([j], z3.Implies(z3.And(j >= 0, j < p.n), z3.And(is_cls(z3.Select(p.arr, j)), z3.Select(p.arr, j) != sk)),
                                 [z3.Select(p.arr, j)])),
                ("next-ancestor", z3.Implies(z3.And(i >= 0, i < p.n), z3.And(is_cls(z3.Select(p.arr, i)), z3.Select(p.arr, i) != sk)))]

    def mod0(lc, pre):
        return [a_of(lc.entry.self), a_of(lc.entry.kwargs)]

    def inv1(lc, st, i):
        c = lc.entry
        eng, pre, con = lc.eng, c.pre, c.con
        pk = eng.to_val(st, st.env["parent_kwargs"])
        parent = eng.to_val(st, st.env["parent"])
        sk = eng.to_val(pre, c.spec_cls)
        return [("keywords", Init.kept(c, st)),
                ("metadata", eng.to_val(st, st.env["instance_metadata"]) == con.meta(c)),
                ("parent", z3.And(parent == eng.to_val(lc.pre, lc.pre.env["parent"]), is_cls(parent), parent != sk)),
                ("parent-metadata", eng.to_val(st, st.env["parent_metadata"]) == eng.to_val(lc.pre, lc.pre.env["parent_metadata"])),
                ("scratch", z3.And(pk == eng.to_val(lc.pre, lc.pre.env["parent_kwargs"]), is_ref(pk), a_of(pk) >= pre.alloc,
                                   st.get("cls_of", a_of(pk)) == cid("dict"))),
                ("c09.advertised", Init.advertised(c, st, pk)),
                ("c09.own", owner_of(eng, st, eng.to_val(st, st.env["parent_metadata"])) == parent),
                ("no-instance-meta", is_absent(fld(st, c.self, "__spec_class__")))]

    def mod1(lc, pre):
        eng = lc.eng
        return [a_of(lc.entry.kwargs), a_of(eng.to_val(pre, pre.env["parent_kwargs"]))]
    loops = {0: LoopSpec(inv0, mod0), 1: LoopSpec(inv1, mod1), 2: LoopSpec(inv2, mod2)}
