"""C09 - the generated constructor assigns exactly what the class hierarchy specifies.

InitMethod.init(spec_cls, self, **kwargs) has three phases.  Under contract here:
  phase 2 - the loop over the attributes owned by spec_cls: each init-enabled attribute receives the prepared keyword value
            (a protective copy of it unless do_not_copy / routed by a subclass) if one was given, otherwise the default
            Attr.lookup_default_value(type(self)) yields (nearest along the MRO), otherwise it is left alone (missing);
            no other slot is written;
  phase 3 - __post_init__ runs exactly once, after the loop; the `initializing` flag is removed.
Phase 1 (routing attributes owned by parent spec classes through the parents' constructors: spec_cls.mro(), arbitrary
user-written parent __init__) is reflection over classes and calls of unknown constructors: it is NOT verified; its effect on
the state is taken as the declared cut assumption below and exercised by the bounded stand-in.  Overflow attributes
(init_overflow_attr: a dynamically named helper is called) are outside the scope as well.
"""
import z3
from pyvc.vals import *
from pyvc.state import fresh
from pyvc.pvals import *
from pyvc.symex import Res, is_val, APP, APP_RAISES
from pyvc.contracts import Contract, LoopSpec, register
from pyvc.models import FA
from .spec_core import *
from . import spec_core as sc

INIT_Q = CORE + ":InitMethod.init"


def install_hooks(models):
    sc.install_hooks(models)


def rec(st, m, k):
    """the Attr record of name k (canonical key) in metadata m"""
    A = a_of(fld(st, m, "attrs"))
    return z3.Select(st.get("dhas", A), k), z3.Select(st.get("dval", A), k)


@register
class Init(SpecArgs):
    """InitMethod.init(spec_cls, self, **kwargs)"""
    qual = INIT_Q
    kwargs_symbolic = True
    raises = {"*": "exc_any"}

    # ---- vocabulary ------------------------------------------------------------------------------------------------
    def meta(self, c):
        if c.side == "verify" and getattr(self, "_m", None) is not None:
            return self._m
        return meta_of(c.eng, c.pre, c.self)

    def eligible(self, c, k):
        """k names an init-enabled attribute owned by spec_cls (and is not the overflow attribute)"""
        st, m = c.pre, self.meta(c)
        has, a = rec(st, m, k)
        return z3.And(has, c.eng.truthy(st, fld(st, a, "init")), fld(st, a, "owner") == c.eng.to_val(st, c.spec_cls),
                      k != kn(fld(st, m, "init_overflow_attr")))

    def given(self, c, kwst, k):
        """(a keyword value was passed for k, that value) - read from the keyword dict as it is at the cut"""
        K = a_of(c.kwargs)
        v = z3.Select(kwst.get("dval", K), k)
        return z3.And(z3.Select(kwst.get("dhas", K), k), v != sentinel(c.eng, c.pre, "MISSING")), v

    def assigned(self, c, k, r, new, old):
        """slot `new` after self.__setattr__(k, r, force=True, skip_invalidation=True) on a slot holding `old`"""
        eng, st, m = c.eng, c.pre, self.meta(c)
        has, a = rec(st, m, k)
        p = prepared_kw(a, c.self, r, kw_nil)
        return z3.If(is_sentinel(eng, st, p), new == old, new == p)

    def slot_rel(self, c, kwst, k, new, old):
        eng, st, m = c.eng, c.pre, self.meta(c)
        has, a = rec(st, m, k)
        gv, v = self.given(c, kwst, k)
        r = z3.Const("r!in", Val)
        routed_here = fld(st, m, "owner") == eng.to_val(st, c.spec_cls)
        copyreq = z3.And(routed_here, z3.Not(eng.truthy(st, fld(st, a, "do_not_copy"))))
        kls = klass(eng, st, c.self)
        own_copy = z3.And(deq(r, v), z3.Or(r == v, z3.And(is_ref(r), a_of(r) >= st.alloc)))
        from_kw = z3.Exists([r], z3.And(z3.If(copyreq, own_copy, r == v), self.assigned(c, k, r, new, old)), patterns=[deq(r, v)]) \
            if False else z3.Exists([r], z3.And(z3.If(copyreq, own_copy, r == v), self.assigned(c, k, r, new, old)))
        from_default = z3.Exists([r], z3.And(deq(r, DV(a, kls)), z3.Not(is_sentinel(eng, st, r)), self.assigned(c, k, r, new, old)))
        return z3.If(gv, from_kw, z3.If(NODEF(a, kls), new == old, from_default))

    # ---- contract --------------------------------------------------------------------------------------------------
    def setup(self, c):
        eng, st = c.eng, c.pre
        self.typed(c, c.self)
        self._m = None
        m = fresh("meta")
        st.assume(m == meta_of(eng, st, c.self))
        self._m = m
        st.assume(is_spec(eng, st, c.self), is_cls(c.spec_cls))
        st.assume(a_of(c.kwargs) != a_of(c.self), a_of(c.kwargs) != a_of(m), a_of(c.kwargs) != a_of(fld(st, m, "attrs")))
        # scope: no overflow attribute
        st.assume(is_none(fld(st, m, "init_overflow_attr")))
        pi = fld(st, m, "post_init")
        st.assume(z3.Or(is_none(pi), z3.And(is_ref(pi), st.get("cls_of", a_of(pi)) == cid("function"))))
        k = z3.Const("k!io", Val)
        A = a_of(fld(st, m, "attrs"))
        # A-META: every record says who owns it (a class) and whether it takes part in initialisation
        st.assume(z3.ForAll([k], z3.Implies(z3.Select(st.get("dhas", A), k), z3.And(
            is_cls(fld(st, z3.Select(st.get("dval", A), k), "owner")), kn(k) == k)), patterns=[z3.Select(st.get("dhas", A), k)]))
        self._cut = None

    def modifies(self, c):
        return [a_of(c.self), a_of(c.kwargs)]

    # the state the verified phases start from (ASSUMPTION: effect of phase 1)
    def cut_own(self, c, st):
        eng, pre = c.eng, c.pre
        m = self.meta(c)
        out = [("metadata", eng.to_val(st, st.env["instance_metadata"]) == m),
               ("class", st.get("cls_of", a_of(c.self)) == pre.get("cls_of", a_of(c.self))),
               ("no-instance-meta", is_absent(fld(st, c.self, "__spec_class__"))),
               ("records", st.get("idict", a_of(m)) == pre.get("idict", a_of(m))),
               ("no-overflow", is_none(fld(st, eng.to_val(st, st.env["instance_metadata"]), "init_overflow_attr")))]
        # the keyword dict still holds what was passed for the attributes this class owns (parents only take their own)
        K = a_of(c.kwargs)
        k = z3.Const("k!ck", Val)
        out.append(("own-keywords", z3.ForAll([k], z3.Implies(self.eligible(c, k), z3.And(
            z3.Select(st.get("dhas", K), k) == z3.Select(pre.get("dhas", K), k),
            z3.Select(st.get("dval", K), k) == z3.Select(pre.get("dval", K), k))))))
        # nothing but the instance and the keyword dict has been written (class-level records as they were)
        for comp in ("dhas", "dval", "dsize", "dkey"):
            out.append(("attrs-" + comp, st.get(comp, a_of(fld(pre, m, "attrs"))) == pre.get(comp, a_of(fld(pre, m, "attrs")))))
        if self._cut is None and c.side == "verify":
            self._cut = st
        return out

    cuts = (("for attr, attr_spec in instance_metadata.attrs.items()", "own-attributes", lambda c, st: c.con.cut_own(c, st), "assumed"),)

    def post(self, c):
        eng, st = c.eng, c.pre
        cut = self._cut if (c.side == "verify" and self._cut is not None) else None
        k = z3.Const("k!ip", Val)
        s = z3.Int("s!ip")
        old = (lambda kk: z3.Select(D(cut, c.self), s_of(kk))) if cut is not None else (lambda kk: z3.Select(fresh("cutd", z3.ArraySort(I, Val)), s_of(kk)))
        kwst = cut if cut is not None else st
        pi = fld(st, self.meta(c), "post_init")
        out = [("c09.own", z3.Implies(is_none(pi), z3.ForAll([k], z3.Implies(self.eligible(c, k), self.slot_rel(
            c, kwst, k, z3.Select(D(c.post, c.self), s_of(k)), old(k))))))]
        if cut is not None:
            flag = STR.sid("__spec_class_initializing__")
            out.append(("c09.others", z3.Implies(is_none(pi), z3.ForAll([s], z3.Implies(
                z3.And(z3.Not(self.eligible(c, kn(vstr(s)))), s != flag), z3.Select(D(c.post, c.self), s) == z3.Select(D(cut, c.self), s))))))
        routed_here = fld(st, self.meta(c), "owner") == eng.to_val(st, c.spec_cls)
        # ghost call log of the verified phases: exactly one callback - __post_init__(self) - and it comes after the loop
        calls = c.post.ghost.get("calls", ())
        once = z3.And(z3.BoolVal(len(calls) == 1), *([calls[0][0] == pi, calls[0][1][0] == c.self] if len(calls) == 1 else []))
        out.append(("c09.post-init-once", z3.Implies(z3.And(routed_here, z3.Not(is_none(pi))), once)))
        out.append(("c09.no-post-init", z3.Implies(z3.Or(z3.Not(routed_here), is_none(pi)), z3.BoolVal(len(calls) == 0))))
        out.append(("c09.flag-removed", z3.Implies(routed_here, is_absent(fld(c.post, c.self, "__spec_class_initializing__")))))
        return out

    def exc_any(self, c):
        return []

    # loop #2: for attr, attr_spec in instance_metadata.attrs.items()
    def inv2(lc, st, i):
        con, c = lc.entry.con, lc.entry
        eng, pre = lc.eng, c.pre
        cut = con._cut
        k = z3.Const("k!il", Val)
        s = z3.Int("s!il")
        p = lc.plan
        done = lambda kk: z3.And(con.eligible(c, kk), p.pos(kk) >= 0, p.pos(kk) < i)
        K = a_of(c.kwargs)
        return [("done", z3.ForAll([k], z3.Implies(done(k), con.slot_rel(c, cut, k, z3.Select(D(st, c.self), s_of(k)), z3.Select(D(cut, c.self), s_of(k)))))),
                ("rest", z3.ForAll([s], z3.Implies(z3.Not(done(kn(vstr(s)))), z3.Select(D(st, c.self), s) == z3.Select(D(cut, c.self), s)))),
                ("keywords", z3.And(*[st.get(comp, K) == cut.get(comp, K) for comp in ("dhas", "dval", "dsize", "dkey")])),
                ("metadata", eng.to_val(st, st.env["instance_metadata"]) == con.meta(c)),
                # ground instance for the record visited next: it is a well-formed Attr record stored under its own name
                ("next-record", z3.Implies(z3.And(i >= 0, i < p.n), z3.And(
                    wf_attr(pre, z3.Select(p.dval, kn(z3.Select(p.keys, i)))),
                    fld(pre, z3.Select(p.dval, kn(z3.Select(p.keys, i))), "name") == z3.Select(p.keys, i))))]

    def mod2(lc, pre):
        return [a_of(lc.entry.self)]
    loops = {2: LoopSpec(inv2, mod2)}
