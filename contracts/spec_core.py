"""Contracts of the spec-class core (mutation.py, methods/core.py) shared by C01-C11.

Clauses are named after the property they serve (c01.*, c03.*, c04.*, c05.*, c07.*, c11.*); each
per-property check re-verifies the functions it depends on and reports the families carrying its tag
(plus the frame / call-pre / noexc obligations of those functions).
"""
import z3
from pyvc.vals import *
from pyvc.state import fresh, HEAP_SORTS
from pyvc.pvals import *
from pyvc.symex import Res, is_val, clsattr, APP, APP_RAISES
from pyvc.contracts import Contract, LoopSpec, register
from .keyed_specs import conforms, named, pattern_ok
from .spec_heap import *
from pyvc.vals import kn_axioms
from pyvc.models import FA

MUT = "spec_classes.utils.mutation"
CORE = "spec_classes.methods.core"

deq = z3.Function("deq", Val, Val, B)               # deep equality of two values (A-COPY)
masked_ro_c = z3.Function("masked_ro", I, Val, B)   # (class, name): raw assignment is refused by a class-level descriptor without setter


def masked_ro(obj, name, st=None, eng=None):
    st = st or _CUR[0]
    return masked_ro_c(st.get("cls_of", a_of(obj)), name)


_CUR = [None]


def atomic(st, v):
    """values copy.deepcopy returns as they are"""
    c = st.get("cls_of", a_of(v))
    return z3.Or(z3.Not(is_ref(v)), c == cid("function"), c == cid("module"))


def leaf(st, v):
    """heap objects of an immutable built-in scalar type or a subclass of one (bytes, int/str subclasses, module
    subclasses): A-LEAF assumes they carry no mutable state, so handing them on uncopied shares nothing mutable"""
    c = st.get("cls_of", a_of(v))
    return z3.And(is_ref(v), z3.Or(*[subcls(c, cid(n)) for n in ("bool", "int", "float", "str", "bytes", "module")]))


def is_spec(eng, st, v):
    m = meta_of(eng, st, v)
    return z3.And(is_ref(v), is_ref(m))


def frozen(eng, st, v):
    return b_of(fld(st, meta_of(eng, st, v), "frozen"))


def dnc_class(eng, st, v):
    return b_of(fld(st, meta_of(eng, st, v), "do_not_copy"))


def lookup(eng, st, v, name):
    """getattr(v, name) by ordinary lookup on a foreign object: instance dict, then its class (absent if neither)"""
    sid = STR.sid(name)
    iv = z3.If(is_ref(v), z3.Select(st.get("idict", a_of(v)), sid), ABSENT)
    return z3.If(is_absent(iv), clsattr(eng.type_of(st, v), sid), iv)


def initializing(eng, st, v):
    x = lookup(eng, st, v, "__spec_class_initializing__")
    return z3.And(z3.Not(is_absent(x)), eng.truthy(st, x))


def D(st, v):
    return st.get("idict", a_of(v))


def invmap(eng, st, v):
    return fld(st, meta_of(eng, st, v), "invalidation_map")


def direct_dep(eng, st, v, attr, k):
    """k is invalidated by a change of attr: k in (map[attr] | map['*']) - {attr}    (k, attr: Val strings)"""
    im = a_of(invmap(eng, st, v))
    has, dv = st.get("dhas", im), st.get("dval", im)

    def inset(key):
        s = a_of(z3.Select(dv, kn(key)))
        return z3.And(z3.Select(has, kn(key)), z3.Select(st.get("dhas", s), kn(k)))
    return z3.And(k != attr, z3.Or(inset(attr), inset(STR.val("*"))))


def assume_spec_shape(eng, st, v):
    """A-META for one (possibly spec) object: metadata record, invalidation map: dict of sets of names"""
    assume_meta_shape(eng, st, v)
    m = meta_of(eng, st, v)
    im = fld(st, m, "invalidation_map")
    A = a_of(im)
    k = z3.Const("k!iv", Val)
    has, dv = st.get("dhas", A), st.get("dval", A)
    AT = a_of(fld(st, m, "attrs"))
    for g in (is_ref(im), st.get("cls_of", A) == cid("dict"), A >= 1000, A < st.alloc, st.get("dsize", A) >= 0,
              # the class-level records are objects of their own: none of them is the instance itself
              A != a_of(v), a_of(m) != a_of(v), AT != a_of(v), A != AT, A != a_of(m), AT != a_of(m),
              z3.ForAll([k], z3.Implies(z3.Select(has, k), z3.And(
                  is_str(k), is_ref(z3.Select(dv, k)), st.get("cls_of", a_of(z3.Select(dv, k))) == cid("set"),
                  a_of(z3.Select(dv, k)) >= 1000, a_of(z3.Select(dv, k)) < st.alloc,
                  a_of(z3.Select(dv, k)) != a_of(v)))),
              z3.ForAll([k], z3.Implies(z3.Select(st.get("dhas", AT), k),
                                        a_of(z3.Select(st.get("dval", AT), k)) != a_of(v)))):
        st.assume(z3.Implies(is_ref(m), g))
    st.assume(z3.Implies(is_ref(v), z3.And(a_of(v) >= 1000, a_of(v) < st.alloc, st.get("cls_of", a_of(v)) >= 200)))
    # the library's own "still constructing" flag is a bool where it exists
    xi = lookup(eng, st, v, "__spec_class_initializing__")
    st.assume(z3.Or(is_absent(xi), is_bool(xi)))
    # A-RECV: the objects these functions operate on are not instances of (subclasses of) immutable built-in scalar
    # types (int, str, bytes, module ...): spec classes and the receivers of mutate_attr do not derive from them
    st.assume(z3.Not(leaf(st, v)))
    # raw assignment is refused only for attributes masked by a descriptor (property without setter)
    nq = z3.Const("n!mr", Val)
    mm, asp = managed(eng, st, v, nq)
    st.assume(z3.ForAll([nq], z3.Implies(masked_ro(v, nq, st), z3.And(is_str(nq), mm, b_of(fld(st, asp, "is_masked")))),
                        patterns=[masked_ro(v, nq, st)]))
    # class attributes (metadata records, methods, defaults ...) are objects that existed before the call
    cq, sq = z3.Int("c!ca"), z3.Int("s!ca")
    st.assume(z3.ForAll([cq, sq], z3.Implies(is_ref(clsattr(cq, sq)), z3.And(a_of(clsattr(cq, sq)) >= 0,
                                                                            a_of(clsattr(cq, sq)) < z3.Int("alloc0"))),
                        patterns=[clsattr(cq, sq)]))


def ground_attr_facts(eng, st, v, name):
    """ground instance (for the attribute actually looked up) of 'attrs maps names to well-formed Attr records'"""
    man, aspec = managed(eng, st, v, name)
    st.assume(z3.Implies(man, z3.And(wf_attr(st, aspec), fld(st, aspec, "name") == name)))
    st.assume(*kn_axioms([name]))


def ground_invmap_facts(eng, st, v, keys):
    """ground instances (for the keys actually looked up) of 'the invalidation map maps names to sets'"""
    im = a_of(invmap(eng, st, v))
    has, dv = st.get("dhas", im), st.get("dval", im)
    for key in keys:
        x = z3.Select(dv, kn(key))
        q = z3.Const("q!gi", Val)
        st.assume(z3.Implies(z3.And(is_spec(eng, st, v), z3.Select(has, kn(key))), z3.And(
            is_ref(x), st.get("cls_of", a_of(x)) == cid("set"), a_of(x) >= 1000, a_of(x) < st.alloc, a_of(x) != a_of(v))))
        # the dependants recorded in the map are attribute names
        st.assume(z3.ForAll([q], z3.Implies(z3.Select(st.get("dhas", a_of(x)), q), is_str(q))))
        st.assume(*kn_axioms([key]))


# ------------------------------------------------------------------------------------------------
# engine-level objects: the generated __setattr__ / __delattr__ of a (possibly) spec instance
# ------------------------------------------------------------------------------------------------
class PSpecMeth:
    def __init__(self, kind, obj):
        self.kind, self.obj = kind, obj

    def pgetattr(self, eng, st, name, fx):
        if name == "__raw__":
            return [Res("ok", st, PBuiltin("spec.raw_" + self.kind))]
        raise Unsupported("attribute %s of a generated method" % name)

    def pcall(self, eng, st, pos, kw, fx):
        con = eng.contracts.get(SETATTR_Q if self.kind == "setattr" else DELATTR_Q)
        if con is None:
            raise Unsupported("no contract for the generated __%s__" % self.kind)
        f = PFunc(con.finfo(eng.ft))
        return con.apply(eng, st, f, [self.obj] + list(pos), kw, fx, None)


def setattr_attr_hook(eng, st, v, fx):
    return [Res("ok", st, PSpecMeth("setattr", v))]


def delattr_attr_hook(eng, st, v, fx):
    return [Res("ok", st, PSpecMeth("delattr", v))]


def raw_setattr(eng, st, pos, kw, fx):
    """the original __setattr__ of the class: a plain instance-dict store, unless the attribute is masked by
    a descriptor that refuses assignment (AttributeError)"""
    obj, name, val = pos
    name = eng.to_val(st, name)
    val = eng.to_val(st, val)
    out = []
    # numbers, strings, None, class atoms and the (A-LEAF) instances of immutable scalar types accept no attributes
    for s2, ro in eng.split(st, z3.Or(z3.Not(is_ref(obj)), leaf(st, obj), masked_ro(obj, name, st)), note="descriptor refuses assignment"):
        if ro:
            out.append(eng.exc(s2, "AttributeError", note="can't set attribute"))
        else:
            d = s2.get("idict", a_of(obj))
            eng.write(s2, "idict", a_of(obj), z3.Store(d, s_of(name), val), "raw setattr")
            out.append(Res("ok", s2, NONE))
    return out


def raw_delattr(eng, st, pos, kw, fx):
    obj, name = pos
    name = eng.to_val(st, name)
    d = st.get("idict", a_of(obj))
    out = []
    # (numbers, strings, None, class atoms have no instance attributes to delete)
    for s2, miss in eng.split(st, z3.Or(z3.Not(is_ref(obj)), is_absent(z3.Select(d, s_of(name)))), note="raw delete of a missing attribute"):
        if miss:
            out.append(eng.exc(s2, "AttributeError", note="no such attribute"))
        else:
            eng.write(s2, "idict", a_of(obj), z3.Store(s2.get("idict", a_of(obj)), s_of(name), ABSENT), "raw delattr")
            out.append(Res("ok", s2, NONE))
    return out


def dyn_setattr(eng, st, obj, name, val, fx):
    """setattr(obj, name, val) on an arbitrary object: spec instances go through their generated
    __setattr__ (contract); other objects store into their dict"""
    if isinstance(obj, PClass):
        obj = eng.to_val(st, obj)
    if not is_val(obj):
        return None
    name = eng.to_val(st, name) if not isinstance(name, str) else STR.val(name)
    out = []
    for s2, sp in eng.split(st, is_spec(eng, st, obj), note="target is a spec instance"):
        if sp:
            out.extend(PSpecMeth("setattr", obj).pcall(eng, s2, [name, val], {}, fx))
        else:
            out.extend(raw_setattr(eng, s2, [obj, name, val], {}, fx))
    return [Res("ok", r.st, NONE) if r.kind == "ok" else r for r in out]


def dyn_delattr(eng, st, obj, name, fx):
    if not is_val(obj):
        return None
    name = eng.to_val(st, name) if not isinstance(name, str) else STR.val(name)
    out = []
    for s2, sp in eng.split(st, is_spec(eng, st, obj), note="target is a spec instance"):
        if sp:
            out.extend(PSpecMeth("delattr", obj).pcall(eng, s2, [name], {}, fx))
        else:
            out.extend(raw_delattr(eng, s2, [obj, name], {}, fx))
    return [Res("ok", r.st, NONE) if r.kind == "ok" else r for r in out]


def static_set_hook(eng, st, obj, name, val, fx):
    return dyn_setattr(eng, st, obj, name, val, fx)


def static_del_hook(eng, st, obj, name, fx):
    return dyn_delattr(eng, st, obj, name, fx)


def deepcopy_hook(eng, st, pos, kw, fx):
    """copy.deepcopy(x[, memo]) == the contract of protect_via_deepcopy (which adds the module guard only)"""
    con = eng.contracts[MUT + ":protect_via_deepcopy"]
    f = PFunc(eng.ft.func(MUT + ":protect_via_deepcopy"))
    return con.apply(eng, st, f, list(pos), kw, fx, None)


def truthy_hook(eng, st, a, c):
    # Attr / SpecClassMetadata records define neither __bool__ nor __len__: always truthy
    return z3.If(z3.Or(c == cid("Attr"), c == cid("SpecClassMetadata")), True, utruthy(a))


def class_new_hook(eng, st, v, fx):
    """`cls.__new__` of a class object"""
    if eng.static_class(st, v) is not None:
        return None
    return [Res("ok", st, PBuiltin("object.__new__"))]


def install_hooks(models):
    models.attr_hooks["__setattr__"] = setattr_attr_hook
    models.attr_hooks["__delattr__"] = delattr_attr_hook
    models.attr_hooks["__new__"] = class_new_hook
    models.attr_hooks[("dynset", None)] = dyn_setattr
    models.attr_hooks[("dyndel", None)] = dyn_delattr
    models.attr_hooks[("set", None)] = static_set_hook
    models.attr_hooks[("del", None)] = static_del_hook
    models.builtin_hooks["spec.raw_setattr"] = raw_setattr
    models.builtin_hooks["spec.raw_delattr"] = raw_delattr
    models.builtin_hooks["copy.deepcopy"] = deepcopy_hook
    models.truthy_hooks.append(truthy_hook)


# ------------------------------------------------------------------------------------------------
# assumed: check_type (C15), protect_via_deepcopy as a copier (A-COPY; its guard is C20)
# ------------------------------------------------------------------------------------------------
class CheckTypeAssumed(Contract):
    qual = "spec_classes.utils.type_checking:check_type"
    assumed = True
    reason = "proved under C15 against the structural definition of conformance"

    def result(self, c):
        return vbool(conforms(c.eng.to_val(c.pre, c.value), c.eng.to_val(c.pre, c.attr_type)))


def copy_rel(eng, pre, post, res, v):
    """A-COPY: res is a mutate-safe copy of v"""
    return z3.And(
        deq(res, v), z3.Not(is_absent(res)),
        z3.Implies(atomic(pre, v), res == v),
        z3.Implies(z3.And(is_spec(eng, pre, v), dnc_class(eng, pre, v)), res == v),
        z3.Implies(z3.And(z3.Not(atomic(pre, v)), z3.Not(z3.And(is_spec(eng, pre, v), dnc_class(eng, pre, v)))),
                   z3.Or(z3.And(leaf(pre, v), res == v),
                         z3.And(is_ref(res), a_of(res) >= pre.alloc, a_of(res) < post.alloc,
                                post.get("cls_of", a_of(res)) == pre.get("cls_of", a_of(v))))))


_defs = [0]


def define_pred(sink, name, sorts, body_fn):
    """a fresh predicate/function symbol with its definition as a (pattern-guarded) axiom in `sink`:
    keeps big per-slot expressions out of the invariants until the solver needs them"""
    _defs[0] += 1
    rng = body_fn.__annotations__.get("return", B)
    f = z3.Function("%s!%d" % (name, _defs[0]), *sorts, rng)
    vs = [z3.Const("v%d!%s%d" % (i, name, _defs[0]), srt) for i, srt in enumerate(sorts)]
    sink.assume(z3.ForAll(vs, f(*vs) == body_fn(*vs), patterns=[f(*vs)]))
    return f


def slot_defs(eng, sink, pre, v):
    """per-slot predicates of the instance v in state pre: DNC(s) attribute s is declared do_not_copy;
    OWN(s) slot s holds a bound method of v itself; CPR(x1, x0) x1 is a mutate-safe copy of x0"""
    d0 = pre.get("idict", a_of(v))
    m = meta_of(eng, pre, v)
    A = a_of(fld(pre, m, "attrs"))
    has, dv = pre.get("dhas", A), pre.get("dval", A)

    def dnc_body(s):
        return z3.And(z3.Select(has, kn(vstr(s))), b_of(fld(pre, z3.Select(dv, kn(vstr(s))), "do_not_copy")))

    def own_body(s):
        x0 = z3.Select(d0, s)
        sid = STR.sid("__self__")
        iv = z3.If(is_ref(x0), z3.Select(pre.get("idict", a_of(x0)), sid), ABSENT)
        selfattr = z3.If(is_absent(iv), clsattr(eng.type_of(pre, x0), sid), iv)       # x0.__self__ by ordinary lookup
        return z3.And(is_ref(x0), pre.get("cls_of", a_of(x0)) == cid("method"), selfattr == v)

    def cpr_body(x1, x0):
        return z3.And(z3.Not(is_absent(x1)), deq(x1, x0), z3.Implies(atomic(pre, x0), x1 == x0),
                      z3.Implies(z3.Not(atomic(pre, x0)), z3.Or(
                          z3.And(is_ref(x1), a_of(x1) >= pre.alloc),
                          z3.And(leaf(pre, x0), x1 == x0),
                          z3.And(is_spec(eng, pre, x0), dnc_class(eng, pre, x0), x1 == x0))))
    def rebound(post, x1, x0, new):
        """x1 is a new method object: the function of x0 bound to the copy"""
        F, S = STR.sid("__func__"), STR.sid("__self__")
        return z3.And(is_ref(x1), a_of(x1) >= pre.alloc, a_of(x1) < post.alloc, post.get("cls_of", a_of(x1)) == cid("method"),
                      z3.Select(post.get("idict", a_of(x1)), F) == lookup(eng, pre, x0, "__func__"),
                      z3.Select(post.get("idict", a_of(x1)), S) == new)
    DNC = define_pred(sink, "DNC", [I], dnc_body)
    OWN = define_pred(sink, "OWN", [I], own_body)
    CPR = define_pred(sink, "CPR", [Val, Val], cpr_body)
    return DNC, OWN, CPR, rebound


def slot_rel(defs, x1, x0, s, post, new):
    """slot s of a copy `new` (value x1, read in state post) against the same slot of the original (x0):
    absent stays absent; a bound method of the original itself is re-bound to the copy; do_not_copy attributes
    are carried by identity; everything else is a mutate-safe copy"""
    DNC, OWN, CPR, rebound = defs
    return z3.If(is_absent(x0), is_absent(x1),
                 z3.If(OWN(s), rebound(post, x1, x0, new), z3.If(DNC(s), x1 == x0, CPR(x1, x0))))


def spec_copy_slots(eng, sink, pre, post, res, v, defs=None):
    """slot-wise relation between a spec instance and its copy (contract of DeepCopyMethod.deepcopy):
    do_not_copy attributes by identity, bound methods of the instance re-bound to the copy, everything else copied"""
    defs = defs or slot_defs(eng, sink, pre, v)
    s = z3.Int("s!scs")
    d0, d1 = pre.get("idict", a_of(v)), post.get("idict", a_of(res))
    return z3.ForAll([s], slot_rel(defs, z3.Select(d1, s), z3.Select(d0, s), s, post, res))


class ProtectCopy(Contract):
    """protect_via_deepcopy(obj, memo) / copy.deepcopy: ASSUMED A-COPY for built-in containers and foreign
    objects; for spec instances the slot-wise relation is the *proved* contract of DeepCopyMethod.deepcopy"""
    qual = MUT + ":protect_via_deepcopy"
    assumed = True
    reason = ("A-COPY: copy.deepcopy returns a deep-equal value whose mutable parts are fresh, atoms as they are, "
              "nothing pre-existing modified; may raise (user __deepcopy__/__post_copy__); its module guard is C20")
    raises = {"*": "exc_any"}

    def post(self, c):
        v = c.eng.to_val(c.pre, c.obj)
        out = [("copy", copy_rel(c.eng, c.pre, c.post, c.res, v))]
        sp = z3.And(is_spec(c.eng, c.pre, v), z3.Not(dnc_class(c.eng, c.pre, v)))
        # ground consequences of the slot relation that callers need at once: the copy is an instance of the same spec class
        out.append(("meta", z3.Implies(sp, z3.And(
            is_absent(z3.Select(c.post.get("idict", a_of(c.res)), STR.sid("__spec_class__"))),
            meta_of(c.eng, c.post, c.res) == meta_of(c.eng, c.pre, v)))))
        out.append(("slots", z3.Implies(sp, spec_copy_slots(c.eng, c.post, c.pre, c.post, c.res, v))))
        return out

    def exc_any(self, c):
        return not_attr_error(c)


register(CheckTypeAssumed)
register(ProtectCopy)


# ------------------------------------------------------------------------------------------------
# DeepCopyMethod.deepcopy
# ------------------------------------------------------------------------------------------------
@register
class DeepCopy(Contract):
    """__deepcopy__ of a spec instance: a new instance of the same class whose attributes are copies,
    except do_not_copy attributes (carried by identity) and bound methods of the instance (re-bound to the copy)"""
    qual = CORE + ":DeepCopyMethod.deepcopy"
    raises = {"*": "exc_any"}

    def setup(self, c):
        st = c.pre
        assume_spec_shape(c.eng, st, c.self)
        st.assume(is_spec(c.eng, st, c.self))
        self.defs = slot_defs(c.eng, st, st, c.self)
        # A-MEMO: the memo of a copy operation is None or a dict private to that operation (no attribute value of the instance)
        memo = c.eng.to_val(st, c.memo)
        c.eng.stats["assumed"].add("A-MEMO")
        s = z3.Int("s!memo")
        st.assume(z3.Or(is_none(memo), z3.And(is_ref(memo), st.get("cls_of", a_of(memo)) == cid("dict"), a_of(memo) >= 1000,
                                               a_of(memo) < st.alloc, memo != c.self)))
        st.assume(z3.ForAll([s], z3.Select(st.get("idict", a_of(c.self)), s) != memo))

    def modifies(self, c):
        memo = c.eng.to_val(c.pre, c.memo)
        return [(a_of(memo), is_ref(memo))]

    def post(self, c):
        eng, st, v = c.eng, c.pre, c.self
        dn = dnc_class(eng, st, v)
        memo = eng.to_val(st, c.memo)
        key = kn(vint(ID_OF(v)))
        return [("c10.memo-registered", z3.Implies(z3.And(z3.Not(dn), is_ref(memo)), z3.And(
                    z3.Select(c.post.get("dhas", a_of(memo)), key), z3.Select(c.post.get("dval", a_of(memo)), key) == c.res))),
                ("c02.dnc-class", z3.Implies(dn, c.res == v)),
                ("c02.fresh", z3.Implies(z3.Not(dn), z3.And(is_ref(c.res), a_of(c.res) >= st.alloc,
                                                          c.post.get("cls_of", a_of(c.res)) == st.get("cls_of", a_of(v))))),
                ("c02.slots", z3.Implies(z3.Not(dn), spec_copy_slots(eng, c.post, st, c.post, c.res, v,
                                                                    self.defs if c.side == "verify" else None))),
                ("c02.meta", z3.Implies(z3.Not(dn), z3.And(
                    is_absent(z3.Select(c.post.get("idict", a_of(c.res)), STR.sid("__spec_class__"))),
                    meta_of(eng, c.post, c.res) == meta_of(eng, st, v)))),
                ("c01.receiver", c.post.get("idict", a_of(v)) == st.get("idict", a_of(v)))]

    def exc_any(self, c):
        return [("c04.receiver", c.post.get("idict", a_of(c.self)) == c.pre.get("idict", a_of(c.self)))]

    def inv0(lc, st, i):
        eng = lc.eng
        pre = lc.entry.pre
        v = lc.args["self"]
        new = st.env["new"]
        p = lc.plan
        s = z3.Int("s!dc")
        d0, d1 = pre.get("idict", a_of(v)), st.get("idict", a_of(new))
        x0, x1 = z3.Select(d0, s), z3.Select(d1, s)
        defs = lc.entry.con.defs
        j = z3.Int("j!dc")
        kj = z3.Select(p.keys, j)
        return [("new", z3.And(is_ref(new), a_of(new) >= pre.alloc, new == lc.pre.env["new"],
                               st.get("cls_of", a_of(new)) == pre.get("cls_of", a_of(v)))),
                ("receiver", st.get("idict", a_of(v)) == pre.get("idict", a_of(v))),
                # every attribute visited so far has been carried over according to the slot relation ...
                ("copied", FA([j], z3.Implies(z3.And(j >= 0, j < i),
                                              slot_rel(defs, z3.Select(d1, kj), z3.Select(d0, kj), kj, st, new)),
                              [z3.Select(p.keys, j)])),
                # ... and the copy holds nothing else
                ("nothing-else", FA([s], z3.Implies(z3.Not(is_absent(x1)), z3.And(
                    p.pos(s) >= 0, p.pos(s) < i, z3.Select(p.keys, p.pos(s)) == s)), [x1]))]

    def mod0(lc, pre):
        return [a_of(pre.env["new"])]
    loops = {0: LoopSpec(inv0, mod0)}

SETATTR_Q = CORE + ":SetAttrMethod.build_method.<locals>.__setattr__"
DELATTR_Q = CORE + ":DelAttrMethod.build_method.<locals>.__delattr__"


# ------------------------------------------------------------------------------------------------
# mutate_attr / invalidate_attrs / generated __setattr__ and __delattr__
# ------------------------------------------------------------------------------------------------
def not_attr_error(c):
    """A-COPY-EXC: exceptions escaping user copy hooks are not AttributeErrors (which the library itself
    swallows while invalidating dependants)"""
    e = c.exc
    if e is None or e.cid is None:
        return []
    c.eng.known.add("AttributeError")
    return [("not-attribute-error", z3.Not(subcls(e.cid, CLS.cid("AttributeError"))))]


def unchanged_obj(pre, post, v):
    return post.get("idict", a_of(v)) == pre.get("idict", a_of(v))


DV = z3.Function("default_value", Val, Val, Val)     # (Attr record, class): the default a new instance of the class receives
NODEF = z3.Function("no_default", Val, Val, B)       # ... there is none (the attribute stays missing)


def klass(eng, st, obj):
    return vcls(eng.type_of(st, obj))


def cleared(eng, st, obj, k):
    """C11: the dependant k (a name) is cleared on obj: its slot is gone, or it is back at its default"""
    x = z3.Select(st.get("idict", a_of(obj)), s_of(k))
    man, aspec = managed(eng, st, obj, k)
    return z3.Or(is_absent(x), z3.And(man, deq(x, DV(aspec, klass(eng, st, obj)))))


class LookupDefaultAssumed(Contract):
    """Attr.lookup_default_value(cls): ASSUMED (walks cls.mro() / class __dict__s: reflection): the nearest default
    along the MRO - plain default, default_factory result, override on a plain subclass - as a mutate-safe value
    (atoms as they are, anything else freshly copied / constructed), MISSING when there is none or it is masked"""
    qual = "spec_classes.types.attr:Attr.lookup_default_value"
    recv = "spec_classes.types.attr:Attr"
    assumed = True
    reason = "MRO walk over class __dict__s (reflection, A-META); checked by the bounded harness (defaults: plain, mutable, factory, subclass overrides)"
    raises = {"*": "exc_any"}

    def post(self, c):
        eng, st = c.eng, c.pre
        a, k = c.self, eng.to_val(st, c.spec_cls)
        dv = DV(a, k)
        missing = sentinel(eng, st, "MISSING")
        res = c.res if is_val(c.res) else eng.to_val(c.post, c.res)
        return [("missing", (res == missing) == NODEF(a, k)),
                ("value", z3.Implies(z3.Not(NODEF(a, k)), z3.And(
                    z3.Not(is_absent(res)), deq(res, dv), z3.Not(is_sentinel(eng, st, res)),
                    z3.Implies(atomic(st, dv), res == dv),
                    z3.Implies(z3.And(z3.Not(atomic(st, dv)), z3.Not(leaf(st, dv)), z3.Not(z3.And(is_spec(eng, st, dv), dnc_class(eng, st, dv)))),
                               z3.And(is_ref(res), a_of(res) >= st.alloc, a_of(res) < c.post.alloc)),
                    z3.Implies(is_ref(res), a_of(res) < c.post.alloc))))]

    def exc_any(self, c):
        return not_attr_error(c)


register(LookupDefaultAssumed)


class SpecArgs(Contract):
    """common typing of (obj, attr) arguments"""
    def typed(self, c, obj, attr=None):
        st = c.pre
        assume_spec_shape(c.eng, st, obj)
        st.assume(is_ref(obj))
        if attr is not None:
            st.assume(is_str(attr), attr != STR.val("__spec_class__"))     # the metadata slot itself is never the target


@register
class InvalidateAttrs(SpecArgs):
    """invalidate_attrs(obj, attr): every direct dependant of attr (and of '*') other than attr itself is
    cleared (deleted, or reset to its default); AttributeError of a missing dependant is swallowed"""
    qual = MUT + ":invalidate_attrs"
    raises = {"*": "exc_any"}

    def setup(self, c):
        self.typed(c, c.obj, c.attr)
        st = c.pre
        st.assume(is_spec(c.eng, st, c.obj))
        st.assume(z3.Or(is_none(c.invalidation_map), c.invalidation_map == invmap(c.eng, st, c.obj)))
        assume_reach(c.eng, st, c.obj)
        ground_invmap_facts(c.eng, st, c.obj, [c.attr, STR.val("*")])

    def pre(self, c):
        st = c.pre
        im = c.eng.to_val(st, c.invalidation_map)
        return [("spec", is_spec(c.eng, st, c.obj)), ("attr", z3.And(is_str(c.attr), c.attr != STR.val("__spec_class__"))),
                ("map", z3.Or(is_none(im), im == invmap(c.eng, st, c.obj)))]

    def modifies(self, c):
        return [a_of(c.obj)]

    def post(self, c):
        eng, st, o, a = c.eng, c.pre, c.obj, c.attr
        im = eng.to_val(st, c.invalidation_map)
        nonempty = eng.truthy(st, z3.If(is_none(im), invmap(eng, st, o), im))
        return [("c11.cleared", all_cleared(eng, st, c.post, o, o, a)),
                ("c11.frame", inv_frame(eng, st, c.post, o, a)),
                ("c11.monotone", monotone(eng, st, c.post, o)),
                ("c11.empty", z3.Or(nonempty, unchanged_obj(st, c.post, o)))]

    def exc_any(self, c):
        eng, st = c.eng, c.pre
        im = eng.to_val(st, c.invalidation_map)
        return [("why", eng.truthy(st, z3.If(is_none(im), invmap(eng, st, c.obj), im)))] + not_attr_error(c)

    def inv0(lc, st, i):
        eng = lc.eng
        pre = lc.entry.pre
        o, a = lc.args["obj"], lc.args["attr"]
        p = lc.plan
        j = z3.Int("j!ia")
        k = z3.Const("k!ia", Val)
        kj = z3.Select(p.arr, j)
        m = named(st, meta_of(eng, pre, o), "meta")
        # every dependant visited so far, and everything reachable from it, is cleared; nothing outside reach(attr) moved
        return [("members", z3.ForAll([j], z3.Implies(z3.And(j >= 0, j < p.n), z3.And(
                    is_str(kj), z3.Or(kj == a, z3.And(direct_dep(eng, pre, o, a, kj), reach(m, a, kj))))),
                    patterns=[kj] if pattern_ok(p.arr) else [])),
                ("done", z3.ForAll([j], z3.Implies(z3.And(j >= 0, j < i, kj != a), cleared(eng, st, o, kj)))),
                ("done-below", z3.ForAll([j, k], z3.Implies(z3.And(j >= 0, j < i, kj != a, reach(m, kj, k)), cleared(eng, st, o, k)),
                                        patterns=[z3.MultiPattern(kj, reach(m, kj, k))] if pattern_ok(p.arr) else [])),
                # the enumeration misses no direct dependant
                ("complete", z3.ForAll([k], z3.Implies(z3.And(is_str(k), direct_dep(eng, pre, o, a, k)), z3.And(
                    p.pos(kn(k)) >= 0, p.pos(kn(k)) < p.n, z3.Select(p.arr, p.pos(kn(k))) == k)))),
                ("frame", inv_frame(eng, pre, st, o, a)),
                ("monotone", monotone(eng, pre, st, o)),
                ("map", st.env["invalidation_map"] == lc.pre.env["invalidation_map"])]

    def mod0(lc, pre):
        return [a_of(lc.args["obj"])]
    loops = {0: LoopSpec(inv0, mod0)}


reach = z3.Function("reach", Val, Val, Val, B)      # (metadata, attr, k): k is a transitive dependant of attr
reach_mid = z3.Function("reach_mid", Val, Val, Val, Val)   # witness: the direct dependant through which k is reached


def assume_reach(eng, st, v):
    """`reach` is the transitive closure of the invalidation relation of v's class (fixpoint unfolding, both
    directions); termination of the recursive invalidation (acyclic dependency graph) is NOT proved"""
    m = named(st, meta_of(eng, st, v), "meta")
    a, k, j = z3.Const("a!rc", Val), z3.Const("k!rc", Val), z3.Const("j!rc", Val)
    st.assume(z3.ForAll([a, k], z3.Implies(z3.And(is_str(a), is_str(k), direct_dep(eng, st, v, a, k)), reach(m, a, k)),
                        patterns=[reach(m, a, k)]))
    st.assume(z3.ForAll([a, j, k], z3.Implies(z3.And(is_str(a), is_str(j), is_str(k), direct_dep(eng, st, v, a, j), reach(m, j, k)),
                                              reach(m, a, k)), patterns=[z3.MultiPattern(reach(m, a, k), reach(m, j, k))]))
    st.assume(z3.ForAll([a, k], z3.Implies(reach(m, a, k), z3.And(
        is_str(a), is_str(k), a != k,
        # dependants are attribute names, never the library's own bookkeeping slots
        k != STR.val("__spec_class__"), k != STR.val("__spec_class_initializing__"))), patterns=[reach(m, a, k)]))
    # ... and only those: a transitive dependant is a direct one, or is reached through a direct one (first edge of the path)
    mid = reach_mid(m, a, k)
    st.assume(z3.ForAll([a, k], z3.Implies(reach(m, a, k), z3.Or(
        direct_dep(eng, st, v, a, k), z3.And(is_str(mid), direct_dep(eng, st, v, a, mid), reach(m, mid, k)))), patterns=[reach(m, a, k)]))
    # A-ACYCLIC: the dependency graph declared by invalidated_by has no cycle (on cyclic graphs the recursion does not terminate)


def frame_slots(eng, pre, post, src, dst, attr, same, defs=None, skip=None):
    """slots other than attr and (unless skip) other than its transitive dependants are carried over from
    src to dst: identically when dst is src (`same`), else by the slot relation of a copy"""
    s = z3.Int("s!fs")
    m = named(post, meta_of(eng, pre, src), "meta")
    x0, x1 = z3.Select(D(pre, src), s), z3.Select(D(post, dst), s)
    keep = s != s_of(attr)
    if skip is not None:
        keep = z3.And(keep, z3.Or(skip, z3.Not(reach(m, attr, vstr(s)))))
    else:
        keep = z3.And(keep, z3.Not(reach(m, attr, vstr(s))))
    rel = x1 == x0 if defs is None else z3.If(same, x1 == x0, slot_rel(defs, x1, x0, s, post, dst))
    return z3.ForAll([s], z3.Implies(keep, rel))


def inv_frame(eng, pre, post, obj, attr):
    """slots that are not transitive dependants of attr are untouched by its invalidation"""
    s = z3.Int("s!if")
    m = named(post, meta_of(eng, pre, obj), "meta")
    return z3.ForAll([s], z3.Implies(z3.Not(reach(m, attr, vstr(s))),
                                     z3.Select(D(post, obj), s) == z3.Select(D(pre, obj), s)))


def monotone(eng, pre, post, obj, but=None):
    """invalidation only ever *clears*: every slot of obj is as before, or cleared (absent / back at its default)"""
    s = z3.Int("s!mo")
    same = z3.Select(D(post, obj), s) == z3.Select(D(pre, obj), s)
    body = z3.Or(same, cleared(eng, post, obj, vstr(s)))
    if but is not None:
        body = z3.Or(s == s_of(but), body)
    return z3.ForAll([s], body)


def all_cleared(eng, pre, post, obj, tgt, attr):
    """every *transitive* dependant of attr is cleared on tgt (the recursion through __delattr__ / invalidate_attrs is verified
    against these very contracts: partial correctness; termination needs an acyclic dependency graph, A-ACYCLIC)"""
    k = z3.Const("k!ac", Val)
    m = named(post, meta_of(eng, pre, obj), "meta")
    return FA([k], z3.Implies(reach(m, attr, k), cleared(eng, post, tgt, k)), [reach(m, attr, k)])


@register
class MutateAttr(SpecArgs):
    """mutate_attr(obj, attr, value, inplace, type_check, force, skip_invalidation)"""
    qual = MUT + ":mutate_attr"
    raises = {"FrozenInstanceError": "exc_frozen", "TypeError": "exc_type", "AttributeError": "exc_attr", "*": "exc_any"}

    def setup(self, c):
        self.typed(c, c.obj, c.attr)
        st = c.pre
        for n in ("inplace", "type_check", "force", "skip_invalidation"):
            st.assume(is_bool(getattr(c, n)))
        assume_reach(c.eng, st, c.obj)
        ground_invmap_facts(c.eng, st, c.obj, [c.attr, STR.val("*")])
        self.defs = slot_defs(c.eng, st, st, c.obj)

    def pre(self, c):
        st = c.pre
        return [("obj", is_ref(c.obj)), ("attr", z3.And(is_str(c.attr), c.attr != STR.val("__spec_class__"))),
                ("value", z3.Not(is_absent(c.eng.to_val(st, c.value))))] + \
               [(n, is_bool(c.eng.to_val(st, getattr(c, n)))) for n in ("inplace", "type_check", "force", "skip_invalidation")]

    def flags(self, c):
        st = c.pre
        g = lambda n: b_of(c.eng.to_val(st, getattr(c, n)))
        return g("inplace"), g("type_check"), g("force"), g("skip_invalidation")

    def in_place(self, c):
        """the write lands on obj itself: _inplace, or a do_not_copy class"""
        eng, st, o = c.eng, c.pre, c.obj
        inplace = self.flags(c)[0]
        return z3.Or(inplace, z3.And(is_spec(eng, st, o), dnc_class(eng, st, o)))

    def modifies(self, c):
        return [(a_of(c.obj), self.in_place(c))]

    def noop(self, c):
        v = c.eng.to_val(c.pre, c.value)
        return is_sentinel(c.eng, c.pre, v)

    def post(self, c):
        eng, st, o, a = c.eng, c.pre, c.obj, c.attr
        v = eng.to_val(st, c.value)
        inplace, type_check, force, skip = self.flags(c)
        sp = is_spec(eng, st, o)
        same = self.in_place(c)
        r = c.res
        man, aspec = managed(eng, st, o, a)
        defs = self.defs if c.side == "verify" else slot_defs(eng, c.post, st, o)
        noop = self.noop(c)
        has_deps = z3.And(sp, eng.truthy(st, invmap(eng, st, o)))
        return [
            ("c05.noop", z3.Implies(noop, z3.And(r == o, unchanged_obj(st, c.post, o)))),
            ("c07.not-frozen", z3.Implies(z3.And(z3.Not(noop), sp, frozen(eng, st, o), inplace),
                                          z3.Or(force, initializing(eng, st, o)))),
            ("c03.typed", z3.Implies(z3.And(z3.Not(noop), sp, man, type_check), conforms(v, fld(st, aspec, "type")))),
            ("c01.identity", z3.Implies(z3.Not(noop), z3.If(same, r == o, z3.And(
                is_ref(r), a_of(r) >= st.alloc, r != o, c.post.get("cls_of", a_of(r)) == st.get("cls_of", a_of(o)))))),
            ("c01.receiver", z3.Implies(z3.Not(same), unchanged_obj(st, c.post, o))),
            ("c05.value", z3.Implies(z3.Not(noop), z3.Select(D(c.post, r), s_of(a)) == v)),
            # (for a foreign, non-spec object copied by copy.deepcopy only deep equality is known: A-COPY)
            ("c05.others", z3.Implies(z3.And(z3.Not(noop), z3.Or(same, sp)),
                                      frame_slots(eng, st, c.post, o, r, a, same, defs, skip=z3.Or(skip, z3.Not(has_deps))))),
            ("c11.invalidated", z3.Implies(z3.And(z3.Not(noop), z3.Not(skip), has_deps), all_cleared(eng, st, c.post, o, r, a))),
            ("c11.monotone", z3.Implies(same, monotone(eng, st, c.post, o, but=a))),
        ]

    def exc_frozen(self, c):
        eng, st, o = c.eng, c.pre, c.obj
        inplace, type_check, force, skip = self.flags(c)
        direct = z3.And(is_spec(eng, st, o), frozen(eng, st, o), inplace, z3.Not(force), z3.Not(initializing(eng, st, o)))
        # KNOWN FINDING C07-frozen-private-copy: invalidation on the private copy of a frozen instance is refused
        via_copy = z3.And(is_spec(eng, st, o), frozen(eng, st, o), z3.Not(self.in_place(c)))
        return [("c07.why", z3.Or(direct, via_copy)), ("c04.unchanged", unchanged_obj(st, c.post, o))]

    def exc_type(self, c):
        eng, st, o, a = c.eng, c.pre, c.obj, c.attr
        man, aspec = managed(eng, st, o, a)
        return [("c03.why", z3.And(is_spec(eng, st, o), man, self.flags(c)[1],
                                   z3.Not(conforms(eng.to_val(st, c.value), fld(st, aspec, "type"))))),
                ("c04.unchanged", unchanged_obj(st, c.post, o))]

    def exc_attr(self, c):
        st, o = c.pre, c.obj
        return [("c04.unchanged", unchanged_obj(st, c.post, o)), ("why", masked_ro(o, c.attr, st))]

    def exc_any(self, c):
        eng, st, o = c.eng, c.pre, c.obj
        inplace, type_check, force, skip = self.flags(c)
        has_deps = z3.And(is_spec(eng, st, o), eng.truthy(st, invmap(eng, st, o)))
        # an exception out of the invalidation of dependants comes after an in-place write: only then may obj differ
        return [("c04.unchanged", z3.Implies(z3.Or(z3.Not(self.in_place(c)), skip, z3.Not(has_deps)),
                                             unchanged_obj(st, c.post, o)))] + not_attr_error(c)


class GenMethod(SpecArgs):
    """contracts of the closures generated by SetAttrMethod / DelAttrMethod"""
    inner = None
    outer = None

    def finfo(self, ft):
        return ft.nested(self.outer, self.inner)

    def custom_verify(self, eng):
        return Contract.verify(self, eng, self.finfo(eng.ft), closure={})


@register
class DelAttr(GenMethod):
    """del obj.attr on a spec instance: frozen -> FrozenInstanceError; otherwise the attribute is removed, or -
    when it is managed with a default - reset to a fresh copy of the default; its dependants are invalidated"""
    qual = DELATTR_Q
    outer, inner = CORE + ":DelAttrMethod.build_method", "__delattr__"
    raises = {"FrozenInstanceError": "exc_frozen", "AttributeError": "exc_attr", "*": "exc_any"}

    def setup(self, c):
        self.typed(c, c.self, c.attr)
        st = c.pre
        st.assume(is_spec(c.eng, st, c.self), is_bool(c.force), is_bool(c.skip_invalidation))
        assume_reach(c.eng, st, c.self)
        ground_invmap_facts(c.eng, st, c.self, [c.attr, STR.val("*")])
        ground_attr_facts(c.eng, st, c.self, c.attr)

    def pre(self, c):
        st = c.pre
        return [("spec", is_spec(c.eng, st, c.self)),
                ("attr", z3.And(is_str(c.eng.to_val(st, c.attr)), c.eng.to_val(st, c.attr) != STR.val("__spec_class__"))),
                ("force", is_bool(c.eng.to_val(st, c.force))), ("skip", is_bool(c.eng.to_val(st, c.skip_invalidation)))]

    def modifies(self, c):
        return [a_of(c.self)]

    def parts(self, c):
        eng, st, o = c.eng, c.pre, c.self
        a = eng.to_val(st, c.attr)
        force, skip = b_of(eng.to_val(st, c.force)), b_of(eng.to_val(st, c.skip_invalidation))
        man, aspec = managed(eng, st, o, a)
        dflt = DV(aspec, klass(eng, st, o))
        raw = z3.Or(force, z3.Not(man), b_of(fld(st, aspec, "is_masked")), NODEF(aspec, klass(eng, st, o)))
        return a, force, skip, man, aspec, dflt, raw

    def post(self, c):
        eng, st, o = c.eng, c.pre, c.self
        a, force, skip, man, aspec, dflt, raw = self.parts(c)
        x1 = z3.Select(D(c.post, o), s_of(a))
        has_deps = eng.truthy(st, invmap(eng, st, o))
        return [("c07.not-frozen", z3.Implies(frozen(eng, st, o), z3.Or(force, initializing(eng, st, o)))),
                ("c08.slot", z3.If(raw, is_absent(x1), z3.And(
                    deq(x1, dflt), z3.Not(is_absent(x1)),
                    # a fresh value, never the class-level default object itself (instances of do_not_copy classes excepted)
                    z3.Implies(z3.And(z3.Not(atomic(st, dflt)), z3.Not(leaf(st, dflt)), z3.Not(z3.And(is_spec(eng, st, dflt), dnc_class(eng, st, dflt)))),
                               z3.And(is_ref(x1), a_of(x1) >= st.alloc))))),
                ("c11.cleared", z3.Implies(z3.And(z3.Not(skip), has_deps), all_cleared(eng, st, c.post, o, o, a))),
                ("c11.frame", frame_slots(eng, st, c.post, o, o, a, True, None, skip=z3.Or(skip, z3.Not(has_deps)))),
                ("c11.monotone", monotone(eng, st, c.post, o))]

    def exc_frozen(self, c):
        eng, st, o = c.eng, c.pre, c.self
        a, force, skip, man, aspec, dflt, raw = self.parts(c)
        return [("c07.why", z3.And(frozen(eng, st, o), z3.Not(force), z3.Not(initializing(eng, st, o)))),
                ("c04.unchanged", unchanged_obj(st, c.post, o))]

    def exc_attr(self, c):
        eng, st, o = c.eng, c.pre, c.self
        a, force, skip, man, aspec, dflt, raw = self.parts(c)
        return [("c04.unchanged", unchanged_obj(st, c.post, o)),
                ("why", is_absent(z3.Select(D(st, o), s_of(a))))]       # nothing there to delete

    def exc_any(self, c):
        eng, st, o = c.eng, c.pre, c.self
        a, force, skip, man, aspec, dflt, raw = self.parts(c)
        has_deps = eng.truthy(st, invmap(eng, st, o))
        return [("c04.unchanged", z3.Implies(z3.Or(skip, z3.Not(has_deps)), unchanged_obj(st, c.post, o)))] + not_attr_error(c)


# ------------------------------------------------------------------------------------------------
# prepare_attr_value (assumed here; see contracts/spec_values.py for its body) and keyword bundles
# ------------------------------------------------------------------------------------------------
kw_nil = z3.Const("kw_nil", Val)
kw_cons = z3.Function("kw_cons", Val, Val, Val, Val)
prepared_kw = z3.Function("prepared_kw", Val, Val, Val, Val, Val)          # (attr_spec, instance, value, kwargs bundle)
prepared_kw_raises = z3.Function("prepared_kw_raises", Val, Val, Val, Val, B)


def kw_bundle(eng, st, kw):
    """a **kwargs mapping as one value (names sorted): the argument of the uninterpreted preparer"""
    if kw is None or (is_val(kw) and False):
        return kw_nil
    if isinstance(kw, PKwargs):
        if kw.rest is not None:
            raise Unsupported("symbolic **kwargs in a keyword bundle")
        b = kw_nil
        for n in sorted(kw.items, reverse=True):
            b = kw_cons(STR.val(n), eng.to_val(st, kw.items[n]), b)
        return b
    if is_val(kw):
        return z3.If(is_none(kw), kw_nil, kw)
    raise Unsupported("keyword bundle of %r" % (kw,))


class PrepareAssumed(Contract):
    """prepare_attr_value(attr_spec, instance, value, attrs): ASSUMED in the core proofs (A-CB: the preparer,
    item preparer and constructors it runs are pure deterministic callbacks): returns the prepared value,
    may raise, modifies nothing that existed before; a fresh-or-caller-provided value"""
    qual = MUT + ":prepare_attr_value"
    assumed = True
    raw_args = True
    reason = "pure function of its arguments (A-CB); its body (mutate_value + collection mutator) is under contract in C05/C06"
    raises = {"*": "exc_any"}

    def args4(self, c):
        st = c.pre
        return (c.eng.to_val(st, c.attr_spec), c.eng.to_val(st, c.instance), c.eng.to_val(st, c.value),
                kw_bundle(c.eng, st, c.attrs if not (is_val(c.attrs)) else c.attrs))

    def result(self, c):
        return prepared_kw(*self.args4(c))

    def post(self, c):
        return [("ok", z3.Not(prepared_kw_raises(*self.args4(c)))), ("value", z3.Not(is_absent(c.res))),
                ("allocated", z3.Implies(is_ref(c.res), a_of(c.res) < c.post.alloc))]

    def exc_any(self, c):
        return [("raises", prepared_kw_raises(*self.args4(c)))] + not_attr_error(c)


register(PrepareAssumed)


def attr_of(eng, st, obj, name):
    """the Attr record of obj's class for `name`"""
    A = a_of(fld(st, meta_of(eng, st, obj), "attrs"))
    return z3.Select(st.get("dval", A), kn(name))


@register
class SetAttr(GenMethod):
    """obj.attr = value on a spec instance == mutate_attr in place on the prepared value"""
    qual = SETATTR_Q
    outer, inner = CORE + ":SetAttrMethod.build_method", "__setattr__"
    raises = {"FrozenInstanceError": "exc_frozen", "TypeError": "exc_type", "AttributeError": "exc_attr", "*": "exc_any"}

    def setup(self, c):
        self.typed(c, c.self, c.attr)
        st = c.pre
        st.assume(is_spec(c.eng, st, c.self), is_bool(c.force), is_bool(c.skip_invalidation))
        assume_reach(c.eng, st, c.self)

    def pre(self, c):
        st = c.pre
        a = c.eng.to_val(st, c.attr)
        return [("spec", is_spec(c.eng, st, c.self)), ("attr", z3.And(is_str(a), a != STR.val("__spec_class__"))),
                ("value", z3.Not(is_absent(c.eng.to_val(st, c.value)))),
                ("force", is_bool(c.eng.to_val(st, c.force))), ("skip", is_bool(c.eng.to_val(st, c.skip_invalidation)))]

    def modifies(self, c):
        return [a_of(c.self)]

    def parts(self, c):
        eng, st, o = c.eng, c.pre, c.self
        a = eng.to_val(st, c.attr)
        v0 = eng.to_val(st, c.value)
        man, aspec = managed(eng, st, o, a)
        v = z3.If(man, prepared_kw(aspec, o, v0, kw_nil), v0)
        return a, v0, v, man, aspec, b_of(eng.to_val(st, c.force)), b_of(eng.to_val(st, c.skip_invalidation))

    def post(self, c):
        eng, st, o = c.eng, c.pre, c.self
        a, v0, v, man, aspec, force, skip = self.parts(c)
        noop = is_sentinel(eng, st, v)
        has_deps = eng.truthy(st, invmap(eng, st, o))
        return [("c07.not-frozen", z3.Implies(z3.And(z3.Not(noop), frozen(eng, st, o)), z3.Or(force, initializing(eng, st, o)))),
                ("c03.typed", z3.Implies(z3.And(z3.Not(noop), man), conforms(v, fld(st, aspec, "type")))),
                ("c05.noop", z3.Implies(noop, unchanged_obj(st, c.post, o))),
                ("c05.value", z3.Implies(z3.Not(noop), z3.Select(D(c.post, o), s_of(a)) == v)),
                ("c05.others", z3.Implies(z3.Not(noop), frame_slots(eng, st, c.post, o, o, a, True, None,
                                                                     skip=z3.Or(skip, z3.Not(has_deps))))),
                ("c11.invalidated", z3.Implies(z3.And(z3.Not(noop), z3.Not(skip), has_deps), all_cleared(eng, st, c.post, o, o, a))),
                ("c11.monotone", monotone(eng, st, c.post, o, but=a)),
                # the instance never acquires (or loses) an instance-level __spec_class__: it stays an instance of its spec class
                ("c05.meta-slot", fld(c.post, o, "__spec_class__") == fld(st, o, "__spec_class__"))]

    def exc_frozen(self, c):
        eng, st, o = c.eng, c.pre, c.self
        a, v0, v, man, aspec, force, skip = self.parts(c)
        return [("c07.why", z3.And(frozen(eng, st, o), z3.Not(force), z3.Not(initializing(eng, st, o)))),
                ("c04.unchanged", unchanged_obj(st, c.post, o))]

    def exc_type(self, c):
        eng, st, o = c.eng, c.pre, c.self
        a, v0, v, man, aspec, force, skip = self.parts(c)
        return [("c03.why", z3.And(man, z3.Not(conforms(v, fld(st, aspec, "type"))))), ("c04.unchanged", unchanged_obj(st, c.post, o))]

    def exc_attr(self, c):
        st, o = c.pre, c.self
        return [("c04.unchanged", unchanged_obj(st, c.post, o))]

    def exc_any(self, c):
        eng, st, o = c.eng, c.pre, c.self
        a, v0, v, man, aspec, force, skip = self.parts(c)
        has_deps = eng.truthy(st, invmap(eng, st, o))
        return [("c04.unchanged", z3.Implies(z3.Or(skip, z3.Not(has_deps)), unchanged_obj(st, c.post, o)))] + not_attr_error(c)


# ------------------------------------------------------------------------------------------------
# scalar helpers: with_<attr>, reset_<attr>, reset
# ------------------------------------------------------------------------------------------------
SCALAR = "spec_classes.methods.scalar"
TOP = "spec_classes.methods.toplevel"


class Helper(SpecArgs):
    """typing shared by the helper implementations: self is a spec instance; attr_spec is the record of
    self's class for attr_spec.name (A-META: the helper was generated for that attribute)"""
    def helper_setup(self, c, with_attr=True):
        st = c.pre
        self.typed(c, c.self)
        st.assume(is_spec(c.eng, st, c.self))
        assume_reach(c.eng, st, c.self)
        if hasattr(c, "_inplace"):
            st.assume(is_bool(c._inplace))
        if with_attr:
            a = c.attr_spec
            nm = fld(st, a, "name")
            man, rec = managed(c.eng, st, c.self, nm)
            st.assume(wf_attr(st, a), man, rec == a, nm != STR.val("__spec_class__"))
            ground_invmap_facts(c.eng, st, c.self, [nm, STR.val("*")])

    def helper_pre(self, c, with_attr=True):
        st = c.pre
        out = [("spec", is_spec(c.eng, st, c.self))]
        if with_attr:
            a = c.eng.to_val(st, c.attr_spec)
            nm = fld(st, a, "name")
            man, rec = managed(c.eng, st, c.self, nm)
            out += [("attr-record", z3.And(man, rec == a, is_str(nm)))]
        return out

    def in_place(self, c):
        eng, st, o = c.eng, c.pre, c.self
        return z3.Or(b_of(eng.to_val(st, c._inplace)), dnc_class(eng, st, o))


@register
class WithAttr(Helper):
    """with_<attr>(v, **attrs): the receiver's state with attr replaced by the prepared v (on a copy
    unless _inplace); _if=False / MISSING / UNCHANGED: the receiver itself, untouched"""
    qual = SCALAR + ":WithAttrMethod.with_attr"
    raises = {"FrozenInstanceError": "exc_frozen", "TypeError": "exc_type", "AttributeError": "exc_attr", "*": "exc_any"}
    kwargs_names = ()

    def setup(self, c):
        self.helper_setup(c)
        self.defs = slot_defs(c.eng, c.pre, c.pre, c.self)

    def pre(self, c):
        return self.helper_pre(c) + [("inplace", is_bool(c.eng.to_val(c.pre, c._inplace))),
                                     ("value", z3.Not(is_absent(c.eng.to_val(c.pre, c._new_value))))]

    def modifies(self, c):
        return [(a_of(c.self), self.in_place(c))]

    def parts(self, c):
        eng, st, o = c.eng, c.pre, c.self
        a = eng.to_val(st, c.attr_spec)
        nm = fld(st, a, "name")
        v = prepared_kw(a, o, eng.to_val(st, c._new_value), kw_bundle(eng, st, c.attrs))
        active = eng.truthy(st, eng.to_val(st, c._if))
        return a, nm, v, active, z3.Or(z3.Not(active), is_sentinel(eng, st, v))

    def post(self, c):
        eng, st, o = c.eng, c.pre, c.self
        a, nm, v, active, noop = self.parts(c)
        same = self.in_place(c)
        r = c.res
        inplace = b_of(eng.to_val(st, c._inplace))
        defs = self.defs if c.side == "verify" else slot_defs(eng, c.post, st, o)
        has_deps = eng.truthy(st, invmap(eng, st, o))
        return [
            ("c05.noop", z3.Implies(noop, z3.And(r == o, unchanged_obj(st, c.post, o)))),
            ("c07.not-frozen", z3.Implies(z3.And(z3.Not(noop), frozen(eng, st, o), inplace), initializing(eng, st, o))),
            ("c03.typed", z3.Implies(z3.Not(noop), conforms(v, fld(st, a, "type")))),
            ("c01.identity", z3.Implies(z3.Not(noop), z3.If(same, r == o, z3.And(
                is_ref(r), a_of(r) >= st.alloc, r != o, c.post.get("cls_of", a_of(r)) == st.get("cls_of", a_of(o)))))),
            ("c01.receiver", z3.Implies(z3.Not(same), unchanged_obj(st, c.post, o))),
            ("c05.value", z3.Implies(z3.Not(noop), z3.Select(D(c.post, r), s_of(nm)) == v)),
            ("c05.others", z3.Implies(z3.Not(noop), frame_slots(eng, st, c.post, o, r, nm, same, defs, skip=z3.Not(has_deps)))),
            ("c11.invalidated", z3.Implies(z3.And(z3.Not(noop), has_deps), all_cleared(eng, st, c.post, o, r, nm))),
        ]

    def exc_frozen(self, c):
        eng, st, o = c.eng, c.pre, c.self
        return [("c07.why", frozen(eng, st, o)), ("c04.unchanged", unchanged_obj(st, c.post, o))]

    def exc_type(self, c):
        eng, st, o = c.eng, c.pre, c.self
        a, nm, v, active, noop = self.parts(c)
        return [("c03.why", z3.Not(conforms(v, fld(st, a, "type")))), ("c04.unchanged", unchanged_obj(st, c.post, o))]

    def exc_attr(self, c):
        return [("c04.unchanged", unchanged_obj(c.pre, c.post, c.self))]

    def exc_any(self, c):
        eng, st, o = c.eng, c.pre, c.self
        has_deps = eng.truthy(st, invmap(eng, st, o))
        return [("c04.unchanged", z3.Implies(z3.Or(z3.Not(self.in_place(c)), z3.Not(has_deps)), unchanged_obj(st, c.post, o)))] + \
            not_attr_error(c)


@register
class ResetAttr(Helper):
    """reset_<attr>(): like `del obj.attr` on a copy (or in place): the attribute is removed or back at a fresh default"""
    qual = SCALAR + ":ResetAttrMethod.reset_attr"
    raises = {"FrozenInstanceError": "exc_frozen", "AttributeError": "exc_attr", "*": "exc_any"}

    def setup(self, c):
        self.helper_setup(c)
        self.defs = slot_defs(c.eng, c.pre, c.pre, c.self)

    def pre(self, c):
        return self.helper_pre(c) + [("inplace", is_bool(c.eng.to_val(c.pre, c._inplace)))]

    def modifies(self, c):
        return [(a_of(c.self), self.in_place(c))]

    def post(self, c):
        eng, st, o = c.eng, c.pre, c.self
        a = eng.to_val(st, c.attr_spec)
        nm = fld(st, a, "name")
        active = eng.truthy(st, eng.to_val(st, c._if))
        same = self.in_place(c)
        r = c.res
        x1 = z3.Select(D(c.post, r), s_of(nm))
        dflt = DV(a, klass(eng, st, o))
        raw = z3.Or(b_of(fld(st, a, "is_masked")), NODEF(a, klass(eng, st, o)))
        defs = self.defs if c.side == "verify" else slot_defs(eng, c.post, st, o)
        has_deps = eng.truthy(st, invmap(eng, st, o))
        return [("c05.noop", z3.Implies(z3.Not(active), z3.And(r == o, unchanged_obj(st, c.post, o)))),
                ("c01.identity", z3.Implies(active, z3.If(same, r == o, z3.And(is_ref(r), a_of(r) >= st.alloc, r != o)))),
                ("c01.receiver", z3.Implies(z3.Not(same), unchanged_obj(st, c.post, o))),
                ("c08.slot", z3.Implies(active, z3.If(raw, is_absent(x1), z3.And(deq(x1, dflt), z3.Not(is_absent(x1)))))),
                ("c05.others", z3.Implies(active, frame_slots(eng, st, c.post, o, r, nm, same, defs, skip=z3.Not(has_deps)))),
                ("c11.invalidated", z3.Implies(z3.And(active, has_deps), all_cleared(eng, st, c.post, o, r, nm)))]

    def exc_frozen(self, c):
        # KNOWN FINDING C07-frozen-private-copy: also raised when the deletion happens on the private copy
        return [("c07.why", frozen(c.eng, c.pre, c.self)), ("c04.unchanged", unchanged_obj(c.pre, c.post, c.self))]

    def exc_attr(self, c):
        return [("c04.unchanged", unchanged_obj(c.pre, c.post, c.self))]

    def exc_any(self, c):
        eng, st, o = c.eng, c.pre, c.self
        has_deps = eng.truthy(st, invmap(eng, st, o))
        return [("c04.unchanged", z3.Implies(z3.Or(z3.Not(self.in_place(c)), z3.Not(has_deps)), unchanged_obj(st, c.post, o)))] + \
            not_attr_error(c)


@register
class Reset(Helper):
    """reset(): every managed attribute is cleared (removed, or back at a fresh default) on a copy / in place"""
    qual = TOP + ":ResetMethod.reset"
    raises = {"FrozenInstanceError": "exc_frozen", "*": "exc_any"}

    def setup(self, c):
        self.helper_setup(c, with_attr=False)

    def pre(self, c):
        return self.helper_pre(c, with_attr=False) + [("inplace", is_bool(c.eng.to_val(c.pre, c._inplace)))]

    def modifies(self, c):
        return [(a_of(c.self), self.in_place(c))]

    def post(self, c):
        eng, st, o = c.eng, c.pre, c.self
        active = eng.truthy(st, eng.to_val(st, c._if))
        same = self.in_place(c)
        r = c.res
        k = z3.Const("k!rs", Val)
        A = a_of(fld(st, meta_of(eng, st, o), "attrs"))
        return [("c05.noop", z3.Implies(z3.Not(active), z3.And(r == o, unchanged_obj(st, c.post, o)))),
                ("c01.identity", z3.Implies(active, z3.If(same, r == o, z3.And(is_ref(r), a_of(r) >= st.alloc, r != o)))),
                ("c01.receiver", z3.Implies(z3.Not(same), unchanged_obj(st, c.post, o))),
                ("c05.all-cleared", z3.Implies(active, z3.ForAll([k], z3.Implies(z3.Select(st.get("dhas", A), k),
                                                                                   cleared(eng, c.post, r, k)))))]

    def exc_frozen(self, c):
        return [("c07.why", frozen(c.eng, c.pre, c.self)), ("c04.unchanged", z3.Implies(z3.Not(self.in_place(c)), unchanged_obj(c.pre, c.post, c.self)))]

    def exc_any(self, c):
        return [("c04.unchanged", z3.Implies(z3.Not(self.in_place(c)), unchanged_obj(c.pre, c.post, c.self)))] + not_attr_error(c)

    def inv0(lc, st, i):
        eng = lc.eng
        pre = lc.entry.pre
        o = lc.args["self"]
        cur = st.env["self"]
        p = lc.plan
        j = z3.Int("j!rs")
        kj = z3.Select(p.arr, j)
        first = lc.pre
        return [("self", z3.And(cur == lc.pre.env["self"], is_ref(cur))),
                ("receiver", z3.Implies(cur != o, unchanged_obj(pre, st, o))),
                ("spec", z3.And(is_spec(eng, st, cur), meta_of(eng, st, cur) == meta_of(eng, pre, o))),
                ("done", z3.ForAll([j], z3.Implies(z3.And(j >= 0, j < i), cleared(eng, st, cur, kj)),
                                   patterns=[kj] if pattern_ok(p.arr) else [])),
                ("monotone", monotone(eng, first, st, cur))]

    def mod0(lc, pre):
        return [a_of(pre.env["self"])]
    loops = {0: LoopSpec(inv0, mod0)}
