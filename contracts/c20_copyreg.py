"""C20 - copying leaves process-global state untouched (copyreg.dispatch_table) and is safe across threads.

State of the guard singleton (class attribute `_modules_copyable.__instance__`): refcount, patched_table,
lock; global T = copyreg.dispatch_table; ghost T0 = the table before first use.
Invariant I: refcount >= 0; T and T0 agree off ModuleType; patched_table => ModuleType in T, not in T0,
refcount > 0; not patched_table => T and T0 agree at ModuleType too.  Hence refcount == 0 => T == T0.
"""
import z3
from pyvc.vals import *
from pyvc.state import fresh
from pyvc.pvals import *
from pyvc.symex import Res, is_val
from pyvc.contracts import Contract, LoopSpec, register

MUT = "spec_classes.utils.mutation"
MC = MUT + ":_modules_copyable"
T0_has = z3.Const("T0_has", ArrVB)
T0_val = z3.Const("T0_val", ArrVV)


def mc_cid():
    if "_modules_copyable" not in CLS.ids:
        CLS.add("_modules_copyable", ("object",))
    return CLS.cid("_modules_copyable")


def rlock_cid():
    if "RLock" not in CLS.ids:
        CLS.add("RLock", ("object",))
    return CLS.cid("RLock")


def MT():
    if "module" not in CLS.ids:
        CLS.add("module", ("object",))
    return CLS.val("module")


def table(eng, st):
    v = eng.models.global_object(eng, st, "copyreg.dispatch_table", "dict")
    return a_of(v)


def inst(st):
    return z3.Select(st.get("cdict", z3.IntVal(mc_cid())), STR.sid("__instance__"))


def fields(st, i):
    d = st.get("idict", a_of(i))
    return (z3.Select(d, STR.sid("refcount")), z3.Select(d, STR.sid("patched_table")), z3.Select(d, STR.sid("lock")))


def same_off_module(eng, pre, post):
    t = table(eng, pre)
    k = z3.Const("k!om", Val)
    h1, v1, h0, v0 = post.get("dhas", t), post.get("dval", t), pre.get("dhas", t), pre.get("dval", t)
    return z3.ForAll([k], z3.Implies(k != kn(MT()), z3.And(z3.Select(h1, k) == z3.Select(h0, k),
                                                           z3.Implies(z3.Select(h1, k), z3.Select(v1, k) == z3.Select(v0, k)))))


def same_map(has1, val1, has2, val2, name="k!sm"):
    k = z3.Const(name, Val)
    return z3.ForAll([k], z3.And(z3.Select(has1, k) == z3.Select(has2, k),
                                 z3.Implies(z3.Select(has1, k), z3.Select(val1, k) == z3.Select(val2, k))))


def table_same(eng, pre, post):
    t = table(eng, pre)
    return same_map(post.get("dhas", t), post.get("dval", t), pre.get("dhas", t), pre.get("dval", t))


def inv(eng, st):
    """the guard invariant I"""
    t = table(eng, st)
    has, val = st.get("dhas", t), st.get("dval", t)
    i = inst(st)
    rc, pt, lk = fields(st, i)
    k = z3.Const("k!c20", Val)
    mt = kn(MT())
    off = z3.ForAll([k], z3.Implies(k != mt, z3.And(z3.Select(has, k) == z3.Select(T0_has, k),
                                                    z3.Implies(z3.Select(has, k), z3.Select(val, k) == z3.Select(T0_val, k)))))
    at_same = z3.And(z3.Select(has, mt) == z3.Select(T0_has, mt),
                     z3.Implies(z3.Select(has, mt), z3.Select(val, mt) == z3.Select(T0_val, mt)))
    present = z3.And(is_ref(i), st.get("cls_of", a_of(i)) == mc_cid(), a_of(i) >= 1000, a_of(i) < st.alloc,
                     is_int(rc), i_of(rc) >= 0, is_bool(pt), is_ref(lk), st.get("cls_of", a_of(lk)) == rlock_cid(), a_of(lk) >= 1000, a_of(lk) < st.alloc,
                     z3.Implies(b_of(pt), z3.And(z3.Select(has, mt), z3.Not(z3.Select(T0_has, mt)), i_of(rc) > 0)),
                     z3.Implies(z3.Not(b_of(pt)), at_same),
                     z3.Implies(i_of(rc) > 0, z3.Select(has, mt)))
    missing = eng.to_val(st, eng.global_value(MUT, "MISSING"))
    nomissing = [("no-sentinel", z3.ForAll([k], z3.Implies(z3.Select(has, k), z3.Select(val, k) != missing)))]
    return nomissing + [("off-module", off),
            ("guard", z3.If(is_absent(i), at_same, present))]


def quiescent(eng, st):
    """no copy in progress => the table is exactly the table before the library was used"""
    t = table(eng, st)
    i = inst(st)
    rc, pt, lk = fields(st, i)
    eq = same_map(st.get("dhas", t), st.get("dval", t), T0_has, T0_val, "k!q20")
    return z3.Implies(z3.Or(is_absent(i), i_of(rc) == 0), eq)


class GuardBase(Contract):
    recv = MC

    def pre(self, c):
        st = c.pre
        return inv(c.eng, st) + [("self", z3.And(z3.Not(is_absent(inst(st))), c.self == inst(st)))]

    def modifies(self, c):
        return [a_of(c.self), table(c.eng, c.pre)]

    def keep(self, c):
        i = c.self
        return [("lock", fields(c.post, i)[2] == fields(c.pre, i)[2]), ("instance", inst(c.post) == inst(c.pre))]


@register
class Enter(GuardBase):
    qual = MC + ".__enter__"

    def post(self, c):
        rc0 = fields(c.pre, c.self)[0]
        rc1 = fields(c.post, c.self)[0]
        t = table(c.eng, c.post)
        return inv(c.eng, c.post) + self.keep(c) + [
            ("count", i_of(rc1) == i_of(rc0) + 1),
            ("copyable", z3.Select(c.post.get("dhas", t), kn(MT()))),
            ("patched", b_of(fields(c.post, c.self)[1]) == z3.Or(b_of(fields(c.pre, c.self)[1]),
                                                                z3.Not(z3.Select(c.pre.get("dhas", t), kn(MT()))))),
            ("table", z3.If(z3.Select(c.pre.get("dhas", t), kn(MT())), table_same(c.eng, c.pre, c.post),
                            same_off_module(c.eng, c.pre, c.post))),
            ("quiescent", quiescent(c.eng, c.post))]


@register
class Exit(GuardBase):
    qual = MC + ".__exit__"
    star_args = ("e1", "e2", "e3")

    def pre(self, c):
        return GuardBase.pre(self, c) + [("inside", i_of(fields(c.pre, c.self)[0]) >= 1)]

    def post(self, c):
        rc0 = fields(c.pre, c.self)[0]
        rc1 = fields(c.post, c.self)[0]
        t = table(c.eng, c.pre)
        pt0, pt1 = fields(c.pre, c.self)[1], fields(c.post, c.self)[1]
        drop = z3.And(b_of(pt0), i_of(rc1) == 0)
        return inv(c.eng, c.post) + self.keep(c) + [
            ("result-none", c.res == NONE),          # a falsy result: the exception of the copy is never swallowed
            ("count", i_of(rc1) == i_of(rc0) - 1),
            ("patched", b_of(pt1) == z3.And(b_of(pt0), i_of(rc1) != 0)),
            ("table", z3.If(drop, z3.And(same_off_module(c.eng, c.pre, c.post),
                                         z3.Not(z3.Select(c.post.get("dhas", t), kn(MT())))),
                            table_same(c.eng, c.pre, c.post))),
            ("quiescent", quiescent(c.eng, c.post))]


@register
class New(Contract):
    """_modules_copyable(): the singleton; an existing one is returned with its state untouched"""
    qual = MC + ".__new__"
    recv = MC

    def entry_args(self, eng, st, f):
        env = Contract.entry_args(self, eng, st, f)
        env["cls"] = eng.pclass("_modules_copyable", eng.ft.classes[MC])
        return env

    def pre(self, c):
        return inv(c.eng, c.pre)

    def modifies(self, c):
        return []

    def post(self, c):
        st0, st1 = c.pre, c.post
        i0, i1 = inst(st0), inst(st1)
        rc, pt, lk = fields(st1, i1)
        rc0, pt0, lk0 = fields(st0, i0)
        return inv(c.eng, st1) + [
            ("result", c.res == i1), ("exists", z3.Not(is_absent(i1))),
            ("same", z3.Implies(z3.Not(is_absent(i0)), z3.And(i1 == i0, rc == rc0, pt == pt0, lk == lk0))),
            ("fresh", z3.Implies(is_absent(i0), z3.And(i_of(rc) == 0, z3.Not(b_of(pt))))),
            ("table", table_same(c.eng, st0, st1))]


def deepcopy_hook(eng, st, pos, kw, fx):
    """copy.deepcopy(obj, memo) as seen by the guard (ASSUMED, A-COPY): it may call back into
    protect_via_deepcopy to any depth; by the contract being proved (induction on the nesting depth)
    each such call restores the guard state, so the copy leaves refcount / patched_table / the table as
    they were.  It returns a fresh value or raises any exception."""
    eng.stats["assumed"].add("copy.deepcopy")
    out = []
    ok = st.fork()
    r = fresh("copy")
    a = ok.new_addr()
    ok.assume(z3.Not(is_absent(r)), z3.Implies(is_ref(r), a_of(r) <= a))
    out.append(Res("ok", ok, r))
    bad = st.fork()
    cid = fresh("copy_exc", I)
    bad.assume(subcls(cid, CLS.cid("BaseException")))
    out.append(Res("exc", bad, PExc(None, cid, [], "raised inside copy.deepcopy")))
    return out


@register
class Protect(Contract):
    """protect_via_deepcopy: whatever happens inside the copy (nested copies, exceptions), the guard
    state and the dispatch table are afterwards what they were before"""
    qual = MUT + ":protect_via_deepcopy"
    raises = {"*": "exc_any"}

    def pre(self, c):
        return inv(c.eng, c.pre)

    def modifies(self, c):
        i = inst(c.pre)
        return [table(c.eng, c.pre), a_of(i)]

    def restored(self, c):
        st0, st1 = c.pre, c.post
        i0, i1 = inst(st0), inst(st1)
        rc, pt, lk = fields(st1, i1)
        rc0, pt0, lk0 = fields(st0, i0)
        return inv(c.eng, st1) + [
            ("same", z3.Implies(z3.Not(is_absent(i0)), z3.And(i1 == i0, rc == rc0, pt == pt0, lk == lk0))),
            ("fresh", z3.Implies(z3.And(is_absent(i0), z3.Not(is_absent(i1))), z3.And(i_of(rc) == 0, z3.Not(b_of(pt))))),
            ("table", table_same(c.eng, st0, st1)),
            ("quiescent", quiescent(c.eng, st1))]

    def post(self, c):
        return self.restored(c)

    def exc_any(self, c):
        return self.restored(c)


def install_hooks(models):
    models.builtin_hooks["copy.deepcopy"] = deepcopy_hook
