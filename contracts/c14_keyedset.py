"""C14 - KeyedSet is a set of items identified by key.

Contracts on KeyedSet (spec_classes/types/keyed.py) and on the MutableSet mixins it inherits from
the interpreter's _collections_abc.py.  Abstract view: the map  key -> item  held in `_dict`.
"""
import z3
from pyvc.vals import *
from pyvc.state import fresh
from pyvc.pvals import *
from pyvc.symex import Res, is_val
from pyvc.contracts import Contract, LoopSpec, register
from .keyed_specs import *
from . import c13_keyedlist as c13          # shared: KeyedBase.key, check_type (assumed), __args__ hook
from .c13_keyedlist import exact_class_facts

install_hooks_c13 = c13.install_hooks


def KSET():
    return CLS.cid("KeyedSet")


def eie(st, s):
    return b_of(fld(st, s, "enforce_item_equivalence"))


def maparr(st, s):
    D = dct(st, s)
    return st.get("dhas", D), st.get("dval", D), st.get("dsize", D)


def wf_set(st, s):
    a = a_of(s)
    d = fld(st, s, "_dict")
    D = a_of(d)
    has = named(st, st.get("dhas", D), "shas")
    dv = named(st, st.get("dval", D), "sdv")
    k = z3.Const("k!ws", Val)
    x = z3.Select(dv, k)
    kf = keyfn(st, s)
    return [is_ref(d), st.get("cls_of", D) == CLS.cid("dict"), D >= 1000, D < st.alloc, D != a,
            z3.Not(is_absent(kf)), z3.Not(is_absent(typ(st, s))), is_bool(fld(st, s, "enforce_item_equivalence")),
            st.get("dsize", D) >= 0,
            z3.ForAll([k], z3.Implies(z3.Select(has, k), z3.And(
                z3.Not(is_absent(x)), z3.Not(kappa_raises(kf, x)), hashable(kappa(kf, x)),
                kn(kappa(kf, x)) == k, item_ok(st, s, x), key_ok(st, s, kappa(kf, x)))),
                patterns=[z3.Select(has, k)])]


def unchanged_set(pre, post, s):
    D = dct(pre, s)
    return [fld(post, s, "_dict") == fld(pre, s, "_dict"),
            post.get("dhas", D) == pre.get("dhas", D), post.get("dval", D) == pre.get("dval", D),
            post.get("dsize", D) == pre.get("dsize", D)]


def same_config_set(pre, post, s):
    return [keyfn(post, s) == keyfn(pre, s), typ(post, s) == typ(pre, s),
            fld(post, s, "enforce_item_equivalence") == fld(pre, s, "enforce_item_equivalence")]


def resolve(st, s, v):
    """item-or-key resolution of the statement: the argument is a key of the set, or an item whose key
    is (and, under enforce_item_equivalence, which equals the stored item)  ->  (found, canonical key)"""
    has, dv, _ = maparr(st, s)
    askey = z3.And(hashable(v), z3.Select(has, kn(v)))
    kx = kn(K(st, s, v))
    asitem = z3.And(z3.Not(KR(st, s, v)), hashable(K(st, s, v)), z3.Select(has, kx),
                    z3.Or(z3.Not(eie(st, s)), kn(v) == kn(z3.Select(dv, kx))))
    return z3.Or(askey, asitem), z3.If(askey, kn(v), kx), askey


def gone(pre, post, s, v):
    """after `discard(v)` (and further removals): v is no key of the set any more, and - unless v was
    itself a key at the outset, in which case only that entry was aimed at - no item entry for v either"""
    has0 = maparr(pre, s)[0]
    has, dv, _ = maparr(post, s)
    askey0 = z3.And(hashable(v), z3.Select(has0, kn(v)))
    askey = z3.And(hashable(v), z3.Select(has, kn(v)))
    kx = kn(K(pre, s, v))
    asitem = z3.And(z3.Not(KR(pre, s, v)), hashable(K(pre, s, v)), z3.Select(has, kx),
                    z3.Or(z3.Not(eie(pre, s)), kn(v) == kn(z3.Select(dv, kx))))
    return z3.And(z3.Not(askey), z3.Implies(z3.Not(askey0), z3.Not(asitem)))


def swallowed(st, s, v):
    """the key function raises on v with a TypeError (which the item-or-key probes swallow)"""
    return z3.And(KR(st, s, v), subcls(kappa_exc(keyfn(st, s), v), CLS.cid("TypeError")))


class KSBase(Contract):
    recv = KS

    def pre(self, c):
        return [("wf.%d" % i, g) for i, g in enumerate(wf_set(c.pre, c.self))]

    def modifies(self, c):
        return [dct(c.pre, c.self)]

    def wf_post(self, c):
        return [("wf.%d" % i, g) for i, g in enumerate(wf_set(c.post, c.self))] + \
               [("config.%d" % i, g) for i, g in enumerate(same_config_set(c.pre, c.post, c.self))] + \
               [("field", fld(c.post, c.self, "_dict") == fld(c.pre, c.self, "_dict"))]

    def unchanged(self, c):
        return [("atomic.%d" % i, g) for i, g in enumerate(unchanged_set(c.pre, c.post, c.self))]

    def removed(self, c, k):
        has, dv, sz = maparr(c.pre, c.self)
        has2, dv2, sz2 = maparr(c.post, c.self)
        return [("has", has2 == z3.Store(has, k, False)), ("val", dv2 == z3.Store(dv, k, ABSENT)), ("size", sz2 == sz - 1)]


@register
class Add(KSBase):
    """s.add(x): m' = m[key(x) -> x] (most recently added wins); with enforce_item_equivalence an
    unequal item under an existing key -> ValueError; wrong item/key type -> TypeError; failures change nothing"""
    qual = KS + ".add"
    raises = {"ValueError": "exc_unequal", "TypeError": "exc_type", "*": "exc_key"}

    def pre(self, c):
        return KSBase.pre(self, c) + [("value", z3.Not(is_absent(c.value)))]

    def post(self, c):
        st = c.pre
        v = c.value
        has, dv, sz = maparr(st, c.self)
        has2, dv2, sz2 = maparr(c.post, c.self)
        k = kn(K(st, c.self, v))
        return self.wf_post(c) + [
            ("has", has2 == z3.Store(has, k, True)), ("val", dv2 == z3.Store(dv, k, v)),
            ("size", sz2 == sz + z3.If(z3.Select(has, k), 0, 1)),
            ("keyable", z3.And(z3.Not(KR(st, c.self, v)), hashable(K(st, c.self, v)))),
            ("typed", z3.And(item_ok(st, c.self, v), key_ok(st, c.self, K(st, c.self, v)))),
            ("equiv", z3.Or(z3.Not(eie(st, c.self)), z3.Not(z3.Select(has, k)), kn(z3.Select(dv, k)) == kn(v)))]

    def exc_unequal(self, c):
        st = c.pre
        has, dv, sz = maparr(st, c.self)
        k = kn(K(st, c.self, c.value))
        return self.unchanged(c) + [("why", z3.And(eie(st, c.self), z3.Select(has, k), kn(z3.Select(dv, k)) != kn(c.value)))]

    def exc_type(self, c):
        st = c.pre
        k = K(st, c.self, c.value)
        return self.unchanged(c) + [("why", z3.Or(KR(st, c.self, c.value), z3.Not(item_ok(st, c.self, c.value)),
                                                  z3.Not(key_ok(st, c.self, k)), z3.Not(hashable(k))))]

    def exc_key(self, c):
        return self.unchanged(c) + [("why", KR(c.pre, c.self, c.value))]


@register
class Discard(KSBase):
    """s.discard(x): remove the entry x resolves to (x is a key, or an item whose key is present); else nothing"""
    qual = KS + ".discard"
    raises = {"*": "exc_key"}

    def post(self, c):
        st = c.pre
        found, k, askey = resolve(st, c.self, c.value)
        has, dv, sz = maparr(st, c.self)
        has2, dv2, sz2 = maparr(c.post, c.self)
        return self.wf_post(c) + [
            ("has", has2 == z3.If(found, z3.Store(has, k, False), has)),
            ("val", dv2 == z3.If(found, z3.Store(dv, k, ABSENT), dv)),
            ("size", sz2 == sz - z3.If(found, 1, 0)),
            ("noraise", z3.Or(askey, z3.Not(KR(st, c.self, c.value)), swallowed(st, c.self, c.value)))]

    def exc_key(self, c):
        st = c.pre
        found, k, askey = resolve(st, c.self, c.value)
        return self.unchanged(c) + [("why", z3.And(z3.Not(askey), KR(st, c.self, c.value),
                                                   z3.Not(swallowed(st, c.self, c.value))))]


@register
class Contains(KSBase):
    """x in s  <=>  x resolves (as key or as item)"""
    qual = KS + ".__contains__"
    raises = {"*": "exc_key"}

    def modifies(self, c):
        return []

    def post(self, c):
        found, k, askey = resolve(c.pre, c.self, c.item_or_key)
        return [("bool", is_bool(c.res)), ("mem", b_of(c.res) == found)]

    def exc_key(self, c):
        st = c.pre
        v = c.item_or_key
        found, k, askey = resolve(st, c.self, v)
        return [("why", z3.And(z3.Not(askey), KR(st, c.self, v), z3.Not(swallowed(st, c.self, v))))]


@register
class GetItem(KSBase):
    """s[x]: the stored item x resolves to (as a key first, then as an item by its key); else KeyError"""
    qual = KS + ".__getitem__"
    raises = {"KeyError": "exc_missing", "*": "exc_key"}

    def modifies(self, c):
        return []

    def post(self, c):
        st = c.pre
        v = c.key
        has, dv, sz = maparr(st, c.self)
        askey = z3.And(hashable(v), z3.Select(has, kn(v)))
        kx = kn(K(st, c.self, v))
        return [("lookup", z3.Or(z3.And(askey, c.res == z3.Select(dv, kn(v))),
                                 z3.And(z3.Not(askey), z3.Not(KR(st, c.self, v)), hashable(K(st, c.self, v)),
                                        z3.Select(has, kx), c.res == z3.Select(dv, kx))))]

    def exc_missing(self, c):
        st = c.pre
        v = c.key
        has, dv, sz = maparr(st, c.self)
        # absent as a key, and as an item: the key function cannot digest it (TypeError), or its key is unhashable or not present
        return [("why", z3.And(z3.Not(z3.And(hashable(v), z3.Select(has, kn(v)))),
                               z3.Or(swallowed(st, c.self, v),
                                     z3.And(z3.Not(KR(st, c.self, v)),
                                            z3.Or(z3.Not(hashable(K(st, c.self, v))), z3.Not(z3.Select(has, kn(K(st, c.self, v)))))))))]

    def exc_key(self, c):
        # only what the key function raises other than a TypeError gets out
        return [("why", z3.And(KR(c.pre, c.self, c.key), z3.Not(swallowed(c.pre, c.self, c.key))))]


@register
class Len(KSBase):
    qual = KS + ".__len__"

    def modifies(self, c):
        return []

    def post(self, c):
        return [("len", c.res == vint(maparr(c.pre, c.self)[2]))]


@register
class Get(KSBase):
    qual = KS + ".get"
    raises = {"TypeError": "exc_unhashable"}

    def modifies(self, c):
        return []

    def post(self, c):
        has, dv, sz = maparr(c.pre, c.self)
        return [("get", c.res == z3.If(z3.Select(has, kn(c.key)), z3.Select(dv, kn(c.key)), c.eng.to_val(c.post, c.default))),
                ("hashable", hashable(c.key))]

    def exc_unhashable(self, c):
        return [("unhashable", z3.Not(hashable(c.key)))]


def map_eq(has1, dv1, has2, dv2):
    k = z3.Const("k!me", Val)
    return z3.ForAll([k], z3.And(z3.Select(has1, k) == z3.Select(has2, k),
                                 z3.Implies(z3.Select(has1, k), kn(z3.Select(dv1, k)) == kn(z3.Select(dv2, k)))))


def dict_eq_hook(eng, st, a, b, fx):
    """dict == dict: same keys, equal values"""
    if eng.static_class(st, a) == "dict" and eng.static_class(st, b) == "dict":
        A, Bq = a_of(a), a_of(b)
        t = fresh("deq", B)
        st.assume(t == map_eq(st.get("dhas", A), st.get("dval", A), st.get("dhas", Bq), st.get("dval", Bq)))
        return [Res("ok", st, vbool(t))]
    return None


@register
class Eq(KSBase):
    """s == other for another KeyedSet: equal as maps key -> item (same keys, equal items)"""
    qual = KS + ".__eq__"

    def modifies(self, c):
        return []

    def setup(self, c):
        st = c.pre
        o = c.other
        cl = st.get("cls_of", a_of(o))
        st.assume(z3.Implies(subcls(cl, KSET()), cl == KSET()))
        for g in wf_set(st, o):
            st.assume(z3.Implies(z3.And(is_ref(o), cl == KSET()), g))
        # scope: the comparison with a built-in set (which builds set(values)) is left to the bounded stand-in
        st.assume(z3.Not(z3.And(is_ref(o), subcls(cl, CLS.cid("set")))))

    def post(self, c):
        st = c.pre
        o = c.other
        cl = st.get("cls_of", a_of(o))
        isk = z3.And(is_ref(o), cl == KSET())
        has, dv, sz = maparr(st, c.self)
        ohas, odv, osz = maparr(st, o)
        return [("kset", z3.Implies(isk, z3.And(is_bool(c.res), b_of(c.res) == map_eq(has, dv, ohas, odv)))),
                ("other", z3.Implies(z3.Not(isk), c.res == NOTIMPL))]


def last_wins(st, s, kf, n, arr, w):
    """the map built by adding arr[0..n) in order: exactly the keys of those items, each bound to the
    most recently added item with that key (w = ghost: index of that item)"""
    has, dv, sz = maparr(st, s)
    has = named(st, has, "lhas")
    dv = named(st, dv, "ldv")
    w = named(st, w, "lw")
    j, j2 = z3.Int("j!lw"), z3.Int("j2!lw")
    k = z3.Const("k!lw", Val)
    x = z3.Select(arr, j)
    out = [z3.ForAll([j], z3.Implies(z3.And(j >= 0, j < n), z3.And(
               z3.Not(kappa_raises(kf, x)), hashable(kappa(kf, x)), z3.Select(has, kn(kappa(kf, x))))),
               patterns=[x] if pattern_ok(arr) else []),
           z3.ForAll([k], z3.Implies(z3.Select(has, k), z3.And(
               z3.Select(w, k) >= 0, z3.Select(w, k) < n, kn(kappa(kf, z3.Select(arr, z3.Select(w, k)))) == k,
               z3.Select(dv, k) == z3.Select(arr, z3.Select(w, k)))), patterns=[z3.Select(has, k)]),
           z3.ForAll([k, j2], z3.Implies(z3.And(z3.Select(has, k), j2 > z3.Select(w, k), j2 < n),
                                         kn(kappa(kf, z3.Select(arr, j2))) != k))]
    return out


def seq_any(c, v):
    """items obtained by iterating v in the pre-state (lists/tuples: contents; dict/set: keys in the
    content-determined order; otherwise A-ITER)"""
    st = c.pre
    a = a_of(v)
    cl = st.get("cls_of", a)
    isset = z3.simplify(z3.And(is_ref(v), z3.Or(cl == CLS.cid("set"), cl == CLS.cid("dict"))))
    if z3.is_true(isset):
        return seqof_set(st, v)
    n1, a1 = seqof(st, v)
    if z3.is_false(isset):
        return n1, a1
    n2, a2 = seqof_set(st, v)
    return z3.If(isset, n2, n1), z3.If(isset, a2, a1)


def iterated(c, v):
    n, arr = seq_any(c, v)
    if c.side == "verify" and is_val(v):
        key = ("iterated", v.sexpr())
        if key in c.ghost:
            return c.ghost[key]
        for src, p in reversed(c.post.ghost.get("iterplans", ())):
            if is_val(src) and src.eq(v) and hasattr(p, "arr"):
                c.lemma(c.post, "iter-link", z3.And(p.n == n, p.arr == arr))
                c.ghost[key] = (p.n, p.arr)
                return p.n, p.arr
    return n, arr


@register
class Init(Contract):
    """KeyedSet(sequence, key, enforce_item_equivalence): the items of `sequence` added in order"""
    qual = KS + ".__init__"
    recv = KS
    raises = {"ValueError": "exc_unequal", "TypeError": "exc_type", "*": "exc_other"}

    def setup(self, c):
        st = c.pre
        st.assume(z3.Not(has_args(CLS.val("KeyedSet"))))
        for g in exact_class_facts(st, c.sequence):
            st.assume(g)
        cl = st.get("cls_of", a_of(c.sequence))
        for nm in ("set", "dict"):
            st.assume(z3.Implies(subcls(cl, CLS.cid(nm)), cl == CLS.cid(nm)))

    def items(self, c):
        n, arr = iterated(c, c.sequence)
        return z3.If(is_none(c.sequence), 0, n), arr

    def pre(self, c):
        return [("self", z3.And(is_ref(c.self), c.pre.get("cls_of", a_of(c.self)) == KSET())),
                ("new", c.sequence != c.self), ("flag", is_bool(c.enforce_item_equivalence))]

    def modifies(self, c):
        return [a_of(c.self)]

    def post(self, c):
        st = c.post
        n, arr = self.items(c)
        D = dct(st, c.self)
        out = [("wf.%d" % i, g) for i, g in enumerate(wf_set(st, c.self))]
        out += [("key", keyfn(st, c.self) == c.key), ("type", typ(st, c.self) == CLS.val("KeyedSet")),
                ("eie", fld(st, c.self, "enforce_item_equivalence") == c.enforce_item_equivalence),
                ("owned", D >= c.pre.alloc)]
        out += [("map.%d" % i, g) for i, g in enumerate(last_wins(st, c.self, c.key, n, arr, st.get("gwit", D)))]
        return out

    def exc_unequal(self, c):
        n, arr = self.items(c)
        i, j = z3.Int("i!iu"), z3.Int("j!iu")
        return [("why", z3.And(b_of(c.enforce_item_equivalence), z3.Exists([i, j], z3.And(
            i >= 0, i < j, j < n, kn(kappa(c.key, z3.Select(arr, i))) == kn(kappa(c.key, z3.Select(arr, j))),
            kn(z3.Select(arr, i)) != kn(z3.Select(arr, j))))))]

    def exc_type(self, c):
        n, arr = self.items(c)
        i = z3.Int("i!it")
        return [("why", z3.Exists([i], z3.And(i >= 0, i < n, z3.Or(
            kappa_raises(c.key, z3.Select(arr, i)), z3.Not(hashable(kappa(c.key, z3.Select(arr, i))))))))]

    def exc_other(self, c):
        n, arr = self.items(c)
        i = z3.Int("i!io")
        return [("why", z3.Exists([i], z3.And(i >= 0, i < n, kappa_raises(c.key, z3.Select(arr, i)))))]

    def inv0(lc, st, i):
        self_ = lc.args["self"]
        key = lc.args["key"]
        p = lc.plan
        D = dct(st, self_)
        out = [("wf.%d" % q, g) for q, g in enumerate(wf_set(st, self_))]
        out += [("key", keyfn(st, self_) == key), ("type", typ(st, self_) == CLS.val("KeyedSet")),
                ("eie", fld(st, self_, "enforce_item_equivalence") == lc.args["enforce_item_equivalence"]),
                ("owned", z3.And(D >= lc.entry.pre.alloc, D == dct(lc.pre, self_)))]
        out += [("map.%d" % q, g) for q, g in enumerate(last_wins(st, self_, key, i, p.arr, st.get("gwit", D)))]
        return out

    def mod0(lc, pre):
        return [dct(pre, lc.args["self"])]

    def ghost0(lc, st, i):
        self_ = lc.args["self"]
        D = dct(st, self_)
        kf = keyfn(st, self_)
        newk = kn(kappa(kf, lc.plan.at(st, i)))
        st.put("gwit", D, z3.Store(st.get("gwit", D), newk, i))
    loops = {0: LoopSpec(inv0, mod0, ghost_step=ghost0)}


def kset_iter_hook(eng, st, v, fx):
    """for x in <KeyedSet>: KeyedSet.__iter__ is iter(self._dict.values()): one item per key"""
    if not is_val(v) or eng.static_class(st, v) != "KeyedSet":
        return None
    D = dct(st, v)
    return eng.models.iter_plan(eng, st, PView("values", D), fx)


@register
class Remove(KSBase):
    """s.remove(x): like discard but KeyError when x does not resolve"""
    qual = "_collections_abc:MutableSet.remove"
    raises = {"KeyError": "exc_missing", "*": "exc_key"}

    def post(self, c):
        found, k, askey = resolve(c.pre, c.self, c.value)
        return self.wf_post(c) + [("found", found)] + self.removed(c, k)

    def exc_missing(self, c):
        found, k, askey = resolve(c.pre, c.self, c.value)
        return self.unchanged(c) + [("why", z3.Not(found))]

    def exc_key(self, c):
        st = c.pre
        found, k, askey = resolve(st, c.self, c.value)
        return self.unchanged(c) + [("why", z3.And(z3.Not(askey), KR(st, c.self, c.value)))]


@register
class Ior(KSBase):
    """s |= it: add every item of `it` in order (most recent wins); returns s"""
    qual = "_collections_abc:MutableSet.__ior__"
    raises = {"ValueError": "exc_any", "TypeError": "exc_any", "*": "exc_any"}

    def setup(self, c):
        st = c.pre
        for g in exact_class_facts(st, c.it):
            st.assume(g)
        cl = st.get("cls_of", a_of(c.it))
        for nm in ("set", "dict"):
            st.assume(z3.Implies(subcls(cl, CLS.cid(nm)), cl == CLS.cid(nm)))
        st.assume(c.it != c.self)

    def post(self, c):
        st = c.pre
        n, arr = iterated(c, c.it)
        has, dv, sz = maparr(st, c.self)
        has2, dv2, sz2 = maparr(c.post, c.self)
        kf = keyfn(st, c.self)
        k = z3.Const("k!io", Val)
        j = z3.Int("j!io")
        x = z3.Select(arr, j)
        return self.wf_post(c) + [
            ("self", c.res == c.self),
            ("kept", z3.ForAll([k], z3.Implies(z3.Select(has, k), z3.Select(has2, k)))),
            ("added", z3.ForAll([j], z3.Implies(z3.And(j >= 0, j < n), z3.Select(has2, kn(kappa(kf, x)))))),
            ("only", z3.ForAll([k], z3.Implies(z3.Select(has2, k), z3.Or(z3.Select(has, k), z3.Exists(
                [j], z3.And(j >= 0, j < n, kn(kappa(kf, x)) == k))))))]

    def exc_any(self, c):
        return [("partial", z3.BoolVal(True))]

    def inv0(lc, st, i):
        self_ = lc.args["self"]
        pre = lc.entry.pre
        p = lc.plan
        has, dv, sz = maparr(pre, self_)
        has2 = named(st, maparr(st, self_)[0], "ihas")
        kf = keyfn(pre, self_)
        k = z3.Const("k!ii", Val)
        j = z3.Int("j!ii")
        x = z3.Select(p.arr, j)
        w = named(st, st.get("gwit", dct(st, self_)), "iw")
        return [("wf.%d" % q, g) for q, g in enumerate(wf_set(st, self_))] + \
               [("config.%d" % q, g) for q, g in enumerate(same_config_set(pre, st, self_))] + \
               [("field", fld(st, self_, "_dict") == fld(pre, self_, "_dict")),
                ("kept", z3.ForAll([k], z3.Implies(z3.Select(has, k), z3.Select(has2, k)))),
                ("added", z3.ForAll([j], z3.Implies(z3.And(j >= 0, j < i), z3.Select(has2, kn(kappa(kf, x)))))),
                ("only", z3.ForAll([k], z3.Implies(z3.Select(has2, k), z3.Or(z3.Select(has, k), z3.And(
                    z3.Select(w, k) >= 0, z3.Select(w, k) < i, kn(kappa(kf, z3.Select(p.arr, z3.Select(w, k)))) == k)))))]

    def mod0(lc, pre):
        return [dct(pre, lc.args["self"])]

    def ghost0(lc, st, i):
        self_ = lc.args["self"]
        D = dct(st, self_)
        newk = kn(kappa(keyfn(st, self_), lc.plan.at(st, i)))
        st.put("gwit", D, z3.Store(st.get("gwit", D), newk, i))
    loops = {0: LoopSpec(inv0, mod0, ghost_step=ghost0)}


def install_hooks(models):
    install_hooks_c13(models)
    models.iter_hooks.append(kset_iter_hook)
    models.eq_hooks.append(dict_eq_hook)


@register
class Pop(KSBase):
    """s.pop(): returns a stored item and removes the entry it resolves to; KeyError on an empty set"""
    qual = "_collections_abc:MutableSet.pop"
    raises = {"KeyError": "exc_empty"}

    def post(self, c):
        st = c.pre
        has, dv, sz = maparr(st, c.self)
        k0 = fresh("popk") if c.side == "apply" else None
        found, k, askey = resolve(st, c.self, c.res)
        stored = (z3.And(z3.Select(has, k0), c.res == z3.Select(dv, k0)) if c.side == "apply"
                  else z3.Exists([z3.Const("k!pp", Val)], z3.And(z3.Select(has, z3.Const("k!pp", Val)),
                                                               c.res == z3.Select(dv, z3.Const("k!pp", Val)))))
        return self.wf_post(c) + [("stored", stored), ("found", found)] + self.removed(c, k)

    def exc_empty(self, c):
        has, dv, sz = maparr(c.pre, c.self)
        k = z3.Const("k!pe", Val)
        return self.unchanged(c) + [("empty", z3.And(sz == 0, z3.ForAll([k], z3.Not(z3.Select(has, k)))))]

    def exc_key(self, c):
        return self.unchanged(c)


@register
class Clear(KSBase):
    qual = "_collections_abc:MutableSet.clear"

    def post(self, c):
        has2, dv2, sz2 = maparr(c.post, c.self)
        k = z3.Const("k!cl", Val)
        return self.wf_post(c) + [("empty", z3.And(sz2 == 0, z3.ForAll([k], z3.Not(z3.Select(has2, k)))))]

    def exc_key(self, c):
        return []

    def inv0(lc, st, k):
        self_ = lc.args["self"]
        pre = lc.entry.pre
        return [("wf.%d" % q, g) for q, g in enumerate(wf_set(st, self_))] + \
               [("config.%d" % q, g) for q, g in enumerate(same_config_set(pre, st, self_))] + \
               [("field", fld(st, self_, "_dict") == fld(pre, self_, "_dict"))]

    def mod0(lc, pre):
        return [dct(pre, lc.args["self"])]

    def var0(lc, st):
        return maparr(st, lc.args["self"])[2]
    loops = {0: LoopSpec(inv0, mod0, variant=var0)}


@register
class Isub(KSBase):
    """s -= it: discard every item of `it` (s -= s clears); only removals, nothing of `it` resolves afterwards"""
    qual = "_collections_abc:MutableSet.__isub__"
    raises = {"*": "exc_key"}
    setup = Ior.setup

    def setup(self, c):
        st = c.pre
        for g in exact_class_facts(st, c.it):
            st.assume(g)
        cl = st.get("cls_of", a_of(c.it))
        for nm in ("set", "dict"):
            st.assume(z3.Implies(subcls(cl, CLS.cid(nm)), cl == CLS.cid(nm)))

    def post(self, c):
        st = c.pre
        has, dv, sz = maparr(st, c.self)
        has2, dv2, sz2 = maparr(c.post, c.self)
        k = z3.Const("k!is", Val)
        out = self.wf_post(c) + [("self", c.res == c.self),
                                 ("only-removals", z3.ForAll([k], z3.Implies(z3.Select(has2, k), z3.And(
                                     z3.Select(has, k), z3.Select(dv2, k) == z3.Select(dv, k)))))]
        n, arr = iterated(c, c.it)
        j = z3.Int("j!is")
        x = z3.Select(arr, j)
        g = z3.ForAll([j], z3.Implies(z3.And(j >= 0, j < n), gone(st, c.post, c.self, x)))
        out.append(("gone", z3.Implies(c.it != c.self, g)))
        out.append(("cleared", z3.Implies(c.it == c.self, z3.ForAll([k], z3.Not(z3.Select(has2, k))))))
        return out

    def exc_key(self, c):
        return []

    def inv0(lc, st, i):
        self_ = lc.args["self"]
        pre = lc.entry.pre
        p = lc.plan
        has, dv, sz = maparr(pre, self_)
        has2, dv2, sz2 = maparr(st, self_)
        has2 = named(st, has2, "sbhas")
        k = z3.Const("k!isi", Val)
        j = z3.Int("j!isi")
        x = z3.Select(p.arr, j)
        return [("wf.%d" % q, g) for q, g in enumerate(wf_set(st, self_))] + \
               [("config.%d" % q, g) for q, g in enumerate(same_config_set(pre, st, self_))] + \
               [("field", fld(st, self_, "_dict") == fld(pre, self_, "_dict")),
                ("only-removals", z3.ForAll([k], z3.Implies(z3.Select(has2, k), z3.And(
                    z3.Select(has, k), z3.Select(dv2, k) == z3.Select(dv, k))))),
                ("gone", z3.ForAll([j], z3.Implies(z3.And(j >= 0, j < i), gone(pre, st, self_, x))))]

    def mod0(lc, pre):
        return [dct(pre, lc.args["self"])]
    loops = {0: LoopSpec(inv0, mod0)}
