"""Spec functions shared by the KeyedList (C13) and KeyedSet (C14) contracts.

Text of the top-level postconditions is taken from the property statements; the
representation invariant and frames are derived from spec_classes/types/keyed.py.
"""
import z3
from pyvc.vals import *
from pyvc.state import fresh
from pyvc.pvals import *
from pyvc.symex import Res, is_val, APP, APP_RAISES, APP_EXC

KEYED = "spec_classes.types.keyed"
KL = KEYED + ":KeyedList"
KS = KEYED + ":KeyedSet"
KB = KEYED + ":KeyedBase"

# --- abstract key function (A-KEY: key extraction is a pure, state-independent function of the item)
kappa = z3.Function("kappa", Val, Val, Val)            # (key function value, item) -> key
kappa_raises = z3.Function("kappa_raises", Val, Val, B)
kappa_exc = z3.Function("kappa_exc", Val, Val, I)
# --- run-time type check (contract of check_type, proved under C15): pure, total
conforms = z3.Function("conforms", Val, Val, B)        # (value, annotation)
# --- KeyedList[T, K] parameterisation as observed through `_type.__args__`
has_args = z3.Function("has_args", Val, B)
targ0 = z3.Function("targ0", Val, Val)
targ1 = z3.Function("targ1", Val, Val)


def named(st, t, prefix):
    """give a compound array term a name (definitional extension) so it can be used in patterns"""
    t = z3.simplify(t)
    if pattern_ok(t):
        return t
    from pyvc.contracts import define
    return define(prefix, t)


def pattern_ok(t):
    """may the term be used inside a quantifier pattern (no ite / lambda / store)"""
    todo = [t]
    seen = set()
    while todo:
        x = todo.pop()
        if x.get_id() in seen:
            continue
        seen.add(x.get_id())
        if z3.is_quantifier(x):
            return False
        if z3.is_app(x):
            k = x.decl().kind()
            if k in (z3.Z3_OP_ITE, z3.Z3_OP_STORE, z3.Z3_OP_CONST_ARRAY):
                return False
            todo.extend(x.children())
    return True


def fld(st, obj, name):
    return z3.Select(st.get("idict", a_of(obj)), STR.sid(name))


def keyfn(st, self):
    return fld(st, self, "_key")


def K(st, self, x):
    return kappa(keyfn(st, self), x)


def KR(st, self, x):
    return kappa_raises(keyfn(st, self), x)


def typ(st, self):
    return fld(st, self, "_type")


def item_ok(st, self, x):
    t = typ(st, self)
    return z3.Or(z3.Not(has_args(t)), conforms(x, targ0(t)))


def key_ok(st, self, k):
    t = typ(st, self)
    return z3.Or(z3.Not(has_args(t)), conforms(k, targ1(t)))


def lst(st, self):
    return a_of(fld(st, self, "_list"))


def dct(st, self):
    return a_of(fld(st, self, "_dict"))


def view(st, self):
    """abstract list of a KeyedList: (length, elements)"""
    L = lst(st, self)
    return st.get("llen", L), named(st, st.get("lelem", L), "view")


def idx_int(v):
    return z3.If(is_bool(v), z3.If(b_of(v), 1, 0), i_of(v))


def is_index(v):
    return z3.Or(is_int(v), is_bool(v))


def norm(i, n):
    return z3.If(i < 0, i + n, i)


def clip_insert(i, n):
    return z3.If(i < 0, z3.If(i + n < 0, 0, i + n), z3.If(i > n, n, i))


MODE = ["assume"]      # set by the engine: are the clauses being assumed or proved?


def seq_eq(n1, e1, n2, f2):
    """(n1, e1) is the sequence of length n2 whose j-th element is f2(j).  List arrays are normalised
    (the 'no value' marker outside [0, len)), so this is the array equality
        e1 == (lambda j. j in [0, n2) ? f2(j) : absent).
    As a hypothesis it is stated as that equality (rewrites directly); as a goal it is stated
    pointwise (the extensionality instance the solver would need anyway)."""
    j = z3.Int("j!seq")
    rhs = z3.If(z3.And(j >= 0, j < n2), f2(j), ABSENT)
    if MODE[0] == "assume":
        return z3.And(n1 == n2, e1 == z3.Lambda([j], rhs))
    return z3.And(n1 == n2, z3.ForAll([j], z3.Select(e1, j) == rhs))


def shape(st, self, clsname):
    """field layout: _list/_dict are distinct, exclusively owned built-in containers"""
    a = a_of(self)
    l, d = fld(st, self, "_list"), fld(st, self, "_dict")
    out = [is_ref(d), st.get("cls_of", a_of(d)) == CLS.cid("dict"), a_of(d) >= 1000, a_of(d) < st.alloc,
           a_of(d) != a, z3.Not(is_absent(keyfn(st, self))), z3.Not(is_absent(typ(st, self)))]
    if clsname == "KeyedList":
        out += [is_ref(l), st.get("cls_of", a_of(l)) == CLS.cid("list"), a_of(l) >= 1000, a_of(l) < st.alloc,
                a_of(l) != a, a_of(l) != a_of(d)]
    return out


def wf_list(st, self):
    """representation invariant of KeyedList (DESIGN.md C13)"""
    L, D = lst(st, self), dct(st, self)
    n, el = st.get("llen", L), named(st, st.get("lelem", L), "el")
    has, dv = named(st, st.get("dhas", D), "has"), named(st, st.get("dval", D), "dv")
    w = named(st, st.get("gwit", D), "w")
    i, j = z3.Int("i!wf"), z3.Int("j!wf")
    k = z3.Const("k!wf", Val)
    kf = keyfn(st, self)
    x = z3.Select(el, i)
    kx = kn(kappa(kf, x))
    return shape(st, self, "KeyedList") + [
        n >= 0, st.get("dsize", D) == n,
        # every list item is indexed under its key, is keyable and well typed
        z3.ForAll([i], z3.Implies(z3.And(i >= 0, i < n),
                  z3.And(z3.Not(is_absent(x)), z3.Not(kappa_raises(kf, x)), hashable(kappa(kf, x)),
                         z3.Select(has, kx), z3.Select(dv, kx) == x,
                         item_ok(st, self, x), key_ok(st, self, kappa(kf, x)))),
                  patterns=[z3.Select(el, i)]),
        # keys are unique
        z3.ForAll([i, j], z3.Implies(z3.And(i >= 0, i < j, j < n),
                  kn(kappa(kf, z3.Select(el, i))) != kn(kappa(kf, z3.Select(el, j)))),
                  patterns=[z3.MultiPattern(z3.Select(el, i), z3.Select(el, j))]),
        # the index holds nothing else (ghost witness: position of the item carrying key k)
        z3.ForAll([k], z3.Implies(z3.Select(has, k),
                  z3.And(z3.Select(w, k) >= 0, z3.Select(w, k) < n,
                         kn(kappa(kf, z3.Select(el, z3.Select(w, k)))) == k)),
                  patterns=[z3.Select(has, k)]),
    ]


def wit(st, self):
    return st.get("gwit", dct(st, self))


def set_wit(st, self, f):
    """ghost assignment: new witness map k -> f(k)"""
    k = z3.Const("k!gw", Val)
    st.put("gwit", dct(st, self), z3.Lambda([k], f(k)))


def unchanged_list(pre, post, self):
    """container exactly as it was: same list contents and same key index"""
    L, D = lst(pre, self), dct(pre, self)
    return [fld(post, self, "_list") == fld(pre, self, "_list"),
            fld(post, self, "_dict") == fld(pre, self, "_dict"),
            post.get("llen", L) == pre.get("llen", L), post.get("lelem", L) == pre.get("lelem", L),
            post.get("dhas", D) == pre.get("dhas", D), post.get("dval", D) == pre.get("dval", D),
            post.get("dsize", D) == pre.get("dsize", D)]


def same_config(pre, post, self):
    return [keyfn(post, self) == keyfn(pre, self), typ(post, self) == typ(pre, self)]


def has_key(st, self, key):
    return z3.Select(st.get("dhas", dct(st, self)), kn(key))


def seqof(st, v):
    """the finite sequence obtained by iterating v in state st: the heap contents for built-in
    lists/tuples, the view for a KeyedList, and (A-ITER) a function of the object otherwise."""
    from pyvc.models import IT_N, IT_ARR
    a = a_of(v)
    cl = st.get("cls_of", a)
    isl = z3.simplify(z3.And(is_ref(v), z3.Or(cl == CLS.cid("list"), cl == CLS.cid("tuple"))))
    if z3.is_true(isl):
        return st.get("llen", a), st.get("lelem", a)
    if z3.is_false(isl):
        return IT_N(v), IT_ARR(v)
    n = z3.If(isl, st.get("llen", a), IT_N(v))
    arr = z3.If(isl, st.get("lelem", a), IT_ARR(v))
    return n, arr


def seqof_set(st, v):
    """iteration of a built-in dict/set v: its keys in the (content-determined) enumeration order.
    The bijection facts of the enumeration are recorded in the current definitional sink."""
    from pyvc.models import ENUM_KS
    from pyvc.contracts import SINK
    a = a_of(v)
    has, dk = st.get("dhas", a), st.get("dkey", a)
    n, ks = st.get("dsize", a), ENUM_KS(has, dk)
    return n, ks
