"""C18 - Alias mirrors its target until overridden; passthrough writes reach the target.

Alias.__get__ / __set__ / __delete__ and the DeprecatedAlias wrappers are verified against the two-variable model of the
statement (the target's current value and the per-instance override) for attribute paths of one or two *identifier*
components (`a`, `a.b`).  The path parser (regular expression) and ["key"] components (string slicing + ast.literal_eval) are
outside the verified subset: bounded stand-in.
"""
import z3
from pyvc.vals import *
from pyvc.state import fresh
from pyvc.pvals import *
from pyvc.symex import Res, is_val, APP, APP_RAISES, clsattr
from pyvc.contracts import Contract, LoopSpec, register
from .spec_core import *
from . import spec_core as sc

AL = "spec_classes.types.alias:Alias"
DAL = "spec_classes.types.alias:DeprecatedAlias"

starts_bracket = z3.Function("starts_bracket", I, B)          # str.startswith("[") of an interned string


def startswith_hook(eng, st, recv, pos, kw, fx):
    if is_val(recv) and len(pos) == 1:
        return [Res("ok", st, vbool(starts_bracket(s_of(recv))))]
    return None


def join_hook(eng, st, recv, pos, kw, fx):
    if is_val(recv) and z3.is_true(z3.simplify(is_str(recv))):
        return [Res("ok", st, vstr(fresh("joined", I)))]          # the text of the warning message is not part of the property
    return None


def reduce_hook(eng, st, pos, kw, fx):
    """functools.reduce(f, seq, init) over a list of (provably) at most two elements: unrolled"""
    f, seq, init = pos
    seq = eng.to_val(st, seq)
    a = a_of(seq)
    n = st.get("llen", a)
    out = []
    for k in (0, 1, 2):
        s2 = st.fork()
        s2.assume(n == k)
        if not eng.feasible(s2):
            continue
        cur = [Res("ok", s2, init)]
        for j in range(k):
            nxt = []
            for r in cur:
                if r.kind != "ok":
                    out.append(r)
                    continue
                nxt.extend(eng.call(r.st, f, [r.val, z3.Select(r.st.get("lelem", a), j)], {}, fx))
            cur = nxt
        out.extend(cur)
    s3 = st.fork()
    s3.assume(n > 2)
    if eng.feasible(s3):
        raise Unsupported("functools.reduce over a sequence of unknown length")
    return out


def install_hooks(models):
    sc.install_hooks(models)
    models.method_hooks["startswith"] = startswith_hook
    models.method_hooks["join"] = join_hook
    models.builtin_hooks["functools.reduce"] = reduce_hook


def alias_cid(dep=False):
    return cid("DeprecatedAlias" if dep else "Alias")


OV_TEMPLATE = [None]


def override_name(eng, st, al):
    """the per-instance override slot name: the f-string in Alias.override_attr, as the engine's function of _owner_attr
    (the template text is read from the repository source on every run)"""
    import ast
    from pyvc.symex import fstr_func
    if OV_TEMPLATE[0] is None:
        ci = eng.ft.classes[AL]
        node = ci.props["override_attr"]["get"].node
        js = [n for n in ast.walk(node) if isinstance(n, ast.JoinedStr) and "override" in ast.unparse(n)]
        OV_TEMPLATE[0] = ast.unparse(js[0])
    return vstr(fstr_func(OV_TEMPLATE[0], 1)(fld(st, al, "_owner_attr")))


def look(eng, st, obj, name):
    """getattr(obj, name) by ordinary lookup: instance slot, else class attribute (absent when neither)"""
    iv = z3.If(is_ref(obj), z3.Select(st.get("idict", a_of(obj)), s_of(name)), ABSENT)
    return z3.If(is_absent(iv), cls_level(eng, st, obj, s_of(name)), iv)


class AliasBase(Contract):
    recv = AL

    def shape(self, c):
        eng, st, al = c.eng, c.pre, c.self
        path = fld(st, al, "_attr_path")
        P = a_of(path)
        n, e = st.get("llen", P), st.get("lelem", P)
        oa = fld(st, al, "_owner_attr")
        st.assume(is_bool(fld(st, al, "passthrough")), is_str(fld(st, al, "attr")), z3.Not(is_absent(fld(st, al, "fallback"))),
                  z3.Not(is_absent(fld(st, al, "transform"))), z3.Not(is_absent(fld(st, al, "_owner"))),
                  z3.Or(is_none(oa), z3.And(is_str(oa), s_of(oa) != 0)))
        tr = fld(st, al, "transform")
        st.assume(z3.Or(is_none(tr), z3.And(is_ref(tr), st.get("cls_of", a_of(tr)) == cid("function"))))
        # the parsed path (cached): one or two identifier components - scope of this proof
        st.assume(is_ref(path), st.get("cls_of", P) == cid("list"), P >= 1000, P < st.alloc, P != a_of(al), n >= 1, n <= 2)
        ov = override_name(eng, st, al)
        for j in (0, 1):
            x = z3.Select(e, j)
            st.assume(z3.Implies(j < n, z3.And(is_str(x), z3.Not(starts_bracket(s_of(x))), x != STR.val("__spec_class__"),
                                               x != STR.val("__spec_class_initializing__"), x != ov)))      # A-NAMES
        st.assume(ov != STR.val("__spec_class__"), ov != STR.val("__spec_class_initializing__"))
        inst = c.instance
        st.assume(z3.Or(is_none(inst), z3.And(is_ref(inst), a_of(inst) != a_of(al), a_of(inst) != P)))
        assume_spec_shape(eng, st, inst)

    def path(self, c):
        pre = c.pre
        P = a_of(fld(pre, c.self, "_attr_path"))
        return pre.get("llen", P), pre.get("lelem", P)

    def walk(self, c, st):
        """(found, value): following the whole path from the instance in state st"""
        n, e = self.path(c)
        v0 = look(c.eng, st, c.instance, z3.Select(e, 0))
        v1 = look(c.eng, st, v0, z3.Select(e, 1))
        return z3.If(n == 1, z3.Not(is_absent(v0)), z3.And(z3.Not(is_absent(v0)), z3.Not(is_absent(v1)))), z3.If(n == 1, v0, v1)

    def holder(self, c, st):
        """(found, object): the object that holds the last component"""
        n, e = self.path(c)
        v0 = look(c.eng, st, c.instance, z3.Select(e, 0))
        return z3.If(n == 1, z3.BoolVal(True), z3.Not(is_absent(v0))), z3.If(n == 1, c.instance, v0)

    def last(self, c):
        n, e = self.path(c)
        return z3.Select(e, n - 1)

    def override(self, c, st):
        """(stored?, value) of the per-instance override in state st"""
        eng, al = c.eng, c.self
        pre = c.pre
        oa = fld(pre, al, "_owner_attr")
        usable = z3.And(z3.Not(is_none(oa)), z3.Not(b_of(fld(pre, al, "passthrough"))))
        v = look(eng, st, c.instance, override_name(eng, pre, al))
        return z3.And(usable, z3.Not(is_absent(v))), v


@register
class AliasGet(AliasBase):
    """Alias.__get__(instance, owner): the override if one is stored, else transform(target); a missing target yields a
    fresh copy of the fallback, or AttributeError"""
    qual = AL + ".__get__"
    raises = {"AttributeError": "exc_attr", "*": "exc_any"}

    def setup(self, c):
        self.shape(c)

    def modifies(self, c):
        return []

    def post(self, c):
        eng, st, al, inst = c.eng, c.pre, c.self, c.instance
        res = eng.to_val(c.post, c.res)
        found, tgt = self.walk(c, st)
        has_ov, ov_val = self.override(c, st)
        tr = fld(st, al, "transform")
        live = z3.If(is_none(tr), tgt, APP[1](tr, tgt))
        some = z3.Not(is_none(inst))
        # (a transform that itself raises AttributeError is indistinguishable from a missing target for the code)
        tr_fails = z3.And(z3.Not(is_none(tr)), APP_RAISES[1](tr, tgt))
        return [("c18.class-access", z3.Implies(is_none(inst), res == al)),
                ("c18.override", z3.Implies(z3.And(some, has_ov), res == ov_val)),
                ("c18.live", z3.Implies(z3.And(some, z3.Not(has_ov), found, z3.Not(tr_fails)), res == live)),
                ("c18.fallback", z3.Implies(z3.And(some, z3.Not(has_ov), z3.Or(z3.Not(found), tr_fails)),
                                            copy_rel(eng, st, c.post, res, fld(st, al, "fallback"))))]

    def exc_attr(self, c):
        eng, st, al = c.eng, c.pre, c.self
        found, tgt = self.walk(c, st)
        has_ov, ov_val = self.override(c, st)
        tr = fld(st, al, "transform")
        # the target is missing and there is no fallback (or the transform itself raised AttributeError and there is none)
        return [("c18.why", z3.And(z3.Not(has_ov), fld(st, al, "fallback") == sentinel(eng, st, "MISSING"),
                                   z3.Or(z3.Not(found), z3.Not(is_none(tr)))))]

    def exc_any(self, c):
        has_ov, ov_val = self.override(c, c.pre)
        return [("c18.not-overridden", z3.Not(has_ov))]


class AliasWrite(AliasBase):
    raises = {"RuntimeError": "exc_unbound", "*": "exc_any"}

    def setup(self, c):
        self.shape(c)
        st = c.pre
        st.assume(is_ref(c.instance))
        # scope: the object the write lands on is the instance itself or an ordinary nested object of its own
        f, h = AliasBase.holder(self, c, st)
        hc = fresh("holder")
        st.assume(hc == h)
        self._holder = (f, hc)
        st.assume(z3.Implies(z3.And(f, is_ref(hc)), z3.And(a_of(hc) != a_of(c.self), a_of(hc) >= 1000, a_of(hc) < st.alloc)))
        assume_spec_shape(c.eng, st, hc)

    def holder(self, c, st):
        if c.side == "verify" and st is c.pre and getattr(self, "_holder", None) is not None:
            return self._holder
        return AliasBase.holder(self, c, st)

    def modifies(self, c):
        st = c.pre
        pt = b_of(fld(st, c.self, "passthrough"))
        f, h = self.holder(c, st)
        return [(a_of(c.instance), z3.Not(pt)), (a_of(h), z3.And(pt, is_ref(h)))]

    def exc_unbound(self, c):
        st = c.pre
        return [("c18.why", z3.And(z3.Not(b_of(fld(st, c.self, "passthrough"))), z3.Not(c.eng.truthy(st, fld(st, c.self, "_owner_attr")))))]

    def exc_any(self, c):
        return []

    def target_slot(self, c, st):
        f, h = self.holder(c, c.pre)
        return z3.Select(st.get("idict", a_of(h)), s_of(self.last(c)))


@register
class AliasSet(AliasWrite):
    """Alias.__set__(instance, value): a passthrough alias assigns to the target; otherwise the value is stored in the
    per-instance override slot and the target is left alone"""
    qual = AL + ".__set__"

    def post(self, c):
        eng, st, al, inst = c.eng, c.pre, c.self, c.instance
        pt = b_of(fld(st, al, "passthrough"))
        f, h = self.holder(c, st)
        ovn = override_name(eng, st, al)
        v = eng.to_val(st, c.value)
        plain = z3.Not(is_spec(eng, st, inst))             # (spec instances: the generated __setattr__ prepares the value first - its contract)
        return [("c18.shadow", z3.Implies(z3.And(z3.Not(pt), plain), z3.Select(D(c.post, inst), s_of(ovn)) == v)),
                ("c18.target-untouched", z3.Implies(z3.And(z3.Not(pt), plain, z3.Or(z3.Not(is_ref(h)), h != inst, self.last(c) != ovn)),
                                                    self.target_slot(c, c.post) == self.target_slot(c, st))),
                ("c18.passthrough", z3.Implies(z3.And(pt, z3.Not(is_spec(eng, st, h))), self.target_slot(c, c.post) == v))]


@register
class AliasDelete(AliasWrite):
    """Alias.__delete__(instance): a passthrough alias deletes the target; otherwise the override is dropped (the live view returns)"""
    qual = AL + ".__delete__"
    raises = {"RuntimeError": "exc_unbound", "AttributeError": "exc_attr", "*": "exc_any"}

    def post(self, c):
        eng, st, al, inst = c.eng, c.pre, c.self, c.instance
        pt = b_of(fld(st, al, "passthrough"))
        f, h = self.holder(c, st)
        ovn = override_name(eng, st, al)
        plain = z3.Not(is_spec(eng, st, inst))
        return [("c18.unshadow", z3.Implies(z3.And(z3.Not(pt), plain), is_absent(z3.Select(D(c.post, inst), s_of(ovn))))),
                ("c18.target-untouched", z3.Implies(z3.And(z3.Not(pt), plain, z3.Or(z3.Not(is_ref(h)), h != inst, self.last(c) != ovn)),
                                                    self.target_slot(c, c.post) == self.target_slot(c, st))),
                ("c18.passthrough", z3.Implies(z3.And(pt, z3.Not(is_spec(eng, st, h))), is_absent(self.target_slot(c, c.post))))]

    def exc_attr(self, c):
        return []


# ------------------------------------------------------------------------------------------------
# DeprecatedAlias: warns on every access and changes nothing else
# ------------------------------------------------------------------------------------------------
class DepBase(AliasBase):
    recv = DAL
    inner = None

    def dep_shape(self, c):
        st, al = c.pre, c.self
        for f in ("as_of", "until", "warning_cls"):
            st.assume(z3.Not(is_absent(fld(st, al, f))))
        o = fld(st, al, "_owner")
        st.assume(z3.Or(is_cls(o), is_ref(o)), z3.Not(is_none(fld(st, al, "_owner_attr"))))

    def warned_once(self, c):
        """ghost: warnings.warn was called exactly once more than before"""
        return z3.BoolVal(c.post.ghost.get("warnings", 0) == c.pre.ghost.get("warnings", 0) + 1)

    def delegate(self, c, which):
        """the clauses of the wrapped Alias method, re-stated for this call"""
        from pyvc.contracts import REGISTRY
        base = REGISTRY[(AL + "." + which, AL)]
        return base

    def modifies(self, c):
        return self.delegate(c, self.inner).modifies(c)

    def post(self, c):
        return [("c18.warns-once", self.warned_once(c))] + self.delegate(c, self.inner).post(c)


@register
class DepGet(DepBase):
    """DeprecatedAlias.__get__: one warning, then exactly Alias.__get__"""
    qual = DAL + ".__get__"
    inner = "__get__"
    raises = {"AttributeError": "exc_attr", "*": "exc_any"}

    def setup(self, c):
        self.shape(c)
        self.dep_shape(c)

    def exc_attr(self, c):
        return [("c18.warns-once", self.warned_once(c))] + self.delegate(c, "__get__").exc_attr(c)

    def exc_any(self, c):
        return [("c18.warns-once", self.warned_once(c))] + self.delegate(c, "__get__").exc_any(c)


class DepWrite(DepBase):
    raises = {"RuntimeError": "exc_unbound", "*": "exc_any"}

    def setup(self, c):
        AliasWrite.setup(self, c)
        self.dep_shape(c)

    holder = AliasWrite.holder
    target_slot = AliasWrite.target_slot

    def exc_unbound(self, c):
        return [("c18.warns-once", self.warned_once(c))]

    def exc_any(self, c):
        return [("c18.warns-once", self.warned_once(c))]


@register
class DepSet(DepWrite):
    """DeprecatedAlias.__set__: one warning, then exactly Alias.__set__"""
    qual = DAL + ".__set__"
    inner = "__set__"


@register
class DepDelete(DepWrite):
    """DeprecatedAlias.__delete__: one warning, then exactly Alias.__delete__"""
    qual = DAL + ".__delete__"
    inner = "__delete__"
    raises = {"RuntimeError": "exc_unbound", "AttributeError": "exc_any", "*": "exc_any"}


@register
class AliasSetName(Contract):
    """__set_name__(owner, name): records the class and the attribute name the alias sits under - the name the
    per-instance override slot is derived from - and keeps the target path, transform, passthrough flag and fallback"""
    qual = AL + ".__set_name__"
    recv = AL
    named = ("attr", "transform", "passthrough", "fallback", "_attr_path")

    def setup(self, c):
        st, s = c.pre, c.self
        st.assume(is_ref(s), a_of(s) >= 1000, a_of(s) < st.alloc)
        st.assume(is_str(c.eng.to_val(st, c.name)))

    def modifies(self, c):
        return [a_of(c.self)]

    def post(self, c):
        st, s = c.pre, c.self
        return [("owner_attr", fld(c.post, s, "_owner_attr") == c.eng.to_val(st, c.name)),
                ("owner", fld(c.post, s, "_owner") == c.eng.to_val(st, c.owner)),
                ("config-kept", z3.And([fld(c.post, s, n) == fld(st, s, n) for n in self.named]))]
