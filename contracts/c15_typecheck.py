"""C15 - the run-time type check accepts a value exactly when it conforms structurally.

`conforms(v, T)` is defined below by structural recursion *from the property statement* (one-step
unfolding, asserted at the top-level term; recursive calls of check_type are replaced by the
contract).  Annotations are values observed through uninterpreted functions (atag, nargs, targ,
origin); A-TYPING ties the Python-level observations the code makes on typing objects to them and is
validated against real typing objects by bounded/c15.py on every run.
"""
import z3
from pyvc.vals import *
from pyvc.state import fresh, HEAP_SORTS
from pyvc.pvals import *
from pyvc.symex import Res, is_val
from pyvc.contracts import Contract, LoopSpec, register
from pyvc import models as M
from .keyed_specs import conforms

TC = "spec_classes.utils.type_checking"
ANY, TVAR, UNION, PEP604, LITERAL, GALIAS, CLASS = range(1, 8)
atag = z3.Function("atag", Val, I)
nargs = z3.Function("nargs", Val, I)
targ = z3.Function("targ", Val, I, Val)
origin = z3.Function("origin", Val, Val)
instof = z3.Function("instof", Val, Val, B)      # isinstance(v, C) for a class object C (validated types: their predicate)
ann_ok = z3.Function("ann_ok", Val, B)           # T belongs to the annotation language of the statement
adepth = z3.Function("adepth", Val, I)
tsub = z3.Function("tsub", Val, Val, B)          # class v is a subclass of erase(A)   (Type[A])


def atom(name):
    if name not in CLS.ids:
        CLS.add(name, ("object",))
    return CLS.val(name)


def ANYV():
    return atom("<typing.Any>")


def UNIONV():
    return atom("<typing.Union>")


def LITV():
    return atom("<typing.Literal>")


def LITEXT():
    return atom("<typing_extensions.Literal>")


def H0(comp):
    return z3.Const("H0_%s" % comp, HEAP_SORTS[comp])


def inst_builtin(v, name):
    """isinstance(v, <builtin class>) over the initial heap (classes of existing objects never change)"""
    c = z3.Select(H0("cls_of"), a_of(v))
    if name == "int":
        return z3.Or(is_int(v), is_bool(v))
    if name == "bool":
        return is_bool(v)
    if name in ("float",):
        return is_real(v)
    if name == "str":
        return is_str(v)
    if name == "NoneType":
        return is_none(v)
    if name == "type":
        return is_cls(v)
    if name == "object":
        return z3.BoolVal(True)
    return z3.And(is_ref(v), subcls(c, CLS.cid(name)))


BUILTINS = ("int", "bool", "float", "str", "NoneType", "type", "list", "set", "dict", "tuple", "object")


def inst_facts(v, C):
    """ground instances of: instof(v, cls(K)) == isinstance-formula of builtin K"""
    out = []
    for k in BUILTINS:
        out.append(z3.Implies(C == CLS.val(k), instof(v, C) == inst_builtin(v, k)))
    return out


class PArgs(PSeq):
    """`T.__args__` of an annotation value"""
    def __init__(self, T):
        PSeq.__init__(self, nargs(T), lambda s, k: targ(T, k if not isinstance(k, int) else z3.IntVal(k)), "__args__")
        self.T = T
        j = z3.Int("j!pa")
        self.arr = z3.Lambda([j], targ(T, j))


# ------------------------------------------------------------------------------------------------
# hooks: how check_type observes typing objects  (A-TYPING)
# ------------------------------------------------------------------------------------------------
def origin_hook(eng, st, v, fx):
    has = z3.Or(atag(v) == UNION, atag(v) == LITERAL, atag(v) == GALIAS)
    out = []
    for s2, b in eng.split(st, has, note="has __origin__"):
        if b:
            out.append(Res("ok", s2, origin(v)))
        else:
            out.append(eng.exc(s2, "AttributeError", note="no __origin__"))
    return out


def args_hook(eng, st, v, fx):
    return [Res("ok", st, PArgs(v))]


def instcheck_hook(eng, st, x, C):
    if isinstance(C, PClass) and is_val(x):
        if C.name == "TypeVar":
            return atag(x) == TVAR
        if C.name == "UnionType":
            return atag(x) == PEP604
        if C.name == "type":
            # typing's special forms (Union, Literal) are not classes; typing.Any is one in 3.11+
            return z3.And(is_cls(x), x != UNIONV(), x != LITV(), x != LITEXT())
        if C.name in ("_GenericAlias", "GenericAlias"):
            return z3.Or(atag(x) == GALIAS, atag(x) == UNION, atag(x) == LITERAL) if C.name == "_GenericAlias" \
                else atag(x) == GALIAS
        return None
    if is_val(C) and is_val(x):
        for g in inst_facts(x, C):
            st.assume(g)
        return instof(x, C)
    return None


def issubclass_hook(eng, st, pos, kw, fx):
    """issubclass(cls, X) as CPython 3.12 defines it for the typing objects of the annotation language"""
    a, b = pos
    if not (is_val(a) and is_val(b)):
        return None
    out = []
    for s2, ok in eng.split(st, is_cls(a), note="issubclass arg1 is a class"):
        if not ok:
            out.append(eng.exc(s2, "TypeError", note="issubclass() arg 1 must be a class"))
            continue
        i = z3.Int("i!isc")
        plain = z3.And(atag(b) == CLASS, is_cls(b))
        anyx = atag(b) == ANY
        union = z3.Or(atag(b) == UNION, atag(b) == PEP604)
        union_plain = z3.ForAll([i], z3.Implies(z3.And(i >= 0, i < nargs(b)),
                                                z3.Or(atag(targ(b, i)) == CLASS, atag(targ(b, i)) == ANY)))
        okc = z3.Or(plain, anyx, z3.And(union, union_plain))
        for s3, fine in eng.split(s2, okc, note="issubclass arg2 acceptable"):
            if not fine:
                out.append(eng.exc(s3, "TypeError", note="issubclass() arg 2 must be a class, a tuple of classes, or a union"))
                continue
            res = z3.If(plain, subcls(c_of(a), c_of(b)),
                        z3.If(anyx, False,
                              z3.Exists([i], z3.And(i >= 0, i < nargs(b), atag(targ(b, i)) == CLASS,
                                                    subcls(c_of(a), c_of(targ(b, i)))))))
            out.append(Res("ok", s3, vbool(res)))
    return out


def pseq_getitem(eng, st, obj, idx):
    """indexing of an engine-level sequence (T.__args__)"""
    idx = eng.to_val(st, idx)
    if not eng.valid(st, is_int(idx)):
        raise Unsupported("non-int index into __args__")
    i = i_of(idx)
    n = obj.n if not isinstance(obj.n, int) else z3.IntVal(obj.n)
    out = []
    for s2, b in eng.split(st, z3.And(i >= 0, i < n), note="__args__ index in range"):
        out.append(Res("ok", s2, obj.at(s2, i)) if b else eng.exc(s2, "IndexError", note="tuple index out of range"))
    return out


def install_hooks(models):
    models.attr_hooks["__origin__"] = origin_hook
    models.attr_hooks["__args__"] = args_hook
    models.instcheck_hooks.append(instcheck_hook)
    models.builtin_hooks["issubclass"] = issubclass_hook
    _orig_getitem = models.getitem
    _orig_contains = models.contains
    _orig_len = models.bi_len

    def getitem(eng, st, obj, idx, fx):
        if isinstance(obj, PArgs):
            return pseq_getitem(eng, st, obj, idx)
        return _orig_getitem(eng, st, obj, idx, fx)

    def contains(eng, st, container, item, fx):
        if isinstance(container, PArgs):
            i = z3.Int("i!pin")
            item = eng.to_val(st, item)
            return [Res("ok", st, vbool(z3.Exists([i], z3.And(i >= 0, i < container.n,
                                                              kn(targ(container.T, i)) == kn(item)))))]
        return _orig_contains(eng, st, container, item, fx)

    def bi_len(eng, st, pos, kw, fx):
        if isinstance(pos[0], PArgs):
            return [Res("ok", st, vint(pos[0].n))]
        return _orig_len(eng, st, pos, kw, fx)
    models.getitem = getitem
    models.contains = contains
    models.bi_len = bi_len


# ------------------------------------------------------------------------------------------------
# the specification: structural conformance (from the statement)
# ------------------------------------------------------------------------------------------------
def all_list(st, v, A):
    a = a_of(v)
    n, el = st.get("llen", a), st.get("lelem", a)
    i = z3.Int("i!al")
    return z3.ForAll([i], z3.Implies(z3.And(i >= 0, i < n), conforms(z3.Select(el, i), A)))


def all_set(st, v, A):
    a = a_of(v)
    has, dk = st.get("dhas", a), st.get("dkey", a)
    k = z3.Const("k!as", Val)
    return z3.ForAll([k], z3.Implies(z3.Select(has, k), conforms(z3.Select(dk, k), A)))


def all_items(st, v, A, Bt):
    a = a_of(v)
    has, dk, dv = st.get("dhas", a), st.get("dkey", a), st.get("dval", a)
    k = z3.Const("k!ai", Val)
    return z3.ForAll([k], z3.Implies(z3.Select(has, k), z3.And(conforms(z3.Select(dk, k), A),
                                                               conforms(z3.Select(dv, k), Bt))))


def tsub_body(v, A):
    """class v is a subclass of the erasure of A: Any/TypeVar -> everything, Union -> some alternative,
    generic alias -> its origin, class -> itself"""
    i = z3.Int("i!ts")
    return z3.If(z3.Or(atag(A) == ANY, atag(A) == TVAR), True,
           z3.If(z3.Or(atag(A) == UNION, atag(A) == PEP604),
                 z3.Exists([i], z3.And(i >= 0, i < nargs(A), tsub(v, targ(A, i)))),
           z3.If(atag(A) == GALIAS, z3.And(is_cls(origin(A)), subcls(c_of(v), c_of(origin(A)))),
           z3.If(atag(A) == CLASS, z3.And(is_cls(A), subcls(c_of(v), c_of(A))), False))))


def conforms_body(st, v, T):
    i = z3.Int("i!cf")
    o = origin(T)
    a = a_of(v)
    n = st.get("llen", a)
    el = st.get("lelem", a)
    tup_var = z3.And(nargs(T) == 2, targ(T, 1) == ELLIPSIS)
    tup = z3.If(tup_var, all_list(st, v, targ(T, 0)),
                z3.And(n == nargs(T), z3.ForAll([i], z3.Implies(z3.And(i >= 0, i < nargs(T)),
                                                               conforms(z3.Select(el, i), targ(T, i))))))
    galias = z3.And(instof(v, o),
                    z3.If(o == CLS.val("list"), all_list(st, v, targ(T, 0)),
                    z3.If(o == CLS.val("set"), all_set(st, v, targ(T, 0)),
                    z3.If(o == CLS.val("dict"), all_items(st, v, targ(T, 0), targ(T, 1)),
                    z3.If(o == CLS.val("tuple"), tup,
                    z3.If(o == CLS.val("type"), tsub(v, targ(T, 0)), True))))))
    return z3.If(z3.Or(atag(T) == ANY, atag(T) == TVAR), True,
           z3.If(T == CLS.val("float"), numlike(v),
           z3.If(z3.Or(atag(T) == UNION, atag(T) == PEP604),
                 z3.Exists([i], z3.And(i >= 0, i < nargs(T), conforms(v, targ(T, i)))),
           z3.If(atag(T) == LITERAL, z3.Exists([i], z3.And(i >= 0, i < nargs(T), kn(v) == kn(targ(T, i)))),
           z3.If(atag(T) == GALIAS, galias, instof(v, T))))))


def ann_ok_body(T):
    """A-TYPING well-formedness of an annotation of the language (one level; the arguments are ann_ok again)"""
    i = z3.Int("i!ok")
    o = origin(T)
    return z3.And(
        atag(T) >= ANY, atag(T) <= CLASS,
        T != UNIONV(), T != LITV(), T != LITEXT(),          # bare special forms are not annotations
        (atag(T) == ANY) == (T == ANYV()),
        z3.Implies(atag(T) == CLASS, is_cls(T)),
        z3.Implies(T == CLS.val("float"), atag(T) == CLASS),
        z3.Implies(is_cls(T), z3.Or(atag(T) == CLASS, atag(T) == ANY)),
        z3.Implies(atag(T) == UNION, z3.And(o == UNIONV(), nargs(T) >= 2)),
        z3.Implies(atag(T) == PEP604, nargs(T) >= 2),
        z3.Implies(atag(T) == LITERAL, z3.And(z3.Or(o == LITV(), o == LITEXT()), nargs(T) >= 1)),
        z3.Implies(atag(T) == GALIAS, z3.And(
            is_cls(o), o != UNIONV(), o != LITV(), o != LITEXT(), o != ANYV(), atag(o) == CLASS, nargs(T) >= 0,
            z3.Implies(z3.Or(o == CLS.val("list"), o == CLS.val("set"), o == CLS.val("type")), nargs(T) == 1),
            z3.Implies(o == CLS.val("dict"), nargs(T) == 2),
            # the argument of Type[...] is erasable: a class, Any/TypeVar, a union of such, or an alias
            )),
        z3.ForAll([i], z3.Implies(z3.And(i >= 0, i < nargs(T)),
                                  z3.And(z3.Implies(atag(T) != LITERAL, ann_ok(targ(T, i))),
                                         z3.Not(is_absent(targ(T, i))), adepth(targ(T, i)) < adepth(T)))),
        adepth(T) >= 0)


@register
class CheckType(Contract):
    """check_type(value, attr_type) == conforms(value, attr_type); never raises on the annotation language"""
    qual = TC + ":check_type"

    def setup(self, c):
        st = c.pre
        v, T = c.value, c.attr_type
        st.assume(conforms(v, T) == conforms_body(st, v, T))
        st.assume(ann_ok(T) == ann_ok_body(T))
        for k in range(2):
            A = targ(T, k)
            st.assume(ann_ok(A) == ann_ok_body(A))
            st.assume(tsub(v, A) == tsub_body(v, A))
            j = z3.Int("j!su")
            st.assume(z3.ForAll([j], tsub(v, targ(A, j)) == tsub_body(v, targ(A, j)), patterns=[tsub(v, targ(A, j))]))
            st.assume(z3.ForAll([j], z3.Implies(ann_ok(targ(A, j)), z3.And(
                atag(targ(A, j)) >= ANY, atag(targ(A, j)) <= CLASS,
                z3.Implies(atag(targ(A, j)) == CLASS, is_cls(targ(A, j))))), patterns=[atag(targ(A, j))]))
        for g in inst_facts(v, T) + inst_facts(v, origin(T)):
            st.assume(g)

    def result(self, c):
        # pure and total: the result *is* the truth value of conformance (no fresh symbol)
        return vbool(conforms(c.eng.to_val(c.pre, c.value), c.eng.to_val(c.pre, c.attr_type)))

    def pre(self, c):
        T = c.eng.to_val(c.pre, c.attr_type)
        out = [("annotation", ann_ok(T)), ("value", z3.Not(is_absent(c.eng.to_val(c.pre, c.value))))]
        if c.side == "apply" and c.eng.cur_target is self:
            ent = c.eng.cur_entry
            out.append(("decreases", adepth(T) < adepth(ent)))
        return out

    def post(self, c):
        v, T = c.eng.to_val(c.pre, c.value), c.eng.to_val(c.pre, c.attr_type)
        out = [("bool", is_bool(c.res)), ("conforms", b_of(c.res) == conforms(v, T))]
        if c.side == "apply":
            # simple unfoldings callers rely on (numeric classes)
            out.append(("float", z3.Implies(T == CLS.val("float"), conforms(v, T) == numlike(v))))
            out.append(("int", z3.Implies(T == CLS.val("int"), conforms(v, T) == z3.Or(is_int(v), is_bool(v)))))
        return out

    # loops (source order): list/set items, dict items, Tuple[T, ...] items, fixed-length tuple items
    def inv_items(which):
        def inv(lc, st, i):
            T = lc.args["attr_type"]
            p = lc.plan
            j = z3.Int("j!inv")
            if which == "dict":
                body = z3.And(conforms(p.at(st, j).items[0], targ(T, 0)), conforms(p.at(st, j).items[1], targ(T, 1)))
            elif which == "enum":
                body = conforms(p.at(st, j).items[1], targ(T, j))
            else:
                body = conforms(p.at(st, j), targ(T, 0))
            return [("before", z3.ForAll([j], z3.Implies(z3.And(j >= 0, j < i), body))),
                    ("type", st.env["attr_type"] == T), ("value", st.env["value"] == lc.args["value"])]
        return inv
    loops = {0: LoopSpec(inv_items("seq")), 1: LoopSpec(inv_items("dict")),
             2: LoopSpec(inv_items("seq")), 3: LoopSpec(inv_items("enum"))}

    def verify(self, eng, finfo=None, closure=None):
        eng.cur_entry = None
        self_ = self

        class Probe:
            pass
        # remember the entry annotation for the `decreases` obligation of recursive calls
        orig_setup = self.setup

        def setup(c):
            eng.cur_entry = c.attr_type
            orig_setup(c)
        self.setup = setup
        try:
            return Contract.verify(self, eng, finfo, closure)
        finally:
            self.setup = orig_setup


def has_origin(T):
    return z3.Or(atag(T) == UNION, atag(T) == LITERAL, atag(T) == GALIAS)


@register
class SubclassOfType(Contract):
    """_is_subclass_of_type(cls, A): the class is a subclass of the erasure of A (Type[A]); never raises"""
    qual = TC + ":_is_subclass_of_type"

    def setup(self, c):
        st = c.pre
        v, A = c.cls, c.attr_type
        st.assume(tsub(v, A) == tsub_body(v, A))
        st.assume(ann_ok(A) == ann_ok_body(A))
        c.eng.cur_entry = A

    def result(self, c):
        return vbool(tsub(c.eng.to_val(c.pre, c.cls), c.eng.to_val(c.pre, c.attr_type)))

    def pre(self, c):
        A = c.eng.to_val(c.pre, c.attr_type)
        out = [("class", is_cls(c.eng.to_val(c.pre, c.cls))), ("annotation", z3.And(ann_ok(A), z3.Not(is_absent(A))))]
        if c.side == "apply" and c.eng.cur_target is self:
            out.append(("decreases", adepth(A) < adepth(c.eng.cur_entry)))
        return out

    def post(self, c):
        v, A = c.eng.to_val(c.pre, c.cls), c.eng.to_val(c.pre, c.attr_type)
        return [("bool", is_bool(c.res)), ("erasure", b_of(c.res) == tsub(v, A))]

    def inv0(lc, st, k):
        A = lc.args["attr_type"]
        cur = st.env["attr_type"]
        return [("cls", st.env["cls"] == lc.args["cls"]),
                ("cur", z3.Or(cur == A, z3.And(cur == origin(A), has_origin(A))))]

    def var0(lc, st):
        return z3.If(has_origin(st.env["attr_type"]), 1, 0)
    loops = {0: LoopSpec(inv0, variant=var0)}


@register
class Validator(Contract):
    """the validator closure built by bounded(numeric_type, ge=, gt=, le=, lt=): conformance to the numeric
    type and every declared bound, inclusive or exclusive as declared (zero bounds included)"""
    qual = "spec_classes.types.validated:bounded.<locals>.validator"

    def finfo(self, ft):
        return ft.nested("spec_classes.types.validated:bounded", "validator")

    def free(self, c):
        return c.ghost_free

    def custom_verify(self, eng):
        fi = self.finfo(eng.ft)
        self.fv = {n: fresh("fv_" + n) for n in ("ge", "gt", "le", "lt", "numeric_type")}
        return Contract.verify(self, eng, fi, closure=dict(self.fv))

    def setup(self, c):
        st = c.pre
        fv = self.fv
        for n in ("ge", "gt", "le", "lt"):
            st.assume(z3.Or(is_none(fv[n]), is_int(fv[n]), is_real(fv[n])))
        nt = fv["numeric_type"]
        st.assume(z3.Or(nt == CLS.val("int"), nt == CLS.val("float")), ann_ok(nt), z3.Not(is_absent(nt)))

    def post(self, c):
        fv = self.fv
        x = c.obj
        nx = num_of(x)

        def bound(b, rel):
            return z3.Or(is_none(b), rel(nx, num_of(b)))
        return [("bool", is_bool(c.res)),
                ("exact", b_of(c.res) == z3.And(conforms(x, fv["numeric_type"]),
                                                bound(fv["ge"], lambda a, b: a >= b), bound(fv["gt"], lambda a, b: a > b),
                                                bound(fv["le"], lambda a, b: a <= b), bound(fv["lt"], lambda a, b: a < b)))]


@register
class TypeMatch(Contract):
    """type_match(type_input, type_reference): strip generic aliases to their origin, then issubclass"""
    qual = TC + ":type_match"
    assumed = True
    reason = "used by C06/C16 only (collection family of an attribute); exercised by the bounded pool of bounded/c15.py"


AXIOMS = [atag(UNIONV()) == CLASS, atag(LITV()) == CLASS, atag(LITEXT()) == CLASS, atag(ANYV()) == ANY]
