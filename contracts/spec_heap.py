"""Shared abstraction of spec-class metadata for the spec-heap properties (DESIGN.md 4.4).

A-META: what links a concrete class definition to these records is spec_class.bootstrap (reflection,
outside the subset); the contracts only assume the *shape* below (typed fields), so every proof holds
for every class configuration that can reach the function.
"""
import z3
from pyvc.vals import *
from pyvc.state import fresh
from pyvc.pvals import *
from pyvc.symex import Res, is_val, clsattr
from .keyed_specs import conforms, named, pattern_ok

SENT = ("MISSING", "EMPTY", "UNCHANGED")
prepared = z3.Function("prepared", Val, Val, Val, Val)          # prepare_attr_value(attr_spec, instance, value) (A-CB pure)
prepared_raises = z3.Function("prepared_raises", Val, Val, Val, B)


for _s in ("MISSING", "EMPTY", "UNCHANGED", "SENTINEL"):
    CLS.add(_s, ("object",))


def fld(st, obj, name):
    return z3.Select(st.get("idict", a_of(obj)), STR.sid(name))


def sentinel(eng, st, name):
    return eng.to_val(st, eng.global_value("spec_classes.types.missing", name))


def is_sentinel(eng, st, v):
    return z3.Or(*[v == sentinel(eng, st, n) for n in SENT])


def cls_level(eng, st, v, sid):
    """the class-level part of an attribute read, exactly as the engine models it (pyvc/models.py foreign_getattr / dyn_getattr):
    on a class value the class's own (inherited) attribute, otherwise the attribute of the value's class"""
    return z3.If(is_cls(v), clsattr(c_of(v), sid), clsattr(eng.type_of(st, v), sid))


def meta_of(eng, st, obj):
    """obj.__spec_class__ as found by attribute lookup on a foreign object"""
    sid = STR.sid("__spec_class__")
    iv = z3.If(is_ref(obj), z3.Select(st.get("idict", a_of(obj)), sid), ABSENT)
    return z3.If(is_absent(iv), clsattr(eng.type_of(st, obj), sid), iv)          # (obj: an instance, never a class value)


def cid(name):
    if name not in CLS.ids:
        CLS.add(name, ("object",))
    return CLS.cid(name)


def wf_attr(st, a):
    """shape of an Attr record"""
    return z3.And(is_ref(a), st.get("cls_of", a_of(a)) == cid("Attr"), a_of(a) >= 1000, a_of(a) < st.alloc,
                  is_str(fld(st, a, "name")), z3.Not(is_absent(fld(st, a, "type"))),
                  is_bool(fld(st, a, "do_not_copy")), is_bool(fld(st, a, "is_masked")),
                  is_bool(fld(st, a, "init")), is_bool(fld(st, a, "compare")), is_bool(fld(st, a, "repr")),
                  z3.Not(is_absent(fld(st, a, "default"))), z3.Not(is_absent(fld(st, a, "default_factory"))),
                  z3.Not(is_absent(fld(st, a, "prepare"))), z3.Not(is_absent(fld(st, a, "prepare_item"))),
                  z3.Not(is_absent(fld(st, a, "owner"))),
                  # the sentinels EMPTY / UNCHANGED are call-protocol markers, never declared defaults
                  fld(st, a, "default") != CLS.val("EMPTY"), fld(st, a, "default") != CLS.val("UNCHANGED"))


def wf_meta(st, m):
    """shape of a SpecClassMetadata record: typed flags, attrs is a dict of well-formed Attr records keyed by name"""
    attrs = fld(st, m, "attrs")
    A = a_of(attrs)
    has, dv = named(st, st.get("dhas", A), "mhas"), named(st, st.get("dval", A), "mdv")
    k = z3.Const("k!wm", Val)
    return [is_ref(m), st.get("cls_of", a_of(m)) == cid("SpecClassMetadata"), a_of(m) >= 1000, a_of(m) < st.alloc,
            is_bool(fld(st, m, "frozen")), is_bool(fld(st, m, "do_not_copy")),
            is_ref(attrs), st.get("cls_of", A) == cid("dict"), A >= 1000, A < st.alloc,
            z3.Not(is_absent(fld(st, m, "key"))), z3.Not(is_absent(fld(st, m, "init_overflow_attr"))),
            z3.Not(is_absent(fld(st, m, "owner"))), z3.Not(is_absent(fld(st, m, "post_init"))),
            z3.ForAll([k], z3.Implies(z3.Select(has, k), z3.And(is_str(k), wf_attr(st, z3.Select(dv, k)),
                                                                fld(st, z3.Select(dv, k), "name") == k,
                                                                # managed attributes are ordinary names, not the library's own slots
                                                                k != STR.val("__spec_class__"),
                                                                k != STR.val("__spec_class_initializing__"))),
                      patterns=[z3.Select(has, k)])]


def managed(eng, st, obj, name):
    """(is a spec-class instance with `name` managed, its Attr record)"""
    m = meta_of(eng, st, obj)
    A = a_of(fld(st, m, "attrs"))
    has, dv = st.get("dhas", A), st.get("dval", A)
    truthy_meta = z3.And(z3.Not(is_absent(m)), eng.truthy(st, m))
    return z3.And(truthy_meta, z3.Select(has, kn(name))), z3.Select(dv, kn(name))


def assume_meta_shape(eng, st, obj):
    """A-META for one object: its metadata, if any, is a well-formed (truthy) SpecClassMetadata record"""
    m = meta_of(eng, st, obj)
    present = z3.And(z3.Not(is_absent(m)), z3.Not(is_none(m)))
    for g in wf_meta(st, m):
        st.assume(z3.Implies(present, g))        # one by one: the ground conjuncts stay usable for path pruning
    st.assume(z3.Or(is_absent(m), is_none(m), is_ref(m)))
    from pyvc.vals import utruthy
    st.assume(z3.Implies(is_ref(m), utruthy(a_of(m))))
    st.assume(z3.Implies(is_ref(obj), is_absent(z3.Select(st.get("idict", a_of(obj)), STR.sid("__spec_class__")))))
