"""Preparation of a whole collection value (with_<attr>(value), obj.attr = value, constructor arguments):
CollectionAttrMutator.prepare and the per-family _prepare_items / add_items, then prepare_attr_value itself.

The clause carried here is the second sentence of C01 - *objects passed in as arguments are never modified*: whatever
preparation does (creating the container, converting a foreign iterable, running the item preparer, promoting keys), every
write lands on the mutator object or on a container created during the call; the container handed in is read only.
"""
import z3
from pyvc.vals import *
from pyvc.state import fresh
from pyvc.pvals import *
from pyvc.symex import Res, is_val
from pyvc.contracts import Contract, LoopSpec, register
from .c06_collections import *
from . import c06_collections as cc


def copy_copy_hook(eng, st, pos, kw, fx):
    """copy.copy(x) of a built-in list / dict / set: a new container with the same content"""
    v = eng.to_val(st, pos[0])
    out = []
    for s2, k in eng.models.kind_split(eng, st, v, ["list", "dict", "set"]):
        if k is None:
            raise Unsupported("copy.copy of a non-container")
        s2 = s2.fork()
        a = a_of(v)
        if k == "list":
            out.append(Res("ok", s2, eng.alloc_list_sym(s2, s2.get("llen", a), s2.get("lelem", a))))
        else:
            d = eng.alloc_dict(s2, k)
            for comp in ("dhas", "dval", "dkey", "dsize"):
                s2.put(comp, a_of(d), s2.get(comp, a))
            out.append(Res("ok", s2, d))
    return out


_install_cc = cc.install_hooks


def install_hooks(models):
    _install_cc(models)
    models.builtin_hooks["copy.copy"] = copy_copy_hook


class PrepBase(MutatorBase):
    """frame of every preparation step: the mutator object, and the container it holds *if that container was created by this call*"""
    raises = {"*": "exc_any"}

    def exc_any(self, c):
        return []


def container_kind(kind):
    return {"list": SEQ, "dict": MAPM, "set": SETM}[kind]


def make_prepare_items(kind, base):
    qual_cls = container_kind(kind)

    class PrepareItems(base):
        __doc__ = "%s._prepare_items(): every write lands on the held container (same object afterwards) and on the mutator" % qual_cls.split(":")[1]
        qual = qual_cls + "._prepare_items"
        recv = qual_cls
        raises = {"*": "exc_any"}

        def setup(self, c):
            (self.map_shape if kind == "dict" else self.set_shape if kind == "set" else self.shape)(c)
            st = c.pre
            st.assume(coll(st, c.self) != missing(c))
            a = fld(st, c.self, "attr_spec")
            st.assume(tinst_cls(fld(st, a, "type")) == cid(kind))
            if kind != "list":
                # the call-protocol sentinel is never an element / key
                st.assume(z3.Not(z3.Select(st.get("dhas", a_of(coll(st, c.self))), kn(missing(c)))))

        def pre(self, c):
            return [("collection", coll(c.pre, c.self) != missing(c))]

        def modifies(self, c):
            return [a_of(c.self), a_of(coll(c.pre, c.self))]

        def post(self, c):
            m = c.self
            return [("same-object", coll(c.post, m) == coll(c.pre, m)),
                    ("fields", z3.And(fld(c.post, m, "attr_spec") == fld(c.pre, m, "attr_spec"), fld(c.post, m, "instance") == fld(c.pre, m, "instance")))]

        def exc_any(self, c):
            return []

        def inv(lc, st, i):
            m = lc.entry.self
            return [("same-object", coll(st, m) == coll(lc.entry.pre, m)),
                    ("fields", z3.And(fld(st, m, "attr_spec") == fld(lc.entry.pre, m, "attr_spec"), fld(st, m, "instance") == fld(lc.entry.pre, m, "instance")))]

        def mod(lc, pre):
            m = lc.entry.self
            return [a_of(m), a_of(coll(lc.entry.pre, m))]
        loops = {0: LoopSpec(inv, mod)}
    PrepareItems.__name__ = {"list": "SeqPrepareItems", "dict": "MapPrepareItems", "set": "SetPrepareItems"}[kind]
    return register(PrepareItems)


SeqPrepareItems = make_prepare_items("list", MutatorBase)
SetPrepareItems = make_prepare_items("set", SetBase)


def make_add_items(kind, base):
    qual_cls = container_kind(kind)

    class AddItems(base):
        __doc__ = "%s.add_items(items): the items are read, the held container (same object afterwards) and the mutator are written" % qual_cls.split(":")[1]
        qual = qual_cls + ".add_items"
        recv = qual_cls
        raises = {"TypeError": "exc_any", "*": "exc_any"}

        def setup(self, c):
            (self.map_shape if kind == "dict" else self.set_shape if kind == "set" else self.shape)(c)
            st = c.pre
            st.assume(coll(st, c.self) != missing(c))
            a = fld(st, c.self, "attr_spec")
            st.assume(tinst_cls(fld(st, a, "type")) == cid(kind))
            if kind != "list":
                st.assume(z3.Not(z3.Select(st.get("dhas", a_of(coll(st, c.self))), kn(missing(c)))))
            if kind == "dict":
                # scope: the incoming mapping is a built-in dict (other Mapping types: A-ITER, bounded)
                it = c.items
                st.assume(is_ref(it), st.get("cls_of", a_of(it)) == cid("dict"), a_of(it) >= 1000, a_of(it) < st.alloc, a_of(it) != a_of(c.self))

        def pre(self, c):
            out = [("collection", coll(c.pre, c.self) != missing(c))]
            if kind == "dict":
                it = c.eng.to_val(c.pre, c.items)
                out.append(("items-dict", z3.And(is_ref(it), c.pre.get("cls_of", a_of(it)) == cid("dict"))))
            return out

        def modifies(self, c):
            return [a_of(c.self), a_of(coll(c.pre, c.self))]

        def post(self, c):
            m = c.self
            return [("self", c.eng.to_val(c.post, c.res) == m), ("same-object", coll(c.post, m) == coll(c.pre, m)),
                    ("fields", z3.And(fld(c.post, m, "attr_spec") == fld(c.pre, m, "attr_spec"), fld(c.post, m, "instance") == fld(c.pre, m, "instance")))]

        def exc_any(self, c):
            return []

        def inv(lc, st, i):
            m = lc.entry.self
            return [("same-object", coll(st, m) == coll(lc.entry.pre, m)),
                    ("fields", z3.And(fld(st, m, "attr_spec") == fld(lc.entry.pre, m, "attr_spec"), fld(st, m, "instance") == fld(lc.entry.pre, m, "instance")))]

        def mod(lc, pre):
            m = lc.entry.self
            return [a_of(m), a_of(coll(lc.entry.pre, m))]
        loops = {0: LoopSpec(inv, mod)}
    AddItems.__name__ = {"list": "SeqAddItems", "dict": "MapAddItems", "set": "SetAddItems"}[kind]
    return register(AddItems)


SeqAddItems = make_add_items("list", MutatorBase)
MapAddItems = make_add_items("dict", MapBase)
SetAddItems = make_add_items("set", SetBase)
MapPrepareItems = make_prepare_items("dict", MapBase)


def make_prepare(kind, base):
    qual_cls = container_kind(kind)

    class Prepare(base):
        __doc__ = ("CollectionAttrMutator.prepare() on a %s: the container handed in is never written - whatever is rewritten "
                   "(conversion of a foreign value, item preparer, key promotion) is a container created by this call" % qual_cls.split(":")[1])
        qual = BASE + ".prepare"
        recv = qual_cls
        verify_recv = qual_cls
        raises = {"*": "exc_any"}

        def setup(self, c):
            self.shape_any(c)

        def shape_any(self, c):
            """like MutatorBase.shape, but the held value is arbitrary (it is the caller's argument: maybe None, maybe of another type)"""
            eng, st, m = c.eng, c.pre, c.self
            a = fld(st, m, "attr_spec")
            col = coll(st, m)
            st.assume(is_ref(a), wf_attr(st, a), a_of(a) != a_of(m))
            for f in ("item_type", "item_constructor", "item_spec_key_type", "item_spec_type", "qualified_name", "type", "prepare_item"):
                st.assume(z3.Not(is_absent(fld(st, a, f))))
            mv = sv.REG_MV()
            st.assume(mv.annotation(st, fld(st, a, "item_type")), mv.callable_or_none(st, fld(st, a, "item_constructor")),
                      mv.callable_or_none(st, fld(st, a, "prepare_item")), is_str(fld(st, a, "qualified_name")),
                      tinst_cls(fld(st, a, "type")) == cid(kind))
            st.assume(z3.Not(is_absent(fld(st, m, "instance"))), z3.Not(is_absent(col)))
            A = a_of(col)
            st.assume(z3.Implies(is_ref(col), z3.And(A >= 1000, A < st.alloc, A != a_of(m), A != a_of(a))))
            # A-TYPING: a value that passes check_type against the attribute's annotation is a container of the mutator's family
            st.assume(z3.Implies(conforms(col, fld(st, a, "type")), z3.And(is_ref(col), st.get("cls_of", A) == cid(kind))))
            st.assume(st.get("llen", A) >= 0, st.get("dsize", A) >= 0)
            j, k = z3.Int("j!ps"), z3.Const("k!ps", Val)
            st.assume(z3.ForAll([j], z3.Implies(z3.And(j >= 0, j < st.get("llen", A)), z3.Not(is_absent(z3.Select(st.get("lelem", A), j)))),
                                patterns=[z3.Select(st.get("lelem", A), j)]))
            st.assume(z3.ForAll([k], z3.Implies(z3.Select(st.get("dhas", A), k), z3.Not(is_absent(z3.Select(st.get("dval", A), k)))),
                                patterns=[z3.Select(st.get("dhas", A), k)]))
            st.assume(z3.Not(z3.Select(st.get("dhas", A), kn(missing(c)))))
            if kind == "dict":
                # scope: a mapping value handed in is a built-in dict (other Mapping types: A-ITER, bounded)
                st.assume(z3.Or(is_none(col), col == missing(c), z3.And(is_ref(col), st.get("cls_of", A) == cid("dict"))))

        def modifies(self, c):
            return [a_of(c.self)]          # NOT the container handed in

        def post(self, c):
            m = c.self
            col0, col1 = coll(c.pre, m), coll(c.post, m)
            return [("self", c.eng.to_val(c.post, c.res) == m),
                    ("c01.container", z3.Or(col1 == col0, z3.And(is_ref(col1), a_of(col1) >= c.pre.alloc, a_of(col1) < c.post.alloc))),
                    ("present", z3.Not(is_absent(col1))),
                    ("fields", z3.And(fld(c.post, m, "attr_spec") == fld(c.pre, m, "attr_spec"), fld(c.post, m, "instance") == fld(c.pre, m, "instance")))]

        def exc_any(self, c):
            return []
    Prepare.__name__ = {"list": "SeqPrepare", "dict": "MapPrepare", "set": "SetPrepare"}[kind]
    return register(Prepare)


SeqPrepare = make_prepare("list", MutatorBase)
MapPrepare = make_prepare("dict", MapBase)
SetPrepare = make_prepare("set", SetBase)


# ------------------------------------------------------------------------------------------------
# prepare_attr_value: mutate_value (preparer, constructor, keywords), then - for collection attributes - mutator.prepare()
# ------------------------------------------------------------------------------------------------
class PrepareAttrValueBase(Contract):
    """prepare_attr_value(attr_spec, instance, value, attrs): nothing that existed before the call is written (in particular not
    `value`, the caller's argument); the result is the argument itself, an atom, or an object created by the call / returned by the
    user's preparer"""
    qual = MUT + ":prepare_attr_value"
    raises = {"*": "exc_any"}
    family = None

    def setup(self, c):
        eng, st, a = c.eng, c.pre, c.attr_spec
        kind = FAMILY[self.family][0] if self.family else None
        st.assume(is_ref(a), wf_attr(st, a))
        mv = sv.REG_MV()
        for f in ("constructor", "type", "is_collection", "prepare", "item_type", "item_constructor", "item_spec_key_type", "item_spec_type",
                  "qualified_name", "prepare_item"):
            st.assume(z3.Not(is_absent(fld(st, a, f))))
        st.assume(mv.callable_or_none(st, fld(st, a, "constructor")), mv.annotation(st, fld(st, a, "type")),
                  mv.callable_or_none(st, fld(st, a, "prepare")), is_bool(fld(st, a, "is_collection")),
                  mv.annotation(st, fld(st, a, "item_type")), mv.callable_or_none(st, fld(st, a, "item_constructor")),
                  mv.callable_or_none(st, fld(st, a, "prepare_item")), is_str(fld(st, a, "qualified_name")))
        st.assume(b_of(fld(st, a, "is_collection")) == z3.BoolVal(self.family is not None))
        if kind:
            st.assume(tinst_cls(fld(st, a, "type")) == cid(kind))
        for n, g in sv.names_ok(st, c.attrs, "attrs"):
            st.assume(g)
        st.assume(is_ref(c.instance), z3.Not(is_absent(c.value)))

    def pre(self, c):
        eng, st = c.eng, c.pre
        return sv.names_ok(st, eng.to_val(st, c.attrs), "attrs")

    def modifies(self, c):
        return []

    def post(self, c):
        res = c.eng.to_val(c.post, c.res)
        return [("c01.result", z3.Not(is_absent(res)))]

    def exc_any(self, c):
        return []


for _fam in (None, "sequence", "mapping", "set"):
    _k = type("PrepareAttrValue" + (_fam.capitalize() if _fam else "Scalar"), (PrepareAttrValueBase,),
              {"family": _fam, "__module__": __name__, "__doc__": PrepareAttrValueBase.__doc__ + " [%s attribute]" % (_fam or "scalar"),
               "qual": MUT + ":prepare_attr_value", "variant": _fam or "scalar"})
    globals()[_k.__name__] = _k
    _inst = _k()
    _inst.name = (lambda v: (lambda: "prepare_attr_value[%s]" % v))(_k.variant)
    from pyvc.contracts import REGISTRY as _REG
    _REG[(_k.qual, "#" + _k.variant)] = _inst
