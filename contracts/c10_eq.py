"""C10 - equality of spec instances (EqMethod.eq) and its coherence with copying.

eq(self, other) is proved equal to the attribute-wise relation of the statement:
    other is an instance of type(self)  and  for every compare-enabled attribute a:  veq(value(self, a), value(other, a))
where value(x, a) is what attribute lookup yields (instance slot, else class attribute, else MISSING - so missing equals
only missing) and veq is == on the values, except that two bound methods count as equal when they wrap the same function
("irrespective of attribute kinds such as bound methods").  Reflexivity, symmetry and transitivity of the relation, and
deepcopy(x) == x, are then lemmas over this definition and the contract of __deepcopy__ (A-EQ: == on attribute values is an
equivalence - the canonical-form function kn; A-COPY: a deep copy is == to its original).
"""
import z3
from pyvc.vals import *
from pyvc.state import fresh
from pyvc.pvals import *
from pyvc.symex import Res, is_val, clsattr
from pyvc.contracts import Contract, LoopSpec, register
from pyvc.models import FA, py_eq
from .spec_core import *
from . import spec_core as sc

EQ_Q = CORE + ":EqMethod.eq"


def install_hooks(models):
    sc.install_hooks(models)


def value_of(eng, st, x, name_sid):
    """getattr(x, name, MISSING) by ordinary lookup"""
    iv = z3.If(is_ref(x), z3.Select(st.get("idict", a_of(x)), name_sid), ABSENT)
    v = z3.If(is_absent(iv), cls_level(eng, st, x, name_sid), iv)
    return z3.If(is_absent(v), sentinel(eng, st, "MISSING"), v)


def is_method(st, v):
    return z3.And(is_ref(v), st.get("cls_of", a_of(v)) == cid("method"))


def func_of(eng, st, v):
    return lookup(eng, st, v, "__func__")


def veq(eng, st, x, y):
    return z3.If(z3.And(is_method(st, x), is_method(st, y)), func_of(eng, st, x) == func_of(eng, st, y), py_eq(x, y))


def attrs_eq(eng, st, a, b, upto=None, plan=None):
    """every compare-enabled attribute of a's class has veq values on a and b (all of them, or those enumerated before `upto`)"""
    m = meta_of(eng, st, a)
    A = a_of(fld(st, m, "attrs"))
    has, dv = st.get("dhas", A), st.get("dval", A)
    k = z3.Const("k!ae", Val)
    cond = z3.And(z3.Select(has, k), b_of(fld(st, z3.Select(dv, k), "compare")))
    if upto is not None:
        cond = z3.And(cond, plan.pos(k) < upto)
    return z3.ForAll([k], z3.Implies(cond, veq(eng, st, value_of(eng, st, a, s_of(k)), value_of(eng, st, b, s_of(k)))))


@register
class Eq(SpecArgs):
    """EqMethod.eq(self, other)"""
    qual = EQ_Q

    def setup(self, c):
        eng, st = c.eng, c.pre
        self.typed(c, c.self)
        st.assume(is_spec(eng, st, c.self))
        # a method object carries its function (A-LOOKUP)
        q = z3.Int("a!mf")
        F = STR.sid("__func__")
        st.assume(z3.ForAll([q], z3.Implies(st.get("cls_of", q) == cid("method"), z3.Not(is_absent(z3.Select(st.get("idict", q), F)))),
                            patterns=[z3.Select(st.get("idict", q), F)]))
        # A-CB: comparing two attribute values has no effect and does not raise (A-EQ)

    def modifies(self, c):
        return []

    def post(self, c):
        eng, st = c.eng, c.pre
        a, b = c.self, eng.to_val(st, c.other)
        inst = subcls(eng.type_of(st, b), eng.type_of(st, a))
        return [("c10.eq", b_of(eng.to_val(c.post, c.res)) == z3.And(inst, attrs_eq(eng, st, a, b))),
                ("c10.bool", is_bool(eng.to_val(c.post, c.res)))]

    def inv0(lc, st, i):
        eng, pre = lc.eng, lc.entry.pre
        a, b = lc.args["self"], eng.to_val(pre, lc.args["other"])
        return [("so-far", attrs_eq(eng, pre, a, b, upto=i, plan=lc.plan)),
                ("heap", z3.And(*[st.heap[comp].eq(pre.heap[comp]) and z3.BoolVal(True) or st.heap[comp] == pre.heap[comp] for comp in ("idict", "dhas", "dval")]))]
    loops = {0: LoopSpec(inv0, None)}


def op_eq(eng, st, a, b):
    """`a == b` for two instances whose classes use the generated __eq__: Python tries the reflected method of a proper
    subclass first and neither side answers NotImplemented, so the operands are equal only if each is an instance of the
    other's class (A-DISPATCH) and the attribute-wise relation (contract Eq) holds"""
    ta, tb = eng.type_of(st, a), eng.type_of(st, b)
    return z3.And(ta == tb, attrs_eq(eng, st, a, b))          # (mutual subclasses are the same class)


@register
class EqLaws(Contract):
    """laws of the relation computed by eq (lemmas over the contract Eq and the contract DeepCopy; no code is executed):
    reflexive, symmetric, transitive; deepcopy(x) == x"""
    qual = EQ_Q + "#laws"

    def name(self):
        return "EqMethod.eq#laws"

    def finfo(self, ft):
        return ft.func(EQ_Q)

    def custom_verify(self, eng):
        from pyvc.state import initial_state
        from pyvc.contracts import set_mode, Ctx
        st = initial_state()
        eng.cur_target = self
        set_mode("assume", st)
        xs = []
        for n in ("x", "y", "z"):
            a = fresh("law_" + n, I)
            st.assume(a >= 1000, a < st.alloc)
            v = vref(a)
            assume_spec_shape(eng, st, v)
            st.assume(is_spec(eng, st, v))
            xs.append(v)
        x, y, z = xs
        # A-EQ for method objects: a bound method is == only to bound methods (== on values is the equivalence kn)
        p, q = z3.Const("p!mk", Val), z3.Const("q!mk", Val)
        st.assume(z3.ForAll([p, q], z3.Implies(z3.And(kn(p) == kn(q), is_method(st, p)), is_method(st, q)), patterns=[z3.MultiPattern(kn(p), kn(q))]))
        set_mode("prove", st)
        eng.oblige(st, "EqMethod.eq#laws.c10.reflexive", op_eq(eng, st, x, x), kind="lemma")
        eng.oblige(st, "EqMethod.eq#laws.c10.symmetric", z3.Implies(op_eq(eng, st, x, y), op_eq(eng, st, y, x)), kind="lemma")
        eng.oblige(st, "EqMethod.eq#laws.c10.transitive", z3.Implies(z3.And(op_eq(eng, st, x, y), op_eq(eng, st, y, z)), op_eq(eng, st, x, z)), kind="lemma")
        # deepcopy(x) == x, through the contract of __deepcopy__
        dc = eng.contracts[CORE + ":DeepCopyMethod.deepcopy"]
        from pyvc.pvals import PFunc
        f = PFunc(eng.ft.func(CORE + ":DeepCopyMethod.deepcopy"))
        n = 0
        s1 = st.fork()
        s1.assume(z3.Not(dnc_class(eng, s1, x)))
        # A-COPY: a deep copy is == to its original
        s1.assume(z3.ForAll([p, q], z3.Implies(deq(p, q), kn(p) == kn(q)), patterns=[deq(p, q)]))
        memo = eng.alloc_dict(s1)
        from pyvc.symex import Fctx
        fx0 = Fctx(f.module, {}, None, f.info, None, 0, f.owner)
        for r in dc.apply(eng, s1, f, [x, memo], {}, fx0, None):
            if r.kind != "ok":
                continue
            n += 1
            # A-COPY for bound methods: the copy of a bound method wraps the same function
            r.st.assume(z3.ForAll([p, q], z3.Implies(z3.And(deq(p, q), is_method(r.st, p), is_method(r.st, q)),
                                                     func_of(eng, r.st, p) == func_of(eng, r.st, q)), patterns=[deq(p, q)]))
            set_mode("prove", r.st)
            eng.oblige(r.st, "EqMethod.eq#laws.c10.copy-equal", z3.And(op_eq(eng, r.st, r.val, x), op_eq(eng, r.st, x, r.val)), kind="lemma")
        eng.cur_target = None
        set_mode("assume")
        return 4 + n
