"""Contracts of mutate_value and of the helpers built on it (update_<attr>, transform_<attr>, update, transform).

What is stated about mutate_value is what the properties C01/C02/C04/C07 need from it, for every combination of its ten
parameters: *which objects it may write to*.  Unless inplace is set, every write lands on an object created during
the call (the protective copy, a freshly constructed value); with inplace the value being updated is written.  The
attribute-wise *content* of the merge (which keyword ends up where, after preparation and invalidation) is carried by the
contract of the generated __setattr__ for each single assignment; its composition over the loop is exercised by the
bounded stand-in.
"""
import z3
from pyvc.vals import *
from pyvc.state import fresh
from pyvc.pvals import *
from pyvc.symex import Res, is_val, APP, APP_RAISES, APP_EXC
from pyvc.contracts import Contract, LoopSpec, register
from .spec_core import *
from . import spec_core as sc

MUTV = MUT + ":mutate_value"
F_WRAPPED = "__wrapped__"


def proxy_cid():
    return cid("Proxy")


def is_proxy(st, v):
    return z3.And(is_ref(v), subcls(st.get("cls_of", a_of(v)), proxy_cid()))


def unwrap(st, v):
    return z3.If(is_proxy(st, v), fld(st, v, F_WRAPPED), v)


def shared(eng, st, v):
    """objects that are never copied (so an update through attrs lands on the object itself, by design):
    instances of do_not_copy spec classes, functions, modules"""
    c = st.get("cls_of", a_of(v))
    return z3.And(is_ref(v), z3.Or(c == cid("function"), c == cid("module"), z3.And(is_spec(eng, st, v), dnc_class(eng, st, v))))


# ------------------------------------------------------------------------------------------------
# hooks
# ------------------------------------------------------------------------------------------------
def proxy_new(eng, st, pos, kw, fx):
    """lazy_object_proxy.Proxy(thunk): A-PROXY - the thunk is a pure read, evaluated here (its first use inside
    mutate_value comes before any write)"""
    out = []
    for r in eng.call(st, pos[0], [], {}, fx):
        if r.kind != "ok":
            out.append(r)
            continue
        s2 = r.st.fork()
        a = s2.new_addr()
        s2.put("cls_of", a, z3.IntVal(proxy_cid()))
        s2.put("idict", a, z3.Store(z3.K(I, ABSENT), STR.sid(F_WRAPPED), eng.to_val(s2, r.val)))
        out.append(Res("ok", s2, vref(a)))
    return out


CTOR_KW = z3.Function("ctor_kw", Val, ArrVB, ArrVV, Val)


def call_value_hook(eng, st, f, pos, kw, fx):
    """calls of unknown callables inside these functions: a constructor call (no positional arguments: `constructor()`,
    `constructor(**kwargs)`) returns a new object or an atom (A-CTOR); `transform(value)` returns its argument, a new
    object or an atom (A-TRANSFORM)"""
    roles = st.ghost.get("roles")
    if roles is None:
        return None               # only inside mutate_value (its setup declares the roles)
    role = roles.get(f.sexpr()) if is_val(f) else None
    if not pos:
        eng.stats["assumed"].add("A-CTOR")
        st = st.fork()
        ok = st.fork()
        res = fresh("ctor")
        a = ok.new_addr()
        ok.assume(z3.Not(is_absent(res)), z3.Or(z3.Not(is_ref(res)), a_of(res) == a), z3.Not(is_sentinel(eng, ok, res)))
        ok.note("constructor returns")
        bad = st.fork()
        ec = fresh("ctor_exc", I)
        bad.assume(subcls(ec, CLS.cid("Exception")))
        bad.note("constructor raises")
        return [Res("ok", ok, res), Res("exc", bad, PExc(None, ec, [], "raised by the constructor"))]
    if role == "transform" and len(pos) == 1 and not kw:
        out = eng.models.callback(eng, st, f, pos, kw)
        arg = eng.to_val(st, pos[0])
        for r in out:
            if r.kind == "ok":
                eng.stats["assumed"].add("A-TRANSFORM")
                r.st.assume(z3.Or(z3.Not(is_ref(r.val)), r.val == arg, a_of(r.val) >= r.st.alloc - 1))
        return out
    return None


def install_hooks(models):
    sc.install_hooks(models)
    models.class_call_hooks["Proxy"] = proxy_new
    models.method_hooks[("call_value",)] = call_value_hook


class GetFunctionArgsAssumed(Contract):
    """_get_function_args(function, attrs): ASSUMED (inspect.signature): a set of names; writes nothing but a
    memoisation attribute on the function object (not modelled)"""
    qual = MUT + ":_get_function_args"
    assumed = True
    reason = "inspect.signature reflection; its only effect is memoising the result on the function object"

    def post(self, c):
        return [("set", z3.And(is_ref(c.res), c.post.get("cls_of", a_of(c.res)) == cid("set"), a_of(c.res) < c.post.alloc,
                               a_of(c.res) >= 0))]


register(GetFunctionArgsAssumed)


# ------------------------------------------------------------------------------------------------
# mutate_value
# ------------------------------------------------------------------------------------------------
def names_ok(st, d, tag):
    """d is None or a dict whose keys are attribute names other than the library's own slots"""
    A = a_of(d)
    k = z3.Const("k!no", Val)
    has, dk = st.get("dhas", A), st.get("dkey", A)
    return [(tag, z3.Or(is_none(d), z3.And(is_ref(d), st.get("cls_of", A) == cid("dict"), A >= 1000, A < st.alloc))),
            (tag + "-names", z3.Implies(z3.Not(is_none(d)), z3.ForAll([k], z3.Implies(z3.Select(has, k), z3.And(
                is_str(z3.Select(dk, k)), kn(z3.Select(dk, k)) == k, z3.Select(dk, k) != STR.val("__spec_class__"),
                z3.Select(dk, k) != STR.val("__spec_class_initializing__"),
                z3.Not(is_absent(z3.Select(st.get("dval", A), k))))), patterns=[z3.Select(has, k)])))]


@register
class MutateValue(Contract):
    """mutate_value(old_value, *, new_value, replace, prepare, attrs, constructor, expected_type, transform,
    attr_transforms, inplace)"""
    qual = MUTV
    raises = {"*": "exc_any"}

    def base(self, c):
        """the value the call starts from: new_value when given, else old_value (replace: nothing)"""
        if c.side == "verify" and getattr(self, "_named", None) is not None:
            return self._named
        return self.base_terms(c)

    def base_terms(self, c):
        eng, st = c.eng, c.pre
        nv, ov = eng.to_val(st, c.new_value), eng.to_val(st, c.old_value)
        given = z3.And(nv != sentinel(eng, st, "MISSING"), nv != sentinel(eng, st, "EMPTY"))
        rep = eng.truthy(st, eng.to_val(st, c.replace))
        # the preparer runs on a new value and on the `replace` placeholder, never on the old value
        prepped = z3.And(z3.Not(is_none(eng.to_val(st, c.prepare))), z3.Or(given, rep))
        return prepped, z3.If(given, unwrap(st, nv), z3.If(rep, sentinel(eng, st, "MISSING"), unwrap(st, ov)))

    def setup(self, c):
        eng, st = c.eng, c.pre
        self._named = None
        prepped, b = self.base_terms(c)
        pc, bc = fresh("prepped", B), fresh("base")
        st.assume(pc == prepped, bc == b)             # short names for the two terms every clause mentions
        self._named = (pc, bc)
        # A-SHARED (scope of this proof): the value updated through attrs / attr_transforms is not one of the objects that are
        # never copied by design - an instance of a do_not_copy spec class, a function, a module (those are updated in place)
        b1c = APP[1](c.prepare, bc)
        st.assume(z3.Not(shared(eng, st, bc)), z3.Implies(pc, z3.Not(shared(eng, st, b1c))))
        for x in (bc, b1c):
            st.assume(z3.Implies(is_spec(eng, st, x), z3.Not(leaf(st, x))))          # A-RECV
            # ... and its metadata (a class-level record) is an object of its own
            m = meta_of(eng, st, x)
            st.assume(z3.Implies(is_ref(m), z3.And(a_of(m) != a_of(bc), a_of(m) != a_of(b1c), a_of(m) >= 1000, a_of(m) < st.alloc)))
        # A-CB: the preparer does not hand back one of the keyword dictionaries of this very call
        for d in (c.attrs, c.attr_transforms):
            st.assume(z3.Implies(z3.And(is_ref(d), pc), a_of(d) != a_of(APP[1](c.prepare, bc))))
        st.assume(is_bool(c.inplace), is_bool(c.replace))
        st.assume(z3.Or(is_none(c.prepare), z3.And(is_ref(c.prepare), z3.Or(st.get("cls_of", a_of(c.prepare)) == cid("function"),
                                                                            st.get("cls_of", a_of(c.prepare)) == cid("method")))))
        st.assume(self.callable_or_none(st, c.transform))
        st.ghost = dict(st.ghost)
        st.ghost["roles"] = {c.transform.sexpr(): "transform"}
        # A-PROXY: a lazy proxy holds its (already evaluated) target, which is not a proxy itself
        for v in (c.old_value, c.new_value):
            w = fld(st, v, F_WRAPPED)
            st.assume(z3.Implies(is_proxy(st, v), z3.And(z3.Not(is_absent(w)), z3.Not(is_proxy(st, w)),
                                                         z3.Implies(is_ref(w), z3.And(a_of(w) >= 0, a_of(w) < st.alloc)))))

    def pre(self, c):
        eng, st = c.eng, c.pre
        tv = lambda x: eng.truthy(st, eng.to_val(st, x))
        inplace = b_of(eng.to_val(st, c.inplace))
        attrs, ats = eng.to_val(st, c.attrs), eng.to_val(st, c.attr_transforms)
        return [("flags", z3.And(is_bool(eng.to_val(st, c.inplace)), is_bool(eng.to_val(st, c.replace)))),
                *names_ok(st, attrs, "attrs"), *names_ok(st, ats, "attr_transforms"),
                # an in-place update neither prepares nor constructs (callers: the top-level update / transform)
                ("inplace-plain", z3.Implies(inplace, z3.And(is_none(eng.to_val(st, c.prepare)), z3.Not(tv(c.constructor))))),
                ("old", z3.Not(is_absent(eng.to_val(st, c.old_value)))), ("new", z3.Not(is_absent(eng.to_val(st, c.new_value)))),
                # constructor: None, a class or a function; expected_type: an annotation (not a built-in container object)
                ("constructor", self.callable_or_none(st, eng.to_val(st, c.constructor))),
                ("transform", self.callable_or_none(st, eng.to_val(st, c.transform))),
                ("expected_type", self.annotation(st, eng.to_val(st, c.expected_type))),
                # the keyword dictionaries are objects of their own (built by the generated wrapper), not the value being updated
                ("own-dicts", z3.And(*[z3.Implies(z3.And(inplace, is_ref(d), is_ref(y)), a_of(d) != a_of(y))
                                       for d in (attrs, ats) for x in (eng.to_val(st, c.old_value), eng.to_val(st, c.new_value))
                                       for y in (x, unwrap(st, x))]))]

    def callable_or_none(self, st, v):
        c = st.get("cls_of", a_of(v))
        return z3.Or(is_none(v), is_cls(v), z3.And(is_ref(v), z3.Or(c == cid("function"), c == cid("method"))))

    def annotation(self, st, v):
        c = st.get("cls_of", a_of(v))
        return z3.Or(is_none(v), is_cls(v), z3.And(is_ref(v), *[c != cid(n) for n in ("list", "tuple", "dict", "set")]))

    def modifies(self, c):
        eng, st = c.eng, c.pre
        inplace = b_of(eng.to_val(st, c.inplace))
        prepped, b = self.base(c)
        prep = eng.to_val(st, c.prepare)
        b1 = APP[1](prep, b)
        return [(a_of(b), z3.And(is_ref(b), inplace))]

    def post(self, c):
        eng, st = c.eng, c.pre
        tv = lambda x: eng.truthy(st, eng.to_val(st, x))
        nv = eng.to_val(st, c.new_value)
        prepped, b = self.base(c)
        plain = z3.And(z3.Not(tv(c.attrs)), z3.Not(tv(c.transform)), z3.Not(tv(c.attr_transforms)),
                       z3.Not(prepped), is_none(eng.to_val(st, c.constructor)))
        unchanged = nv == sentinel(eng, st, "UNCHANGED")
        res = eng.to_val(c.post, c.res)
        return [("c05.unchanged", z3.Implies(unchanged, res == unwrap(st, eng.to_val(st, c.old_value)))),
                ("c05.plain", z3.Implies(z3.And(z3.Not(unchanged), plain), res == b)),
                ("result", z3.And(z3.Not(is_absent(res)), z3.Implies(is_ref(res), z3.And(a_of(res) >= 0, a_of(res) < c.post.alloc))))]

    def exc_any(self, c):
        return []

    # ---- cut points: after each phase only this much is remembered about the locals
    def J(self, c, st, level):
        eng, pre = c.eng, c.pre
        tv = lambda x: eng.truthy(pre, eng.to_val(pre, x))
        value = eng.to_val(st, st.env["value"])
        ms = eng.to_val(st, st.env["mutate_safe"])
        ua = eng.to_val(st, st.env["used_attrs"])
        inplace = b_of(eng.to_val(pre, c.inplace))
        prepped, b = self.base(c)
        prep = eng.to_val(pre, c.prepare)
        b1 = APP[1](prep, b)
        new_or_atom = z3.Or(z3.Not(is_ref(value)), a_of(value) >= pre.alloc)
        plain = z3.Not(prepped)
        if level >= 2:
            plain = z3.And(plain, is_none(eng.to_val(pre, c.constructor)))
        if level >= 3:
            plain = z3.And(plain, z3.Not(tv(c.attrs)))
        if level >= 4:
            plain = z3.And(plain, z3.Not(tv(c.transform)))
        return [("value", z3.And(z3.Not(is_absent(value)), z3.Implies(is_ref(value), z3.And(a_of(value) >= 0, a_of(value) < st.alloc)))),
                # the value in hand is the one the call started from, the preparer's result, an atom or an object created by this call
                ("origin", z3.Or(new_or_atom, value == b, z3.And(prepped, value == b1))),
                # ... and it is written without a protective copy only if it is such a new object - or the caller asked for in-place
                # (objects that are never copied - do_not_copy instances, functions, modules - stay themselves; A-LEAF objects refuse writes)
                ("safe", z3.And(is_bool(ms), z3.Implies(b_of(ms), z3.Or(new_or_atom, z3.And(inplace, value == b), leaf(pre, value))))),
                ("used", z3.And(is_ref(ua), st.get("cls_of", a_of(ua)) == cid("set"), a_of(ua) >= pre.alloc, a_of(ua) < st.alloc)),
                ("plain", z3.Implies(plain, value == b)),
                ("inplace-safe", z3.Implies(inplace, b_of(ms))),
                # the objects that may have been written keep their class-level identity: no instance-level __spec_class__ appears
                ("meta-slot", z3.Implies(is_ref(b), fld(st, b, "__spec_class__") == fld(pre, b, "__spec_class__"))),
                ("not-unchanged", eng.to_val(pre, c.new_value) != sentinel(eng, pre, "UNCHANGED"))]

    cuts = (("if constructor and expected_type", "constructed", lambda c, st: c.con.J(c, st, 1)),
            ("if value is not None and value is not MISSING and attrs", "attrs", lambda c, st: c.con.J(c, st, 2)),
            ("if transform:", "transform", lambda c, st: c.con.J(c, st, 3)),
            ("if attr_transforms:", "attr-transforms", lambda c, st: c.con.J(c, st, 4)))

    # loops: 0 `while hasattr(constructor, "__origin__")`, 1 `for attr, attr_value in attrs.items()`,
    #        2 `for attr, attr_transform in attr_transforms.items()`
    def inv_none(lc, st, i):
        return []

    def inv_value(lc, st, i):
        v, v0 = lc.eng.to_val(st, st.env["value"]), lc.eng.to_val(lc.pre, lc.pre.env["value"])
        return [("value", v == v0), ("meta-slot", fld(st, v0, "__spec_class__") == fld(lc.pre, v0, "__spec_class__"))]

    def mod_value(lc, pre):
        return [a_of(lc.eng.to_val(pre, pre.env["value"]))]
    loops = {0: LoopSpec(inv_none, None), 1: LoopSpec(inv_value, mod_value), 2: LoopSpec(inv_value, mod_value)}


# ------------------------------------------------------------------------------------------------
# update_<attr> / transform_<attr>: mutate_value on the current value (behind a lazy proxy), then with_<attr>
# ------------------------------------------------------------------------------------------------
def kwargs_names_ok(st, d, tag):
    """the keyword dictionary of a generated wrapper: attribute names of the nested class, never the library's own slots"""
    A = a_of(d)
    k = z3.Const("k!kn", Val)
    has, dk = st.get("dhas", A), st.get("dkey", A)
    return [(tag, z3.ForAll([k], z3.Implies(z3.Select(has, k), z3.And(
        z3.Select(dk, k) != STR.val("__spec_class__"), z3.Select(dk, k) != STR.val("__spec_class_initializing__"))),
        patterns=[z3.Select(has, k)]))]


class NestedHelper(Helper):
    kwargs_symbolic = True
    kw = "attrs"
    raises = {"FrozenInstanceError": "exc_frozen", "TypeError": "exc_type", "AttributeError": "exc_attr", "*": "exc_any"}

    def setup(self, c):
        self.helper_setup(c)
        st, a = c.pre, c.attr_spec
        # A-META: the record's constructor is None, a class or a function; its type is an annotation object
        mv = REG_MV()
        st.assume(mv.callable_or_none(st, fld(st, a, "constructor")), mv.annotation(st, fld(st, a, "type")))
        st.assume(z3.Not(is_absent(fld(st, a, "constructor"))))
        for n, g in kwargs_names_ok(st, getattr(c, self.kw), "kw"):
            st.assume(g)
        st.assume(is_bool(c._if))

    def pre(self, c):
        st = c.pre
        return self.helper_pre(c) + [("inplace", is_bool(c.eng.to_val(st, c._inplace)))]

    def modifies(self, c):
        return [(a_of(c.self), self.in_place(c))]

    def post(self, c):
        eng, st, o, r = c.eng, c.pre, c.self, c.res
        a = eng.to_val(st, c.attr_spec)
        nm = fld(st, a, "name")
        same = self.in_place(c)
        active = eng.truthy(st, eng.to_val(st, c._if))
        return [
            ("c05.noop-if", z3.Implies(z3.Not(active), z3.And(r == o, unchanged_obj(st, c.post, o)))),
            # the result is the receiver itself (in place, or nothing to do) or a new instance of the same class
            ("c01.identity", z3.Or(r == o, z3.And(z3.Not(same), is_ref(r), a_of(r) >= st.alloc,
                                                  c.post.get("cls_of", a_of(r)) == st.get("cls_of", a_of(o))))),
            ("c01.receiver", z3.Implies(z3.Not(same), unchanged_obj(st, c.post, o))),
            ("c03.typed", z3.Or(z3.And(r == o, unchanged_obj(st, c.post, o)),
                                conforms(z3.Select(D(c.post, r), s_of(nm)), fld(st, a, "type")))),
        ]

    # cut before `return WithAttrMethod.with_attr(...)`: what is about to be stored on the copy is not the very object the receiver
    # holds in that slot (C02), unless that object is one no copy ever duplicates (atoms, leaves, do_not_copy instances)
    def own_value(c, st):
        eng, pre, o = c.eng, c.pre, c.self
        nm = fld(pre, eng.to_val(pre, c.attr_spec), "name")
        # the value handed on is the `_new_value=<name>` argument of the return statement
        import ast
        fn = eng.ft.func(c.con.qual)
        ret = [n for n in fn.node.body if isinstance(n, ast.Return) and ast.unparse(n).startswith("return WithAttrMethod.with_attr(")][0]
        arg = [k.value for k in ret.value.keywords if k.arg == "_new_value"]
        if not arg or not isinstance(arg[0], ast.Name) or arg[0].id not in st.env:
            # computed inside the call expression: nothing stands between the computation and the store
            return [("c02.own-value", z3.BoolVal(False))]
        v = eng.to_val(st, st.env[arg[0].id])
        x0 = z3.Select(D(st, o), s_of(nm))
        never = z3.Or(atomic(st, v), leaf(st, v), z3.And(is_spec(eng, st, v), dnc_class(eng, st, v)))
        return [("c02.own-value", z3.Or(c.con.in_place(c), v != x0, never)),
                ("receiver", unchanged_obj(pre, st, o)),
                ("value", z3.Not(is_absent(v))),
                ("active", eng.truthy(pre, eng.to_val(pre, c._if)))]

    cuts = (("return WithAttrMethod.with_attr(", "store", own_value),)

    def exc_frozen(self, c):
        eng, st, o = c.eng, c.pre, c.self
        return [("c07.why", frozen(eng, st, o)), ("c04.unchanged", unchanged_obj(st, c.post, o))]

    def exc_type(self, c):
        return [("c04.unchanged", unchanged_obj(c.pre, c.post, c.self))]

    def exc_attr(self, c):
        return [("c04.unchanged", unchanged_obj(c.pre, c.post, c.self))]

    def exc_any(self, c):
        eng, st, o = c.eng, c.pre, c.self
        has_deps = eng.truthy(st, invmap(eng, st, o))
        # only the invalidation of dependants after an in-place write can leave the receiver changed
        return [("c04.unchanged", z3.Implies(z3.Or(z3.Not(self.in_place(c)), z3.Not(has_deps)), unchanged_obj(st, c.post, o)))]


def REG_MV():
    from pyvc.contracts import REGISTRY
    return REGISTRY[MUTV]


@register
class UpdateAttr(NestedHelper):
    """update_<attr>(_new_value, **attrs): the keywords are merged into a *copy* of the current (or the given) nested value,
    which then replaces the attribute through with_<attr>"""
    qual = SCALAR + ":UpdateAttrMethod.update_attr"
    kw = "attrs"


@register
class TransformAttr(NestedHelper):
    """transform_<attr>(_transform, **attr_transforms)"""
    qual = SCALAR + ":TransformAttrMethod.transform_attr"
    kw = "attr_transforms"

    def setup(self, c):
        NestedHelper.setup(self, c)
        c.pre.assume(REG_MV().callable_or_none(c.pre, c._transform))

    def pre(self, c):
        return NestedHelper.pre(self, c) + [("transform", REG_MV().callable_or_none(c.pre, c.eng.to_val(c.pre, c._transform)))]


# ------------------------------------------------------------------------------------------------
# top-level update / transform: mutate_value on the instance itself
# ------------------------------------------------------------------------------------------------
class TopHelper(SpecArgs):
    kwargs_symbolic = True
    kw = "attrs"
    raises = {"*": "exc_any"}

    def setup(self, c):
        st = c.pre
        self.typed(c, c.self)
        st.assume(is_spec(c.eng, st, c.self), is_bool(c._inplace), is_bool(c._if))
        # scope (A-SHARED): classes declared do_not_copy are updated in place by design - not covered by this contract
        st.assume(z3.Not(dnc_class(c.eng, st, c.self)))
        st.assume(z3.Not(is_proxy(st, c.self)))          # a spec instance is not a lazy proxy
        for n, g in kwargs_names_ok(st, getattr(c, self.kw), "kw"):
            st.assume(g)

    def pre(self, c):
        st = c.pre
        return [("spec", is_spec(c.eng, st, c.self)), ("inplace", is_bool(c.eng.to_val(st, c._inplace)))]

    def target(self, c):
        return c.self

    def modifies(self, c):
        t = self.target(c)
        return [(a_of(t), z3.And(is_ref(t), b_of(c.eng.to_val(c.pre, c._inplace))))]

    def post(self, c):
        eng, st, o, r = c.eng, c.pre, c.self, eng_val(c)
        active = eng.truthy(st, eng.to_val(st, c._if))
        inplace = b_of(eng.to_val(st, c._inplace))
        t = self.target(c)
        return [("c05.noop-if", z3.Implies(z3.Not(active), z3.And(r == o, unchanged_obj(st, c.post, o)))),
                ("c01.receiver", z3.Implies(z3.Or(z3.Not(inplace), t != o), unchanged_obj(st, c.post, o)))] + self.more_post(c, r)

    def more_post(self, c, r):
        return []

    def exc_any(self, c):
        eng, st, o = c.eng, c.pre, c.self
        inplace = b_of(eng.to_val(st, c._inplace))
        return [("c04.unchanged", z3.Implies(z3.Or(z3.Not(inplace), self.target(c) != o), unchanged_obj(st, c.post, o)))]


def eng_val(c):
    return c.eng.to_val(c.post, c.res)


@register
class Update(TopHelper):
    """update(_new_value, **attrs): mutate_value(old_value=self, new_value=_new_value, attrs=attrs, inplace=_inplace)"""
    qual = TOP + ":UpdateMethod.update"

    def target(self, c):
        eng, st = c.eng, c.pre
        nv = eng.to_val(st, c._new_value)
        given = z3.And(nv != sentinel(eng, st, "MISSING"), nv != sentinel(eng, st, "EMPTY"))
        return z3.If(given, unwrap(st, nv), c.self)

    def setup(self, c):
        TopHelper.setup(self, c)
        st, nv = c.pre, c._new_value
        w = fld(st, nv, F_WRAPPED)
        st.assume(z3.Implies(is_proxy(st, nv), z3.And(z3.Not(is_absent(w)), z3.Not(is_proxy(st, w)))))

    def more_post(self, c, r):
        eng, st = c.eng, c.pre
        nv = eng.to_val(st, c._new_value)
        return [("c05.plain", z3.Implies(z3.And(eng.truthy(st, eng.to_val(st, c._if)), z3.Not(eng.truthy(st, eng.to_val(st, c.attrs))),
                                                nv != sentinel(eng, st, "UNCHANGED")), r == self.target(c)))]


@register
class Transform(TopHelper):
    """transform(_transform, **attr_transforms): mutate_value(old_value=self, transform=_transform, attr_transforms=..., inplace=_inplace)"""
    qual = TOP + ":TransformMethod.transform"
    kw = "attr_transforms"

    def setup(self, c):
        TopHelper.setup(self, c)
        c.pre.assume(REG_MV().callable_or_none(c.pre, c._transform))

    def pre(self, c):
        return TopHelper.pre(self, c) + [("transform", REG_MV().callable_or_none(c.pre, c.eng.to_val(c.pre, c._transform)))]
