"""C12 - spec_property and classproperty follow the override / cache / getter protocol.

One contract per descriptor operation, postconditions written from the property statement; the option
flags (overridable, cache, setter/deleter present, allow_attribute_error, cache_per_subclass) are
symbolic, so all combinations are covered by one proof each.
"""
import z3
from pyvc.vals import *
from pyvc.state import fresh
from pyvc.pvals import *
from pyvc.symex import Res, is_val, APP, APP_RAISES, APP_EXC
from pyvc.contracts import Contract, LoopSpec, register
from .keyed_specs import conforms
from .spec_heap import *

SP = "spec_classes.types.spec_property"
SPC = SP + ":spec_property"
CPC = SP + ":classproperty"


class CheckTypeAssumed(Contract):
    qual = "spec_classes.utils.type_checking:check_type"
    assumed = True
    reason = "proved under C15 against the structural definition of conformance"

    def result(self, c):
        return vbool(conforms(c.eng.to_val(c.pre, c.value), c.eng.to_val(c.pre, c.attr_type)))


class PrepareAssumed(Contract):
    """prepare_attr_value(attr_spec, instance, value): ASSUMED here (its body is under contract in C05):
    a pure function of its arguments (A-CB) that may raise"""
    qual = "spec_classes.utils.mutation:prepare_attr_value"
    assumed = True
    reason = "under contract in C03/C05; for C12 only: returns the prepared value (pure, A-CB), may raise, changes nothing"
    raises = {"*": "exc_any"}

    def result(self, c):
        return prepared(c.attr_spec, c.instance, c.eng.to_val(c.pre, c.value))

    def post(self, c):
        return [("ok", z3.Not(prepared_raises(c.attr_spec, c.instance, c.eng.to_val(c.pre, c.value)))),
                ("value", z3.Not(is_absent(c.res)))]

    def exc_any(self, c):
        return [("raises", prepared_raises(c.attr_spec, c.instance, c.eng.to_val(c.pre, c.value)))]


register(CheckTypeAssumed)
register(PrepareAssumed)


def depth_hook(eng, st, pos, kw, fx):
    return [Res("ok", st, vint(fresh("depth", I)))]


def install_hooks(models):
    models.builtin_hooks["spec_classes.utils.stackdepth.get_spec_classes_depth"] = depth_hook


def opts(st, self):
    return (b_of(fld(st, self, "overridable")), b_of(fld(st, self, "cache")))


def slot(st, inst, name):
    return z3.Select(st.get("idict", a_of(inst)), s_of(name))


def only_slot_changes(pre, post, inst, name):
    """nothing but the property's own slot of the instance is written"""
    s = z3.Int("s!osc")
    d0, d1 = pre.get("idict", a_of(inst)), post.get("idict", a_of(inst))
    return z3.ForAll([s], z3.Implies(s != s_of(name), z3.Select(d1, s) == z3.Select(d0, s)))


def unchanged_inst(pre, post, inst):
    return post.get("idict", a_of(inst)) == pre.get("idict", a_of(inst))


def ncalls(c, f):
    return len([1 for g, args in c.post.ghost.get("calls", ()) if g.eq(f)]) - \
        len([1 for g, args in c.pre.ghost.get("calls", ()) if g.eq(f)])


class SPBase(Contract):
    recv = SPC

    def setup(self, c):
        st = c.pre
        s = c.self
        for n in ("overridable", "cache", "allow_attribute_error"):
            st.assume(is_bool(fld(st, s, n)))
        for n in ("fget", "fset", "fdel", "warn_on_override", "owner", "attrs"):
            st.assume(z3.Not(is_absent(fld(st, s, n))))
        for n in ("fget", "fset", "fdel"):
            f = fld(st, s, n)
            st.assume(z3.Or(is_none(f), z3.And(is_ref(f), st.get("cls_of", a_of(f)) == CLS.cid("function"))))
        st.assume(is_str(fld(st, s, "attr_name")))
        inst = c.instance
        st.assume(z3.Or(is_none(inst), z3.And(is_ref(inst), a_of(inst) >= 1000, a_of(inst) != a_of(s))))
        st.assume(z3.Implies(is_ref(inst), st.get("cls_of", a_of(inst)) >= 200))     # not one of the built-in classes
        assume_meta_shape(c.eng, st, inst)

    def modifies(self, c):
        return [a_of(c.instance)]


@register
class SPGet(SPBase):
    """read: the override / cached value if there is one (getter not called, nothing written); otherwise
    the getter's result on current state - on a spec class passed through the attribute's preparer and
    type check - cached when caching is on"""
    qual = SPC + ".__get__"
    raises = {"AttributeError": "exc_attr", "NestedAttributeError": "exc_nested", "ValueError": "exc_type", "*": "exc_cb"}

    def parts(self, c):
        st, s, inst = c.pre, c.self, c.instance
        name = fld(st, s, "attr_name")
        o, ca = opts(st, s)
        sl = slot(st, inst, name)
        fget = fld(st, s, "fget")
        r0 = APP[1](fget, inst)
        man, aspec = managed(c.eng, st, inst, name)
        r = z3.If(man, prepared(aspec, inst, r0), r0)
        stored = z3.And(z3.Or(o, ca), z3.Not(is_absent(sl)))
        return name, o, ca, sl, fget, r0, man, aspec, r, stored

    def post(self, c):
        st, s, inst = c.pre, c.self, c.instance
        name, o, ca, sl, fget, r0, man, aspec, r, stored = self.parts(c)
        n = ncalls(c, fget)
        called = z3.BoolVal(n == 1)
        notcalled = z3.BoolVal(n == 0)
        cached = z3.And(ca, z3.Not(is_sentinel(c.eng, st, r)))
        sl1 = slot(c.post, inst, name)
        return [
            ("class-access", z3.Implies(is_none(inst), c.res == s)),
            ("stored", z3.Implies(z3.And(z3.Not(is_none(inst)), stored),
                                  z3.And(c.res == sl, unchanged_inst(st, c.post, inst), notcalled))),
            ("computed", z3.Implies(z3.And(z3.Not(is_none(inst)), z3.Not(stored)), z3.And(
                z3.Not(is_none(fget)), called, z3.Not(APP_RAISES[1](fget, inst)), c.res == r,
                z3.Implies(man, conforms(r, fld(st, aspec, "type"))),
                only_slot_changes(st, c.post, inst, name),
                sl1 == z3.If(cached, r, sl)))),
        ]

    def exc_attr(self, c):
        st, s, inst = c.pre, c.self, c.instance
        name, o, ca, sl, fget, r0, man, aspec, r, stored = self.parts(c)
        return [("unchanged", unchanged_inst(st, c.post, inst)),
                ("why", z3.And(z3.Not(stored), z3.Or(is_none(fget), z3.And(
                    APP_RAISES[1](fget, inst), b_of(fld(st, s, "allow_attribute_error"))))))]

    def exc_nested(self, c):
        st, s, inst = c.pre, c.self, c.instance
        name, o, ca, sl, fget, r0, man, aspec, r, stored = self.parts(c)
        return [("unchanged", unchanged_inst(st, c.post, inst)),
                ("why", z3.And(z3.Not(stored), APP_RAISES[1](fget, inst),
                               subcls(APP_EXC[1](fget, inst), CLS.cid("AttributeError")),
                               z3.Not(b_of(fld(st, s, "allow_attribute_error")))))]

    def exc_type(self, c):
        st, s, inst = c.pre, c.self, c.instance
        name, o, ca, sl, fget, r0, man, aspec, r, stored = self.parts(c)
        return [("unchanged", unchanged_inst(st, c.post, inst)),
                ("why", z3.And(z3.Not(stored), man, z3.Not(conforms(r, fld(st, aspec, "type")))))]

    def exc_cb(self, c):
        st, s, inst = c.pre, c.self, c.instance
        name, o, ca, sl, fget, r0, man, aspec, r, stored = self.parts(c)
        return [("unchanged", unchanged_inst(st, c.post, inst)),
                ("why", z3.And(z3.Not(stored), z3.Or(APP_RAISES[1](fget, inst),
                                                     z3.And(man, prepared_raises(aspec, inst, r0)))))]


@register
class SPSet(SPBase):
    """assignment: with a setter, the setter is called once and the library writes nothing; without one,
    the value becomes the override when overridable, else AttributeError and nothing changes"""
    qual = SPC + ".__set__"
    raises = {"AttributeError": "exc_attr", "*": "exc_cb"}

    def post(self, c):
        st, s, inst = c.pre, c.self, c.instance
        name = fld(st, s, "attr_name")
        o, ca = opts(st, s)
        fset = fld(st, s, "fset")
        n = ncalls(c, fset)
        v = c.eng.to_val(c.post, c.value)
        return [("override", z3.Implies(is_none(fset), z3.And(o, slot(c.post, inst, name) == v,
                                                              only_slot_changes(st, c.post, inst, name),
                                                              z3.BoolVal(n == 0)))),
                ("setter", z3.Implies(z3.Not(is_none(fset)), z3.And(unchanged_inst(st, c.post, inst),
                                                                    z3.BoolVal(n == 1))))]

    def exc_attr(self, c):
        st, s, inst = c.pre, c.self, c.instance
        o, ca = opts(st, s)
        fset = fld(st, s, "fset")
        return [("unchanged", unchanged_inst(st, c.post, inst)),
                ("why", z3.Or(z3.And(is_none(fset), z3.Not(o)),
                              z3.And(z3.Not(is_none(fset)), APP_RAISES[2](fset, inst, c.eng.to_val(c.post, c.value)))))]

    def exc_cb(self, c):
        st, s, inst = c.pre, c.self, c.instance
        fset = fld(st, s, "fset")
        return [("unchanged", unchanged_inst(st, c.post, inst)),
                ("why", z3.And(z3.Not(is_none(fset)), APP_RAISES[2](fset, inst, c.eng.to_val(c.post, c.value))))]


@register
class SPDelete(SPBase):
    """deletion: removes the override / cache; AttributeError (nothing changed) when there is none"""
    qual = SPC + ".__delete__"
    raises = {"AttributeError": "exc_attr", "*": "exc_cb"}

    def post(self, c):
        st, s, inst = c.pre, c.self, c.instance
        name = fld(st, s, "attr_name")
        o, ca = opts(st, s)
        fdel = fld(st, s, "fdel")
        n = ncalls(c, fdel)
        return [("remove", z3.Implies(is_none(fdel), z3.And(z3.Or(o, ca), z3.Not(is_absent(slot(st, inst, name))),
                                                            is_absent(slot(c.post, inst, name)),
                                                            only_slot_changes(st, c.post, inst, name)))),
                ("deleter", z3.Implies(z3.Not(is_none(fdel)), z3.And(unchanged_inst(st, c.post, inst), z3.BoolVal(n == 1))))]

    def exc_attr(self, c):
        st, s, inst = c.pre, c.self, c.instance
        name = fld(st, s, "attr_name")
        o, ca = opts(st, s)
        fdel = fld(st, s, "fdel")
        return [("unchanged", unchanged_inst(st, c.post, inst)),
                ("why", z3.Or(z3.And(is_none(fdel), z3.Not(z3.And(z3.Or(o, ca), z3.Not(is_absent(slot(st, inst, name)))))),
                              z3.And(z3.Not(is_none(fdel)), APP_RAISES[1](fdel, inst))))]

    def exc_cb(self, c):
        st, s, inst = c.pre, c.self, c.instance
        fdel = fld(st, s, "fdel")
        return [("unchanged", unchanged_inst(st, c.post, inst)),
                ("why", z3.And(z3.Not(is_none(fdel)), APP_RAISES[1](fdel, inst)))]
