"""C12 - spec_property and classproperty follow the override / cache / getter protocol.

One contract per descriptor operation, postconditions written from the property statement; the option
flags (overridable, cache, setter/deleter present, allow_attribute_error, cache_per_subclass) are
symbolic, so all combinations are covered by one proof each.
"""
import z3
from pyvc.vals import *
from pyvc.state import fresh
from pyvc.pvals import *
from pyvc.symex import Res, is_val, APP, APP_RAISES, APP_EXC
from pyvc.contracts import Contract, LoopSpec, register
from .keyed_specs import conforms
from .spec_heap import *

SP = "spec_classes.types.spec_property"
SPC = SP + ":spec_property"
CPC = SP + ":classproperty"


class CheckTypeAssumed(Contract):
    qual = "spec_classes.utils.type_checking:check_type"
    assumed = True
    reason = "proved under C15 against the structural definition of conformance"

    def result(self, c):
        return vbool(conforms(c.eng.to_val(c.pre, c.value), c.eng.to_val(c.pre, c.attr_type)))


class PrepareAssumed(Contract):
    """prepare_attr_value(attr_spec, instance, value): ASSUMED here (its body is under contract in C05):
    a pure function of its arguments (A-CB) that may raise"""
    qual = "spec_classes.utils.mutation:prepare_attr_value"
    assumed = True
    reason = "under contract in C03/C05; for C12 only: returns the prepared value (pure, A-CB), may raise, changes nothing"
    raises = {"*": "exc_any"}

    def result(self, c):
        return prepared(c.attr_spec, c.instance, c.eng.to_val(c.pre, c.value))

    def post(self, c):
        return [("ok", z3.Not(prepared_raises(c.attr_spec, c.instance, c.eng.to_val(c.pre, c.value)))),
                ("value", z3.Not(is_absent(c.res)))]

    def exc_any(self, c):
        return [("raises", prepared_raises(c.attr_spec, c.instance, c.eng.to_val(c.pre, c.value)))]


class StackDepthAssumed(Contract):
    qual = "spec_classes.utils.stackdepth:get_spec_classes_depth"
    assumed = True
    reason = "inspects interpreter frames (sys._getframe) to choose a warning stacklevel; returns an int, no effect"

    def post(self, c):
        return [("int", is_int(c.res))]


register(CheckTypeAssumed)
register(PrepareAssumed)
register(StackDepthAssumed)


def depth_hook(eng, st, pos, kw, fx):
    return [Res("ok", st, vint(fresh("depth", I)))]


def install_hooks(models):
    models.builtin_hooks["spec_classes.utils.stackdepth.get_spec_classes_depth"] = depth_hook


def opts(st, self):
    return (b_of(fld(st, self, "overridable")), b_of(fld(st, self, "cache")))


def slot(st, inst, name):
    return z3.Select(st.get("idict", a_of(inst)), s_of(name))


def only_slot_changes(pre, post, inst, name):
    """nothing but the property's own slot of the instance is written"""
    s = z3.Int("s!osc")
    d0, d1 = pre.get("idict", a_of(inst)), post.get("idict", a_of(inst))
    return z3.ForAll([s], z3.Implies(s != s_of(name), z3.Select(d1, s) == z3.Select(d0, s)))


def unchanged_inst(pre, post, inst):
    return post.get("idict", a_of(inst)) == pre.get("idict", a_of(inst))


def ncalls(c, f):
    return len([1 for g, args in c.post.ghost.get("calls", ()) if g.eq(f)]) - \
        len([1 for g, args in c.pre.ghost.get("calls", ()) if g.eq(f)])


class SPBase(Contract):
    recv = SPC

    def setup(self, c):
        st = c.pre
        s = c.self
        for n in ("overridable", "cache", "allow_attribute_error"):
            st.assume(is_bool(fld(st, s, n)))
        for n in ("fget", "fset", "fdel", "warn_on_override", "owner", "attrs"):
            st.assume(z3.Not(is_absent(fld(st, s, n))))
        for n in ("fget", "fset", "fdel"):
            f = fld(st, s, n)
            st.assume(z3.Or(is_none(f), z3.And(is_ref(f), st.get("cls_of", a_of(f)) == CLS.cid("function"))))
        st.assume(is_str(fld(st, s, "attr_name")))
        inst = c.instance
        st.assume(z3.Or(is_none(inst), z3.And(is_ref(inst), a_of(inst) >= 1000, a_of(inst) != a_of(s))))
        st.assume(z3.Implies(is_ref(inst), st.get("cls_of", a_of(inst)) >= 200))     # not one of the built-in classes
        assume_meta_shape(c.eng, st, inst)

    def modifies(self, c):
        return [a_of(c.instance)]


@register
class SPGet(SPBase):
    """read: the override / cached value if there is one (getter not called, nothing written); otherwise
    the getter's result on current state - on a spec class passed through the attribute's preparer and
    type check - cached when caching is on"""
    qual = SPC + ".__get__"
    raises = {"AttributeError": "exc_attr", "NestedAttributeError": "exc_nested", "ValueError": "exc_type", "*": "exc_cb"}

    def parts(self, c):
        st, s, inst = c.pre, c.self, c.instance
        name = fld(st, s, "attr_name")
        o, ca = opts(st, s)
        sl = slot(st, inst, name)
        fget = fld(st, s, "fget")
        r0 = APP[1](fget, inst)
        man, aspec = managed(c.eng, st, inst, name)
        r = z3.If(man, prepared(aspec, inst, r0), r0)
        stored = z3.And(z3.Or(o, ca), z3.Not(is_absent(sl)))
        return name, o, ca, sl, fget, r0, man, aspec, r, stored

    def post(self, c):
        st, s, inst = c.pre, c.self, c.instance
        name, o, ca, sl, fget, r0, man, aspec, r, stored = self.parts(c)
        n = ncalls(c, fget)
        called = z3.BoolVal(n == 1)
        notcalled = z3.BoolVal(n == 0)
        cached = z3.And(ca, z3.Not(is_sentinel(c.eng, st, r)))
        sl1 = slot(c.post, inst, name)
        return [
            ("class-access", z3.Implies(is_none(inst), c.res == s)),
            ("stored", z3.Implies(z3.And(z3.Not(is_none(inst)), stored),
                                  z3.And(c.res == sl, unchanged_inst(st, c.post, inst), notcalled))),
            ("computed", z3.Implies(z3.And(z3.Not(is_none(inst)), z3.Not(stored)), z3.And(
                z3.Not(is_none(fget)), called, z3.Not(APP_RAISES[1](fget, inst)), c.res == r,
                z3.Implies(man, conforms(r, fld(st, aspec, "type"))),
                only_slot_changes(st, c.post, inst, name),
                sl1 == z3.If(cached, r, sl)))),
        ]

    def exc_attr(self, c):
        st, s, inst = c.pre, c.self, c.instance
        name, o, ca, sl, fget, r0, man, aspec, r, stored = self.parts(c)
        return [("unchanged", unchanged_inst(st, c.post, inst)),
                ("why", z3.And(z3.Not(stored), z3.Or(is_none(fget), z3.And(
                    APP_RAISES[1](fget, inst), b_of(fld(st, s, "allow_attribute_error"))))))]

    def exc_nested(self, c):
        st, s, inst = c.pre, c.self, c.instance
        name, o, ca, sl, fget, r0, man, aspec, r, stored = self.parts(c)
        return [("unchanged", unchanged_inst(st, c.post, inst)),
                ("why", z3.And(z3.Not(stored), APP_RAISES[1](fget, inst),
                               subcls(APP_EXC[1](fget, inst), CLS.cid("AttributeError")),
                               z3.Not(b_of(fld(st, s, "allow_attribute_error")))))]

    def exc_type(self, c):
        st, s, inst = c.pre, c.self, c.instance
        name, o, ca, sl, fget, r0, man, aspec, r, stored = self.parts(c)
        return [("unchanged", unchanged_inst(st, c.post, inst)),
                ("why", z3.And(z3.Not(stored), man, z3.Not(conforms(r, fld(st, aspec, "type")))))]

    def exc_cb(self, c):
        st, s, inst = c.pre, c.self, c.instance
        name, o, ca, sl, fget, r0, man, aspec, r, stored = self.parts(c)
        return [("unchanged", unchanged_inst(st, c.post, inst)),
                ("why", z3.And(z3.Not(stored), z3.Or(APP_RAISES[1](fget, inst),
                                                     z3.And(man, prepared_raises(aspec, inst, r0)))))]


@register
class SPSet(SPBase):
    """assignment: with a setter, the setter is called once and the library writes nothing; without one,
    the value becomes the override when overridable, else AttributeError and nothing changes"""
    qual = SPC + ".__set__"
    raises = {"AttributeError": "exc_attr", "*": "exc_cb"}

    def post(self, c):
        st, s, inst = c.pre, c.self, c.instance
        name = fld(st, s, "attr_name")
        o, ca = opts(st, s)
        fset = fld(st, s, "fset")
        n = ncalls(c, fset)
        v = c.eng.to_val(c.post, c.value)
        return [("override", z3.Implies(is_none(fset), z3.And(o, slot(c.post, inst, name) == v,
                                                              only_slot_changes(st, c.post, inst, name),
                                                              z3.BoolVal(n == 0)))),
                ("setter", z3.Implies(z3.Not(is_none(fset)), z3.And(unchanged_inst(st, c.post, inst),
                                                                    z3.BoolVal(n == 1))))]

    def exc_attr(self, c):
        st, s, inst = c.pre, c.self, c.instance
        o, ca = opts(st, s)
        fset = fld(st, s, "fset")
        return [("unchanged", unchanged_inst(st, c.post, inst)),
                ("why", z3.Or(z3.And(is_none(fset), z3.Not(o)),
                              z3.And(z3.Not(is_none(fset)), APP_RAISES[2](fset, inst, c.eng.to_val(c.post, c.value)))))]

    def exc_cb(self, c):
        st, s, inst = c.pre, c.self, c.instance
        fset = fld(st, s, "fset")
        return [("unchanged", unchanged_inst(st, c.post, inst)),
                ("why", z3.And(z3.Not(is_none(fset)), APP_RAISES[2](fset, inst, c.eng.to_val(c.post, c.value))))]


@register
class SPDelete(SPBase):
    """deletion: removes the override / cache; AttributeError (nothing changed) when there is none"""
    qual = SPC + ".__delete__"
    raises = {"AttributeError": "exc_attr", "*": "exc_cb"}

    def post(self, c):
        st, s, inst = c.pre, c.self, c.instance
        name = fld(st, s, "attr_name")
        o, ca = opts(st, s)
        fdel = fld(st, s, "fdel")
        n = ncalls(c, fdel)
        return [("remove", z3.Implies(is_none(fdel), z3.And(z3.Or(o, ca), z3.Not(is_absent(slot(st, inst, name))),
                                                            is_absent(slot(c.post, inst, name)),
                                                            only_slot_changes(st, c.post, inst, name)))),
                ("deleter", z3.Implies(z3.Not(is_none(fdel)), z3.And(unchanged_inst(st, c.post, inst), z3.BoolVal(n == 1))))]

    def exc_attr(self, c):
        st, s, inst = c.pre, c.self, c.instance
        name = fld(st, s, "attr_name")
        o, ca = opts(st, s)
        fdel = fld(st, s, "fdel")
        return [("unchanged", unchanged_inst(st, c.post, inst)),
                ("why", z3.Or(z3.And(is_none(fdel), z3.Not(z3.And(z3.Or(o, ca), z3.Not(is_absent(slot(st, inst, name)))))),
                              z3.And(z3.Not(is_none(fdel)), APP_RAISES[1](fdel, inst))))]

    def exc_cb(self, c):
        st, s, inst = c.pre, c.self, c.instance
        fdel = fld(st, s, "fdel")
        return [("unchanged", unchanged_inst(st, c.post, inst)),
                ("why", z3.And(z3.Not(is_none(fdel)), APP_RAISES[1](fdel, inst)))]


# ------------------------------------------------------------------------------------------------
# classproperty: the same protocol, one slot per class (or per subclass when cache_per_subclass)
# ------------------------------------------------------------------------------------------------
def cm_call_hook(eng, st, pos, kw, fx):
    """calling a bound classmethod object: the wrapped function applied to (class, *args)   (A-CB)"""
    f = pos[0]
    return eng.models.callback(eng, st, f, list(pos[1:]), kw)


def descr_get_attr(eng, st, v, fx):
    from pyvc.models import PMeth
    return [Res("ok", st, PMeth(v, "__get__"))]


def descr_get_call(eng, st, recv, pos, kw, fx):
    """classmethod.__get__(obj, objtype): bind to objtype, or to type(obj) when objtype is None"""
    if not is_val(recv):
        return None
    obj, typ = (list(pos) + [NONE])[:2]
    obj, typ = eng.to_val(st, obj), eng.to_val(st, typ)
    cls = z3.If(is_none(typ), vcls(eng.type_of(st, obj)), typ)
    return [Res("ok", st, PPartial(PBuiltin("c12.classmethod_call"), [recv, cls], {}))]


_install_sp = install_hooks


def install_hooks(models):
    _install_sp(models)
    models.builtin_hooks["c12.classmethod_call"] = cm_call_hook
    models.attr_hooks["__get__"] = descr_get_attr
    models.method_hooks["__get__"] = descr_get_call


def cache_of(st, s):
    return a_of(fld(st, s, "_cache"))


def cps(c, st, s):
    """cache_per_subclass option = attrs.get('cache_per_subclass', False)"""
    A = a_of(fld(st, s, "attrs"))
    k = kn(STR.val("cache_per_subclass"))
    v = z3.If(z3.Select(st.get("dhas", A), k), z3.Select(st.get("dval", A), k), vbool(z3.BoolVal(False)))
    return c.eng.truthy(st, v)


def ckey(c, st, s, cls):
    return kn(z3.If(cps(c, st, s), cls, NONE))


class CPBase(Contract):
    recv = CPC

    def setup(self, c):
        st = c.pre
        s = c.self
        for n in ("overridable", "cache", "allow_attribute_error"):
            st.assume(is_bool(fld(st, s, n)))
        for n in ("_fget", "_fset", "_fdel"):
            f = fld(st, s, n)
            st.assume(z3.Or(is_none(f), z3.And(is_ref(f), st.get("cls_of", a_of(f)) == CLS.cid("classmethod"),
                                               a_of(f) >= 1000, a_of(f) < st.alloc)))
        for n in ("attrs", "_cache"):
            d = fld(st, s, n)
            st.assume(is_ref(d), st.get("cls_of", a_of(d)) == CLS.cid("dict"), a_of(d) >= 1000, a_of(d) < st.alloc)
        st.assume(cache_of(st, s) != a_of(fld(st, s, "attrs")), cache_of(st, s) != a_of(s),
                  z3.Not(is_absent(fld(st, s, "warn_on_override"))))
        self.typing(c)

    def typing(self, c):
        pass

    def modifies(self, c):
        return [cache_of(c.pre, c.self)]

    def cache_arrays(self, st, s):
        C = cache_of(st, s)
        return st.get("dhas", C), st.get("dval", C)

    def only_key(self, c, k):
        has0, dv0 = self.cache_arrays(c.pre, c.self)
        has1, dv1 = self.cache_arrays(c.post, c.self)
        q = z3.Const("q!ok", Val)
        return z3.ForAll([q], z3.Implies(q != k, z3.And(z3.Select(has1, q) == z3.Select(has0, q),
                                                        z3.Select(dv1, q) == z3.Select(dv0, q))))

    def cache_same(self, c):
        has0, dv0 = self.cache_arrays(c.pre, c.self)
        has1, dv1 = self.cache_arrays(c.post, c.self)
        return z3.And(has1 == has0, dv1 == dv0)


@register
class CPGet(CPBase):
    """read through a class or an instance: the value stored for the class (override or cache) if any -
    getter not called; else the getter's result for that class, cached when caching is on"""
    qual = CPC + ".__get__"
    raises = {"AttributeError": "exc_attr", "NestedAttributeError": "exc_nested", "*": "exc_cb"}

    def typing(self, c):
        st = c.pre
        st.assume(z3.Or(is_none(c.objtype), is_cls(c.objtype)))
        st.assume(z3.Or(is_none(c.obj), z3.And(is_ref(c.obj), a_of(c.obj) >= 1000)))

    def parts(self, c):
        st, s = c.pre, c.self
        typ = c.eng.to_val(st, c.objtype)
        k = ckey(c, st, s, typ)
        has, dv = self.cache_arrays(st, s)
        fget = fld(st, s, "_fget")
        cls = z3.If(is_none(typ), vcls(c.eng.type_of(st, c.obj)), typ)
        return typ, k, has, dv, fget, cls

    def post(self, c):
        st, s = c.pre, c.self
        typ, k, has, dv, fget, cls = self.parts(c)
        stored = z3.Select(has, k)
        n = ncalls(c, fget)
        r = APP[1](fget, cls)
        has1, dv1 = self.cache_arrays(c.post, s)
        caches = z3.And(b_of(fld(st, s, "cache")), c.eng.truthy(st, typ))
        return [("stored", z3.Implies(stored, z3.And(c.res == z3.Select(dv, k), self.cache_same(c), z3.BoolVal(n == 0)))),
                ("computed", z3.Implies(z3.Not(stored), z3.And(
                    z3.Not(is_none(fget)), z3.BoolVal(n == 1), c.res == r, self.only_key(c, k),
                    z3.Select(has1, k) == caches, z3.Implies(caches, z3.Select(dv1, k) == r))))]

    def exc_attr(self, c):
        st, s = c.pre, c.self
        typ, k, has, dv, fget, cls = self.parts(c)
        return [("unchanged", self.cache_same(c)),
                ("why", z3.And(z3.Not(z3.Select(has, k)), z3.Or(is_none(fget), z3.And(
                    APP_RAISES[1](fget, cls), b_of(fld(st, s, "allow_attribute_error"))))))]

    def exc_nested(self, c):
        st, s = c.pre, c.self
        typ, k, has, dv, fget, cls = self.parts(c)
        return [("unchanged", self.cache_same(c)),
                ("why", z3.And(z3.Not(z3.Select(has, k)), APP_RAISES[1](fget, cls),
                               z3.Not(b_of(fld(st, s, "allow_attribute_error")))))]

    def exc_cb(self, c):
        st, s = c.pre, c.self
        typ, k, has, dv, fget, cls = self.parts(c)
        return [("unchanged", self.cache_same(c)), ("why", z3.And(z3.Not(z3.Select(has, k)), APP_RAISES[1](fget, cls)))]


@register
class CPSet(CPBase):
    """assignment through an instance: with a setter it is called with (class, value) and the library
    writes nothing; without one the value becomes the class's override when overridable, else AttributeError"""
    qual = CPC + ".__set__"
    raises = {"AttributeError": "exc_attr", "*": "exc_cb"}

    def typing(self, c):
        st = c.pre
        st.assume(z3.Or(is_cls(c.obj), z3.And(is_ref(c.obj), a_of(c.obj) >= 1000)))

    def cls(self, c):
        return z3.If(is_cls(c.obj), c.obj, vcls(c.eng.type_of(c.pre, c.obj)))

    def post(self, c):
        st, s = c.pre, c.self
        cl = self.cls(c)
        k = ckey(c, st, s, cl)
        fset = fld(st, s, "_fset")
        v = c.eng.to_val(c.post, c.value)
        has1, dv1 = self.cache_arrays(c.post, s)
        n = ncalls(c, fset)
        return [("override", z3.Implies(is_none(fset), z3.And(b_of(fld(st, s, "overridable")), self.only_key(c, k),
                                                              z3.Select(has1, k), z3.Select(dv1, k) == v, z3.BoolVal(n == 0)))),
                ("setter", z3.Implies(z3.Not(is_none(fset)), z3.And(self.cache_same(c), z3.BoolVal(n == 1))))]

    def exc_attr(self, c):
        st, s = c.pre, c.self
        fset = fld(st, s, "_fset")
        return [("unchanged", self.cache_same(c)),
                ("why", z3.Or(z3.And(is_none(fset), z3.Not(b_of(fld(st, s, "overridable")))), z3.Not(is_none(fset))))]

    def exc_cb(self, c):
        return [("unchanged", self.cache_same(c)), ("why", z3.Not(is_none(fld(c.pre, c.self, "_fset"))))]


@register
class CPDelete(CPBase):
    """deletion through an instance: removes the class's stored value; AttributeError (nothing changed) if none"""
    qual = CPC + ".__delete__"
    raises = {"AttributeError": "exc_attr", "*": "exc_cb"}
    typing = CPSet.typing
    cls = CPSet.cls

    def post(self, c):
        st, s = c.pre, c.self
        k = ckey(c, st, s, self.cls(c))
        fdel = fld(st, s, "_fdel")
        has0, dv0 = self.cache_arrays(st, s)
        has1, dv1 = self.cache_arrays(c.post, s)
        n = ncalls(c, fdel)
        return [("remove", z3.Implies(is_none(fdel), z3.And(z3.Select(has0, k), z3.Not(z3.Select(has1, k)), self.only_key(c, k)))),
                ("deleter", z3.Implies(z3.Not(is_none(fdel)), z3.And(self.cache_same(c), z3.BoolVal(n == 1))))]

    def exc_attr(self, c):
        st, s = c.pre, c.self
        k = ckey(c, st, s, self.cls(c))
        fdel = fld(st, s, "_fdel")
        has0, dv0 = self.cache_arrays(st, s)
        return [("unchanged", self.cache_same(c)),
                ("why", z3.Or(z3.And(is_none(fdel), z3.Not(z3.Select(has0, k))), z3.Not(is_none(fdel))))]

    def exc_cb(self, c):
        return [("unchanged", self.cache_same(c)), ("why", z3.Not(is_none(fld(c.pre, c.self, "_fdel"))))]


# ------------------------------------------------------------------------------------------------
# where the protocol keeps its state: the slot name is fixed by __set_name__ (both descriptor kinds)
# ------------------------------------------------------------------------------------------------
class SetNameBase(Contract):
    """__set_name__(owner, name): the descriptor records exactly the class it sits on and the attribute
    name it sits under - the name every later read / assignment / deletion uses as the instance slot
    (spec_property) - and touches nothing else of itself, so every option survives class creation"""
    qual = SP + ":_spec_property_base.__set_name__"

    def setup(self, c):
        st, s = c.pre, c.self
        st.assume(is_ref(s), a_of(s) >= 1000, a_of(s) < st.alloc)
        st.assume(is_str(c.eng.to_val(st, c.name)))

    def modifies(self, c):
        return [a_of(c.self)]

    def post(self, c):
        st, s = c.pre, c.self
        x = z3.Int("s!setname")
        d0, d1 = st.get("idict", a_of(s)), c.post.get("idict", a_of(s))
        return [("attr_name", fld(c.post, s, "attr_name") == c.eng.to_val(st, c.name)),
                ("owner", fld(c.post, s, "owner") == c.eng.to_val(st, c.owner)),
                ("options-kept-named", z3.And([fld(c.post, s, n) == fld(st, s, n) for n in self.named])),
                ("options-kept", z3.ForAll([x], z3.Implies(z3.And(x != s_of(STR.val("attr_name")), x != s_of(STR.val("owner"))),
                                                           z3.Select(d1, x) == z3.Select(d0, x))))]


@register
class SPSetName(SetNameBase):
    recv = SPC
    named = ("fget", "fset", "fdel", "overridable", "warn_on_override", "cache", "allow_attribute_error", "attrs", "__doc__")


@register
class CPSetName(SetNameBase):
    recv = CPC
    named = ("_fget", "_fset", "_fdel", "overridable", "warn_on_override", "cache", "allow_attribute_error", "attrs", "_cache", "__doc__")


@register
class SPInvalidatedBy(Contract):
    """__spec_class_invalidated_by__: what bootstrap reads to build the invalidation map (C11) - the declared
    invalidated_by option: a single name becomes a one-element list of that name, a collection is handed over
    as it is, nothing declared (or an empty declaration) is an empty collection; the descriptor is not written"""
    qual = SPC + ".__spec_class_invalidated_by__"
    recv = SPC

    def setup(self, c):
        st, s = c.pre, c.self
        st.assume(is_ref(s), a_of(s) >= 1000, a_of(s) < st.alloc)
        d = fld(st, s, "attrs")
        st.assume(is_ref(d), st.get("cls_of", a_of(d)) == CLS.cid("dict"), a_of(d) >= 1000, a_of(d) < st.alloc)

    def modifies(self, c):
        return []

    def declared(self, c):
        st, s = c.pre, c.self
        A = a_of(fld(st, s, "attrs"))
        k = kn(STR.val("invalidated_by"))
        has = z3.Select(st.get("dhas", A), k)
        v = z3.Select(st.get("dval", A), k)
        return z3.And(has, c.eng.truthy(st, v)), v

    def post(self, c):
        decl, v = self.declared(c)
        r = c.eng.to_val(c.post, c.res)
        R = a_of(r)
        return [("name", z3.Implies(z3.And(decl, is_str(v)), z3.And(
                    is_ref(r), c.post.get("cls_of", R) == CLS.cid("list"), c.post.get("llen", R) == 1,
                    z3.Select(c.post.get("lelem", R), 0) == v))),
                ("collection", z3.Implies(z3.And(decl, z3.Not(is_str(v))), r == v)),
                ("none", z3.Implies(z3.Not(decl), z3.Not(c.eng.truthy(c.post, r))))]
