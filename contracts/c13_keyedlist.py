"""C13 - KeyedList is a list with unique keys and a coherent key index.

Contracts on the real functions of spec_classes/types/keyed.py (KeyedBase, KeyedList) and on the
MutableSequence / Sequence mixins of the interpreter's _collections_abc.py that KeyedList inherits.
"""
import z3
from pyvc.vals import *
from pyvc.state import fresh
from pyvc.pvals import *
from pyvc.symex import Res, is_val, APP, APP_RAISES, APP_EXC
from pyvc.contracts import Contract, LoopSpec, register
from .keyed_specs import *


# ---------------------------------------------------------------------------------------------
# shared: KeyedBase.key  /  check_type (assumed here, proved under C15)
# ---------------------------------------------------------------------------------------------
@register
class KeyContract(Contract):
    """self.key(item): the container's key function.  Caller-side view is the abstract kappa
    (A-KEY); the body is verified against its definitional unfolding (custom function if set,
    else the default extractor)."""
    qual = KB + ".key"
    raises = {"*": "exc_any"}
    pure_fn = True

    def link_bound(self, eng, st, v, bound):
        """a reified bound method `l.key` used as somebody's key function computes l's keys"""
        x = z3.Const("x!lb", Val)
        kf = keyfn(st, bound.selfval)
        st.assume(z3.ForAll([x], z3.And(kappa(v, x) == kappa(kf, x), kappa_raises(v, x) == kappa_raises(kf, x)),
                            patterns=[kappa(v, x), kappa_raises(v, x)]))

    def setup(self, c):
        st = c.pre
        kf = keyfn(st, c.self)
        x = c.item
        dk, dr = defkey(c.eng, st, x)
        from pyvc.symex import APP, APP_RAISES
        t = c.eng.truthy(st, kf)
        st.assume(kappa(kf, x) == z3.If(t, APP[1](kf, x), dk))
        st.assume(kappa_raises(kf, x) == z3.If(t, APP_RAISES[1](kf, x), dr))
        st.assume(z3.Not(is_absent(kf)))

    def post(self, c):
        return [("key", c.res == K(c.pre, c.self, c.item)),
                ("noraise", z3.Not(KR(c.pre, c.self, c.item))),
                ("value", z3.Not(is_absent(c.res)))]

    def exc_any(self, c):
        return [("raises", KR(c.pre, c.self, c.item))]


def defkey(eng, st, x):
    """default key extractor, from the class docstring: the key attribute of a keyed spec-class item,
    else the (hashable) item itself; unhashable -> TypeError.   -> (key term, raises term)"""
    sid = STR.sid("__spec_class__")
    from pyvc.symex import clsattr
    iv = z3.If(is_ref(x), z3.Select(st.get("idict", a_of(x)), sid), ABSENT)
    meta = z3.If(is_absent(iv), clsattr(eng.type_of(st, x), sid), iv)
    has_meta = z3.And(z3.Not(is_absent(meta)), eng.truthy(st, meta))
    mk = meta_key(eng, st, meta)
    keyed = z3.And(has_meta, eng.truthy(st, mk))
    kname = s_of(mk)
    kv = z3.If(is_ref(x), z3.Select(st.get("idict", a_of(x)), kname), ABSENT)
    kval = z3.If(is_absent(kv), clsattr(eng.type_of(st, x), kname), kv)
    return (z3.If(keyed, kval, x),
            z3.If(keyed, is_absent(kval), z3.Not(hashable(x))))


def meta_key(eng, st, meta):
    """metadata.key of a (foreign) spec-class metadata object"""
    from pyvc.symex import clsattr
    sid = STR.sid("key")
    iv = z3.If(is_ref(meta), z3.Select(st.get("idict", a_of(meta)), sid), ABSENT)
    return z3.If(is_absent(iv), clsattr(eng.type_of(st, meta), sid), iv)


@register
class CheckTypeAssumed(Contract):
    """check_type(value, attr_type) -> bool: pure and total on the annotation language.
    Proved separately (property C15); here it is the uninterpreted relation `conforms`."""
    qual = "spec_classes.utils.type_checking:check_type"
    assumed = True
    reason = "proved under C15 against the structural definition of conformance"

    def result(self, c):
        return vbool(conforms(c.eng.to_val(c.pre, c.value), c.eng.to_val(c.pre, c.attr_type)))


def args_hook(eng, st, v, fx):
    """`_type.__args__`: present iff the container was parameterised; then a pair (item type, key type)"""
    out = []
    for s2, b in eng.split(st, has_args(v), note="parameterised"):
        if b:
            out.append(Res("ok", s2, PTuple([targ0(v), targ1(v)])))
        else:
            out.append(eng.exc(s2, "AttributeError", note="no __args__"))
    return out


def install_hooks(models):
    models.attr_hooks["__args__"] = args_hook


# ---------------------------------------------------------------------------------------------
# KeyedList primitives
# ---------------------------------------------------------------------------------------------
class KLBase(Contract):
    recv = KL

    def pre(self, c):
        return [("wf.%d" % i, g) for i, g in enumerate(wf_list(c.pre, c.self))]

    def modifies(self, c):
        return [lst(c.pre, c.self), dct(c.pre, c.self)]

    def wf_post(self, c):
        return [("wf.%d" % i, g) for i, g in enumerate(wf_list(c.post, c.self))] + \
               [("config.%d" % i, g) for i, g in enumerate(same_config(c.pre, c.post, c.self))]

    def unchanged(self, c):
        return [("atomic.%d" % i, g) for i, g in enumerate(unchanged_list(c.pre, c.post, c.self))]


@register
class Insert(KLBase):
    """l.insert(i, x) == list.insert with CPython index clipping; duplicate key -> ValueError;
    wrong item/key type or unkeyable item -> exception; container unchanged on every failure."""
    qual = KL + ".insert"
    raises = {"ValueError": "exc_dup", "TypeError": "exc_type", "*": "exc_key"}

    def pre(self, c):
        return KLBase.pre(self, c) + [("index-int", is_index(c.index)), ("value", z3.Not(is_absent(c.value)))]

    def post(self, c):
        n, el = view(c.pre, c.self)
        n2, el2 = view(c.post, c.self)
        p = clip_insert(idx_int(c.index), n)
        v = c.value
        w = wit(c.pre, c.self)
        newk = kn(K(c.pre, c.self, v))
        set_wit(c.post, c.self, lambda k: z3.If(k == newk, p, z3.If(z3.Select(w, k) < p, z3.Select(w, k),
                                                                   z3.Select(w, k) + 1)))
        return self.wf_post(c) + [
            ("model", seq_eq(n2, el2, n + 1, lambda j: z3.If(j < p, z3.Select(el, j),
                                                              z3.If(j == p, v, z3.Select(el, j - 1))))),
            ("nodup", z3.Not(has_key(c.pre, c.self, K(c.pre, c.self, v)))),
            ("typed", z3.And(item_ok(c.pre, c.self, v), key_ok(c.pre, c.self, K(c.pre, c.self, v)))),
        ]

    def exc_dup(self, c):
        return self.unchanged(c) + [("dup", has_key(c.pre, c.self, K(c.pre, c.self, c.value))),
                                    ("keyable", z3.Not(KR(c.pre, c.self, c.value)))]

    def exc_type(self, c):
        k = K(c.pre, c.self, c.value)
        return self.unchanged(c) + [("why", z3.Or(
            KR(c.pre, c.self, c.value),
            z3.Not(item_ok(c.pre, c.self, c.value)), z3.Not(key_ok(c.pre, c.self, k)),
            z3.Not(hashable(k))))]

    def exc_key(self, c):
        return self.unchanged(c) + [("why", KR(c.pre, c.self, c.value))]


@register
class IndexForKey(KLBase):
    """index_for_key(k): the position a linear scan finds, KeyError when no item has that key."""
    qual = KL + ".index_for_key"
    raises = {"KeyError": "exc_missing", "TypeError": "exc_unhashable"}

    def modifies(self, c):
        return []

    def post(self, c):
        n, el = view(c.pre, c.self)
        i = i_of(c.res)
        return [("int", is_int(c.res)), ("range", z3.And(i >= 0, i < n)),
                ("scan", kn(K(c.pre, c.self, z3.Select(el, i))) == kn(c.key)),
                ("hashable", hashable(c.key))]

    def exc_missing(self, c):
        return [("absent", z3.Not(has_key(c.pre, c.self, c.key))), ("hashable", hashable(c.key))]

    def exc_unhashable(self, c):
        return [("unhashable", z3.Not(hashable(c.key)))]

    def inv0(lc, st, i):
        self_ = lc.args["self"]
        key = lc.args["key"]
        n, el = view(lc.pre, self_)
        j = z3.Int("j!ifk")
        return [("scanned", z3.ForAll([j], z3.Implies(z3.And(j >= 0, j < i),
                                                       kn(K(lc.pre, self_, z3.Select(el, j))) != kn(key))))]
    loops = {0: LoopSpec(inv0)}


def is_slice(st, v):
    return z3.And(is_ref(v), subcls(st.get("cls_of", a_of(v)), CLS.cid("slice")))


@register
class DelItem(KLBase):
    """del l[i] == list deletion (negative indices, IndexError); del l[key] removes the item a linear
    scan finds under that key (KeyError if none); slices are refused; failures change nothing."""
    qual = KL + ".__delitem__"
    raises = {"RuntimeError": "exc_slice", "IndexError": "exc_index", "KeyError": "exc_key",
              "TypeError": "exc_unhashable"}

    def post(self, c):
        st = c.pre
        n, el = view(st, c.self)
        n2, el2 = view(c.post, c.self)
        ik = c.index_or_key
        w = wit(st, c.self)
        p = z3.If(is_index(ik), norm(idx_int(ik), n), z3.Select(w, kn(ik)))
        set_wit(c.post, c.self, lambda k: z3.If(z3.Select(w, k) < p, z3.Select(w, k), z3.Select(w, k) - 1))
        return self.wf_post(c) + [
            ("notslice", z3.Not(is_slice(st, ik))),
            ("pos", z3.And(p >= 0, p < n, z3.Or(is_index(ik), z3.And(has_key(st, c.self, ik), hashable(ik),
                                                 kn(K(st, c.self, z3.Select(el, p))) == kn(ik))))),
            ("model", seq_eq(n2, el2, n - 1, lambda j: z3.If(j < p, z3.Select(el, j), z3.Select(el, j + 1)))),
        ]

    def exc_slice(self, c):
        return self.unchanged(c) + [("slice", is_slice(c.pre, c.index_or_key))]

    def exc_index(self, c):
        n, el = view(c.pre, c.self)
        i = norm(idx_int(c.index_or_key), n)
        return self.unchanged(c) + [("oob", z3.And(is_index(c.index_or_key), z3.Or(i < 0, i >= n)))]

    def exc_key(self, c):
        ik = c.index_or_key
        return self.unchanged(c) + [("missing", z3.And(z3.Not(is_index(ik)), z3.Not(is_slice(c.pre, ik)),
                                                       z3.Not(has_key(c.pre, c.self, ik))))]

    def exc_unhashable(self, c):
        ik = c.index_or_key
        return self.unchanged(c) + [("unhashable", z3.And(z3.Not(is_index(ik)), z3.Not(hashable(ik))))]


def KLIST():
    return CLS.cid("KeyedList")


def new_klist(c, r, n, f, key_like=None):
    """postcondition: r is a fresh, well-formed KeyedList whose view is (n, f) and whose key function
    is that of c.self"""
    st = c.post
    n2, el2 = view(st, r)
    x = z3.Const("x!nk", Val)
    out = [("fresh", z3.And(is_ref(r), a_of(r) >= c.pre.alloc, st.get("cls_of", a_of(r)) == KLIST()))]
    out += [("wf.%d" % i, g) for i, g in enumerate(wf_list(st, r))]
    out += [("owned", z3.And(lst(st, r) >= c.pre.alloc, dct(st, r) >= c.pre.alloc)),
            ("samekey", z3.ForAll([x], z3.And(kappa(keyfn(st, r), x) == K(c.pre, c.self, x),
                                              kappa_raises(keyfn(st, r), x) == KR(c.pre, c.self, x)))),
            ("view", seq_eq(n2, el2, n, f))]
    return out


@register
class Len(KLBase):
    qual = KL + ".__len__"

    def modifies(self, c):
        return []

    def post(self, c):
        n, el = view(c.pre, c.self)
        return [("len", c.res == vint(n))]


def slice_parts(st, sl):
    d = st.get("idict", a_of(sl))
    return tuple(z3.Select(d, STR.sid(x)) for x in ("start", "stop", "step"))


def clip_bound(b, n, dflt):
    i = i_of(b)
    return z3.If(is_none(b), dflt, z3.If(i < 0, z3.If(i + n < 0, 0, i + n), z3.If(i > n, n, i)))


@register
class GetItem(KLBase):
    """l[i] / l[a:b] == plain list reads; l[key] == the item a linear scan finds under that key."""
    qual = KL + ".__getitem__"
    raises = {"IndexError": "exc_index", "KeyError": "exc_key", "TypeError": "exc_unhashable"}

    def modifies(self, c):
        return []

    def pre(self, c):
        ik = c.index_or_key
        lo, hi, step = slice_parts(c.pre, ik)
        return KLBase.pre(self, c) + [
            ("simple-slice", z3.Implies(is_slice(c.pre, ik), z3.And(
                st_exact(c.pre, ik, "slice"),
                z3.Or(is_none(step), step == vint(1)), z3.Or(is_none(lo), is_int(lo)),
                z3.Or(is_none(hi), is_int(hi)))))]

    def post(self, c):
        st = c.pre
        ik = c.index_or_key
        n, el = view(st, c.self)
        w = wit(st, c.self)
        lo, hi, step = slice_parts(st, ik)
        l0, h0 = clip_bound(lo, n, z3.IntVal(0)), clip_bound(hi, n, n)
        m = z3.If(h0 > l0, h0 - l0, 0)
        p = z3.If(is_index(ik), norm(idx_int(ik), n), z3.Select(w, kn(ik)))
        sl = is_slice(st, ik)
        out = [("scalar", z3.Implies(z3.Not(sl), z3.And(p >= 0, p < n, c.res == z3.Select(el, p),
                                                        z3.Or(is_index(ik), z3.And(hashable(ik), has_key(st, c.self, ik))))))]
        for nm, g in new_klist(c, c.res, m, lambda j: z3.Select(el, j + l0)):
            out.append(("slice." + nm, z3.Implies(sl, g)))
        return out

    def exc_index(self, c):
        n, el = view(c.pre, c.self)
        i = norm(idx_int(c.index_or_key), n)
        return [("oob", z3.And(is_index(c.index_or_key), z3.Or(i < 0, i >= n)))]

    def exc_key(self, c):
        ik = c.index_or_key
        return [("missing", z3.And(z3.Not(is_index(ik)), z3.Not(is_slice(c.pre, ik)),
                                   z3.Not(has_key(c.pre, c.self, ik))))]

    def exc_unhashable(self, c):
        ik = c.index_or_key
        return [("unhashable", z3.And(z3.Not(is_index(ik)), z3.Not(hashable(ik))))]


def st_exact(st, v, clsname):
    return st.get("cls_of", a_of(v)) == CLS.cid(clsname)


@register
class SetItem(KLBase):
    """l[i] = x == list assignment (negative indices, IndexError), l[key] = x replaces the item found
    under key; a second item with an existing key -> ValueError; failures change nothing."""
    qual = KL + ".__setitem__"
    raises = {"RuntimeError": "exc_slice", "IndexError": "exc_index", "KeyError": "exc_key",
              "ValueError": "exc_dup", "TypeError": "exc_type", "*": "exc_keyfn"}

    def pre(self, c):
        return KLBase.pre(self, c) + [("value", z3.Not(is_absent(c.value)))]

    def pos(self, c):
        n, el = view(c.pre, c.self)
        ik = c.index_or_key
        return z3.If(is_index(ik), norm(idx_int(ik), n), z3.Select(wit(c.pre, c.self), kn(ik)))

    def post(self, c):
        st = c.pre
        n, el = view(st, c.self)
        n2, el2 = view(c.post, c.self)
        ik, v = c.index_or_key, c.value
        p = self.pos(c)
        w = wit(st, c.self)
        newk = kn(K(st, c.self, v))
        oldk = kn(K(st, c.self, z3.Select(el, p)))
        set_wit(c.post, c.self, lambda k: z3.If(k == newk, p, z3.Select(w, k)))
        return self.wf_post(c) + [
            ("notslice", z3.Not(is_slice(st, ik))),
            ("pos", z3.And(p >= 0, p < n, z3.Or(is_index(ik), z3.And(hashable(ik), has_key(st, c.self, ik))))),
            ("model", seq_eq(n2, el2, n, lambda j: z3.If(j == p, v, z3.Select(el, j)))),
            ("nodup", z3.Or(newk == oldk, z3.Not(has_key(st, c.self, K(st, c.self, v))))),
            ("typed", z3.And(item_ok(st, c.self, v), key_ok(st, c.self, K(st, c.self, v)))),
        ]

    def exc_slice(self, c):
        return self.unchanged(c) + [("slice", is_slice(c.pre, c.index_or_key))]

    def exc_index(self, c):
        n, el = view(c.pre, c.self)
        i = norm(idx_int(c.index_or_key), n)
        return self.unchanged(c) + [("oob", z3.And(is_index(c.index_or_key), z3.Or(i < 0, i >= n)))]

    def exc_key(self, c):
        ik = c.index_or_key
        return self.unchanged(c) + [("missing", z3.And(z3.Not(is_index(ik)), z3.Not(is_slice(c.pre, ik)),
                                                       z3.Not(has_key(c.pre, c.self, ik))))]

    def exc_dup(self, c):
        st = c.pre
        n, el = view(st, c.self)
        p = self.pos(c)
        return self.unchanged(c) + [
            ("dup", z3.And(has_key(st, c.self, K(st, c.self, c.value)),
                           kn(K(st, c.self, c.value)) != kn(K(st, c.self, z3.Select(el, p)))))]

    def exc_type(self, c):
        st = c.pre
        k = K(st, c.self, c.value)
        ik = c.index_or_key
        return self.unchanged(c) + [("why", z3.Or(
            KR(st, c.self, c.value), z3.Not(item_ok(st, c.self, c.value)), z3.Not(key_ok(st, c.self, k)),
            z3.Not(hashable(k)), z3.And(z3.Not(is_index(ik)), z3.Not(hashable(ik)))))]

    def exc_keyfn(self, c):
        return self.unchanged(c) + [("why", KR(c.pre, c.self, c.value))]


def mem_spec(st, self, v):
    """x in l  <=>  x is (equal to) an item, or x is a key"""
    n, el = view(st, self)
    j = z3.Int("j!mem")
    return z3.Or(z3.And(hashable(v), has_key(st, self, v)),
                 z3.Exists([j], z3.And(j >= 0, j < n, kn(z3.Select(el, j)) == kn(v))))


@register
class Contains(KLBase):
    qual = KL + ".__contains__"

    def modifies(self, c):
        return []

    def post(self, c):
        return [("bool", is_bool(c.res)), ("mem", b_of(c.res) == mem_spec(c.pre, c.self, c.value))]


@register
class SeqContains(KLBase):
    """Sequence.__contains__ as inherited by KeyedList: linear scan for an identical or equal item"""
    qual = "_collections_abc:Sequence.__contains__"

    def modifies(self, c):
        return []

    def post(self, c):
        n, el = view(c.pre, c.self)
        j = z3.Int("j!sc")
        return [("bool", is_bool(c.res)),
                ("scan", b_of(c.res) == z3.Exists([j], z3.And(j >= 0, j < n, kn(z3.Select(el, j)) == kn(c.value))))]

    def inv0(lc, st, i):
        self_, value = lc.args["self"], lc.args["value"]
        n, el = view(lc.pre, self_)
        j = z3.Int("j!sci")
        return [("scanned", z3.ForAll([j], z3.Implies(z3.And(j >= 0, j < i), kn(z3.Select(el, j)) != kn(value))))]
    loops = {0: LoopSpec(inv0)}


@register
class SeqIterAssumed(KLBase):
    """Sequence.__iter__ (a generator): yields self[0], self[1], ... until IndexError.
    ASSUMED (generators are outside the subset); bounded stand-in in bounded/c13.py."""
    qual = "_collections_abc:Sequence.__iter__"
    assumed = True
    reason = "generator; contract 'yields the view in order' checked by the bounded stand-in (n <= 5)"


def iter_hook(eng, st, v, fx):
    """for x in <KeyedList>: the items of the view, in order (contract of Sequence.__iter__)"""
    if not is_val(v):
        return None
    if eng.static_class(st, v) != "KeyedList":
        return None
    n, el = view(st, v)
    p = PSeq(n, lambda s, k, el=el: z3.Select(el, k), "KeyedList view")
    p.arr = el
    eng.stats["assumed"].add("_collections_abc:Sequence.__iter__")
    return [Res("ok", st, p)]


def truthy_hook(eng, st, a, c):
    if "KeyedList" in CLS.ids:
        L = a_of(z3.Select(st.get("idict", a), STR.sid("_list")))
        return z3.If(c == CLS.cid("KeyedList"), st.get("llen", L) > 0, utruthy(a))
    return None


_old_install = install_hooks


def install_hooks(models):
    _old_install(models)
    models.iter_hooks.append(iter_hook)
    models.truthy_hooks.append(truthy_hook)


@register
class Get(KLBase):
    qual = KL + ".get"
    raises = {"TypeError": "exc_unhashable"}

    def modifies(self, c):
        return []

    def post(self, c):
        st = c.pre
        n, el = view(st, c.self)
        w = wit(st, c.self)
        return [("scan", c.res == z3.If(has_key(st, c.self, c.key), z3.Select(el, z3.Select(w, kn(c.key))),
                                        c.eng.to_val(c.post, c.default))),
                ("hashable", hashable(c.key))]

    def exc_unhashable(self, c):
        return [("unhashable", z3.Not(hashable(c.key)))]


@register
class Append(KLBase):
    qual = "_collections_abc:MutableSequence.append"
    raises = {"ValueError": "exc_dup", "TypeError": "exc_type", "*": "exc_key"}

    def pre(self, c):
        return KLBase.pre(self, c) + [("value", z3.Not(is_absent(c.value)))]

    def post(self, c):
        n, el = view(c.pre, c.self)
        n2, el2 = view(c.post, c.self)
        v = c.value
        w = wit(c.pre, c.self)
        newk = kn(K(c.pre, c.self, v))
        set_wit(c.post, c.self, lambda k: z3.If(k == newk, n, z3.Select(w, k)))
        return self.wf_post(c) + [("model", seq_eq(n2, el2, n + 1, lambda j: z3.If(j < n, z3.Select(el, j), v)))]

    exc_dup = Insert.exc_dup
    exc_type = Insert.exc_type
    exc_key = Insert.exc_key


@register
class Pop(KLBase):
    qual = "_collections_abc:MutableSequence.pop"
    raises = {"IndexError": "exc_index"}

    def pre(self, c):
        return KLBase.pre(self, c) + [("index-int", is_index(c.index))]

    def post(self, c):
        st = c.pre
        n, el = view(st, c.self)
        n2, el2 = view(c.post, c.self)
        w = wit(st, c.self)
        p = norm(idx_int(c.index), n)
        set_wit(c.post, c.self, lambda k: z3.If(z3.Select(w, k) < p, z3.Select(w, k), z3.Select(w, k) - 1))
        return self.wf_post(c) + [
            ("pos", z3.And(p >= 0, p < n)), ("value", c.res == z3.Select(el, p)),
            ("model", seq_eq(n2, el2, n - 1, lambda j: z3.If(j < p, z3.Select(el, j), z3.Select(el, j + 1))))]

    def exc_index(self, c):
        n, el = view(c.pre, c.self)
        i = norm(idx_int(c.index), n)
        return self.unchanged(c) + [("oob", z3.Or(i < 0, i >= n))]


def iterated(c, v):
    """the finite sequence obtained by iterating argument v during the call: (n, arr).
    verify side: the plan the loop actually used; apply side: fresh, tied to the heap when v is a
    built-in list/tuple (or a KeyedList)."""
    if c.side == "verify":
        plans = c.post.ghost.get("plans", ())
        p = plans[-1][1]
        return p.n, p.arr
    key = ("iterated", v.sexpr() if is_val(v) else id(v))
    if key in c.ghost:
        return c.ghost[key]
    n, arr = fresh("itn", I), fresh("itv", ArrIV)
    st = c.pre
    c.post.assume(n >= 0)
    if is_val(v):
        a = a_of(v)
        cl = st.get("cls_of", a)
        isl = z3.And(is_ref(v), z3.Or(cl == CLS.cid("list"), cl == CLS.cid("tuple")))
        c.post.assume(z3.Implies(isl, z3.And(n == st.get("llen", a), arr == st.get("lelem", a))))
        c.post.assume(z3.Implies(z3.Not(c.eng.truthy(st, v)), n == 0))
        if "KeyedList" in CLS.ids:
            isk = z3.And(is_ref(v), cl == KLIST())
            vn, vel = view(st, v)
            c.post.assume(z3.Implies(isk, z3.And(n == vn, arr == vel)))
    c.ghost[key] = (n, arr)
    return n, arr


def dup_in(st, kf, n, arr, extra_has=None):
    """some two of the n items share a key (or one has a key already present)"""
    i, j = z3.Int("i!du"), z3.Int("j!du")
    alts = [z3.Exists([i, j], z3.And(i >= 0, i < j, j < n,
                                     kn(kappa(kf, z3.Select(arr, i))) == kn(kappa(kf, z3.Select(arr, j)))))]
    if extra_has is not None:
        alts.append(z3.Exists([i], z3.And(i >= 0, i < n, z3.Select(extra_has, kn(kappa(kf, z3.Select(arr, i)))))))
    return z3.Or(*alts)


@register
class Init(Contract):
    """KeyedList(sequence, key): the items of `sequence` in order, keyed by `key`;
    duplicate keys -> ValueError."""
    qual = KL + ".__init__"
    recv = KL
    raises = {"ValueError": "exc_dup", "TypeError": "exc_type", "*": "exc_other"}

    def setup(self, c):
        st = c.pre
        st.assume(z3.Not(has_args(CLS.val("KeyedList"))))

    def pre(self, c):
        a = a_of(c.self)
        return [("self", z3.And(is_ref(c.self), c.pre.get("cls_of", a) == KLIST()))]

    def modifies(self, c):
        return [a_of(c.self)]

    def post(self, c):
        st = c.post
        key = c.key
        n, arr = iterated(c, c.sequence)
        n2, el2 = view(st, c.self)
        if c.side == "verify":
            # ghost witness: position of each key = the index of the item that carries it (from the loop invariant)
            pass
        out = [("wf.%d" % i, g) for i, g in enumerate(wf_list(st, c.self))]
        out += [("key", keyfn(st, c.self) == key),
                ("type", typ(st, c.self) == CLS.val("KeyedList")),
                ("owned", z3.And(lst(st, c.self) >= c.pre.alloc, dct(st, c.self) >= c.pre.alloc)),
                ("view", seq_eq(n2, el2, n, lambda j: z3.Select(arr, j)))]
        return out

    def exc_dup(self, c):
        key = c.key
        n, arr = iterated(c, c.sequence)
        return [("dup", dup_in(c.post, key, n, arr))]

    def exc_type(self, c):
        key = c.key
        n, arr = iterated(c, c.sequence)
        i = z3.Int("i!et")
        return [("why", z3.Exists([i], z3.And(i >= 0, i < n, z3.Or(
            kappa_raises(key, z3.Select(arr, i)), z3.Not(hashable(kappa(key, z3.Select(arr, i))))))))]

    def exc_other(self, c):
        key = c.key
        n, arr = iterated(c, c.sequence)
        i = z3.Int("i!eo")
        return [("keyfn", z3.Exists([i], z3.And(i >= 0, i < n, kappa_raises(key, z3.Select(arr, i)))))]

    def inv0(lc, st, i):
        self_ = lc.args["self"]
        key = lc.args["key"]
        p = lc.plan
        n2, el2 = view(st, self_)
        out = [("wf.%d" % k, g) for k, g in enumerate(wf_list(st, self_))]
        out += [("key", keyfn(st, self_) == key), ("type", typ(st, self_) == CLS.val("KeyedList")),
                ("owned", z3.And(lst(st, self_) >= lc.entry.pre.alloc, dct(st, self_) >= lc.entry.pre.alloc,
                                 lst(st, self_) == lst(lc.pre, self_), dct(st, self_) == dct(lc.pre, self_))),
                ("view", seq_eq(n2, el2, i, lambda j: z3.Select(p.arr, j)))]
        return out

    def mod0(lc, pre):
        self_ = lc.args["self"]
        return [lst(pre, self_), dct(pre, self_)]
    loops = {0: LoopSpec(inv0, mod0)}
