"""C13 - KeyedList is a list with unique keys and a coherent key index.

Contracts on the real functions of spec_classes/types/keyed.py (KeyedBase, KeyedList) and on the
MutableSequence / Sequence mixins of the interpreter's _collections_abc.py that KeyedList inherits.
"""
import z3
from pyvc.vals import *
from pyvc.state import fresh
from pyvc.pvals import *
from pyvc.symex import Res, is_val, APP, APP_RAISES, APP_EXC
from pyvc.contracts import Contract, LoopSpec, register
from .keyed_specs import *
from . import keyed_specs
from pyvc import contracts as _pc
if keyed_specs.MODE not in _pc.MODE_HOOKS:
    _pc.MODE_HOOKS.append(keyed_specs.MODE)


# ---------------------------------------------------------------------------------------------
# shared: KeyedBase.key  /  check_type (assumed here, proved under C15)
# ---------------------------------------------------------------------------------------------
@register
class KeyContract(Contract):
    """self.key(item): the container's key function.  Caller-side view is the abstract kappa
    (A-KEY); the body is verified against its definitional unfolding (custom function if set,
    else the default extractor)."""
    qual = KB + ".key"
    raises = {"*": "exc_any"}
    pure_fn = True
    verify_recv = KL

    def link_bound(self, eng, st, v, bound):
        """a reified bound method `l.key` used as somebody's key function computes l's keys"""
        x = z3.Const("x!lb", Val)
        kf = keyfn(st, bound.selfval)
        st.assume(z3.ForAll([x], z3.And(kappa(v, x) == kappa(kf, x), kappa_raises(v, x) == kappa_raises(kf, x)),
                            patterns=[kappa(v, x), kappa_raises(v, x)]))

    def setup(self, c):
        st = c.pre
        kf = keyfn(st, c.self)
        x = c.item
        dk, dr, dx = defkey(c.eng, st, x)
        from pyvc.symex import APP, APP_RAISES, APP_EXC
        t = c.eng.truthy(st, kf)
        st.assume(kappa(kf, x) == z3.If(t, APP[1](kf, x), dk))
        st.assume(kappa_raises(kf, x) == z3.If(t, APP_RAISES[1](kf, x), dr))
        st.assume(kappa_exc(kf, x) == z3.If(t, APP_EXC[1](kf, x), dx))
        st.assume(z3.Not(is_absent(kf)))

    def post(self, c):
        return [("key", c.res == K(c.pre, c.self, c.item)),
                ("noraise", z3.Not(KR(c.pre, c.self, c.item))),
                ("value", z3.Not(is_absent(c.res)))]

    def exc_any(self, c):
        e = c.exc
        kx = kappa_exc(keyfn(c.pre, c.self), c.item)
        if e.cid is not None:
            cls_clause = kx == e.cid
        else:
            c.eng.known.add(e.cls)
            cls_clause = kx == CLS.cid(e.cls)
        return [("raises", KR(c.pre, c.self, c.item)), ("class", cls_clause)]


def cls_lookup(eng, st, v, sid):
    """the class-level part of an attribute read (as the engine models it): on a class value the class's own attribute"""
    from pyvc.symex import clsattr
    return z3.If(is_cls(v), clsattr(c_of(v), sid), clsattr(eng.type_of(st, v), sid))


def defkey(eng, st, x):
    """default key extractor, from the class docstring: the key attribute of a keyed spec-class item,
    else the (hashable) item itself; unhashable -> TypeError.   -> (key term, raises term)"""
    sid = STR.sid("__spec_class__")
    from pyvc.symex import clsattr
    iv = z3.If(is_ref(x), z3.Select(st.get("idict", a_of(x)), sid), ABSENT)
    meta = z3.If(is_absent(iv), cls_lookup(eng, st, x, sid), iv)
    has_meta = z3.And(z3.Not(is_absent(meta)), eng.truthy(st, meta))
    mk = meta_key(eng, st, meta)
    keyed = z3.And(has_meta, z3.Not(is_absent(mk)), eng.truthy(st, mk))
    broken = z3.And(has_meta, is_absent(mk))       # a metadata object without a `key` attribute
    kname = s_of(mk)
    kv = z3.If(is_ref(x), z3.Select(st.get("idict", a_of(x)), kname), ABSENT)
    kval = z3.If(is_absent(kv), cls_lookup(eng, st, x, kname), kv)
    eng.known.update(("AttributeError", "TypeError"))
    return (z3.If(keyed, kval, x),
            z3.If(broken, True, z3.If(keyed, is_absent(kval), z3.Not(hashable(x)))),
            z3.If(z3.Or(broken, keyed), CLS.cid("AttributeError"), CLS.cid("TypeError")))


def meta_key(eng, st, meta):
    """metadata.key of a (foreign) spec-class metadata object"""
    from pyvc.symex import clsattr
    sid = STR.sid("key")
    iv = z3.If(is_ref(meta), z3.Select(st.get("idict", a_of(meta)), sid), ABSENT)
    return z3.If(is_absent(iv), cls_lookup(eng, st, meta, sid), iv)


@register
class CheckTypeAssumed(Contract):
    """check_type(value, attr_type) -> bool: pure and total on the annotation language.
    Proved separately (property C15); here it is the uninterpreted relation `conforms`."""
    qual = "spec_classes.utils.type_checking:check_type"
    assumed = True
    reason = "proved under C15 against the structural definition of conformance"

    def result(self, c):
        return vbool(conforms(c.eng.to_val(c.pre, c.value), c.eng.to_val(c.pre, c.attr_type)))


def args_hook(eng, st, v, fx):
    """`_type.__args__`: present iff the container was parameterised; then a pair (item type, key type)"""
    out = []
    for s2, b in eng.split(st, has_args(v), note="parameterised"):
        if b:
            out.append(Res("ok", s2, PTuple([targ0(v), targ1(v)])))
        else:
            out.append(eng.exc(s2, "AttributeError", note="no __args__"))
    return out


def install_hooks(models):
    models.attr_hooks["__args__"] = args_hook


# ---------------------------------------------------------------------------------------------
# KeyedList primitives
# ---------------------------------------------------------------------------------------------
class KLBase(Contract):
    recv = KL

    def pre(self, c):
        return [("wf.%d" % i, g) for i, g in enumerate(wf_list(c.pre, c.self))]

    def modifies(self, c):
        return [lst(c.pre, c.self), dct(c.pre, c.self)]

    def wf_post(self, c):
        return [("wf.%d" % i, g) for i, g in enumerate(wf_list(c.post, c.self))] + \
               [("config.%d" % i, g) for i, g in enumerate(same_config(c.pre, c.post, c.self))]

    def unchanged(self, c):
        return [("atomic.%d" % i, g) for i, g in enumerate(unchanged_list(c.pre, c.post, c.self))]


@register
class Insert(KLBase):
    """l.insert(i, x) == list.insert with CPython index clipping; duplicate key -> ValueError;
    wrong item/key type or unkeyable item -> exception; container unchanged on every failure."""
    qual = KL + ".insert"
    raises = {"ValueError": "exc_dup", "TypeError": "exc_type", "*": "exc_key"}

    def pre(self, c):
        return KLBase.pre(self, c) + [("index-int", is_index(c.index)), ("value", z3.Not(is_absent(c.value)))]

    def post(self, c):
        n, el = view(c.pre, c.self)
        n2, el2 = view(c.post, c.self)
        p = clip_insert(idx_int(c.index), n)
        v = c.value
        w = wit(c.pre, c.self)
        newk = kn(K(c.pre, c.self, v))
        set_wit(c.post, c.self, lambda k: z3.If(k == newk, p, z3.If(z3.Select(w, k) < p, z3.Select(w, k),
                                                                   z3.Select(w, k) + 1)))
        return self.wf_post(c) + [
            ("model", seq_eq(n2, el2, n + 1, lambda j: z3.If(j < p, z3.Select(el, j),
                                                              z3.If(j == p, v, z3.Select(el, j - 1))))),
            ("nodup", z3.Not(has_key(c.pre, c.self, K(c.pre, c.self, v)))),
            ("typed", z3.And(item_ok(c.pre, c.self, v), key_ok(c.pre, c.self, K(c.pre, c.self, v)))),
        ]

    def exc_dup(self, c):
        return self.unchanged(c) + [("dup", has_key(c.pre, c.self, K(c.pre, c.self, c.value))),
                                    ("keyable", z3.Not(KR(c.pre, c.self, c.value)))]

    def exc_type(self, c):
        k = K(c.pre, c.self, c.value)
        return self.unchanged(c) + [("why", z3.Or(
            KR(c.pre, c.self, c.value),
            z3.Not(item_ok(c.pre, c.self, c.value)), z3.Not(key_ok(c.pre, c.self, k)),
            z3.Not(hashable(k))))]

    def exc_key(self, c):
        return self.unchanged(c) + [("why", KR(c.pre, c.self, c.value))]


@register
class IndexForKey(KLBase):
    """index_for_key(k): the position a linear scan finds, KeyError when no item has that key."""
    qual = KL + ".index_for_key"
    raises = {"KeyError": "exc_missing", "TypeError": "exc_unhashable"}

    def modifies(self, c):
        return []

    def post(self, c):
        n, el = view(c.pre, c.self)
        i = i_of(c.res)
        return [("int", is_int(c.res)), ("range", z3.And(i >= 0, i < n)),
                ("scan", kn(K(c.pre, c.self, z3.Select(el, i))) == kn(c.key)),
                ("hashable", hashable(c.key))]

    def exc_missing(self, c):
        return [("absent", z3.Not(has_key(c.pre, c.self, c.key))), ("hashable", hashable(c.key))]

    def exc_unhashable(self, c):
        return [("unhashable", z3.Not(hashable(c.key)))]

    def inv0(lc, st, i):
        self_ = lc.args["self"]
        key = lc.args["key"]
        n, el = view(lc.pre, self_)
        j = z3.Int("j!ifk")
        return [("scanned", z3.ForAll([j], z3.Implies(z3.And(j >= 0, j < i),
                                                       kn(K(lc.pre, self_, z3.Select(el, j))) != kn(key))))]
    loops = {0: LoopSpec(inv0)}


def is_slice(st, v):
    return z3.And(is_ref(v), subcls(st.get("cls_of", a_of(v)), CLS.cid("slice")))


@register
class DelItem(KLBase):
    """del l[i] == list deletion (negative indices, IndexError); del l[key] removes the item a linear
    scan finds under that key (KeyError if none); slices are refused; failures change nothing."""
    qual = KL + ".__delitem__"
    raises = {"RuntimeError": "exc_slice", "IndexError": "exc_index", "KeyError": "exc_key",
              "TypeError": "exc_unhashable"}

    def post(self, c):
        st = c.pre
        n, el = view(st, c.self)
        n2, el2 = view(c.post, c.self)
        ik = c.index_or_key
        w = wit(st, c.self)
        p = z3.If(is_index(ik), norm(idx_int(ik), n), z3.Select(w, kn(ik)))
        set_wit(c.post, c.self, lambda k: z3.If(z3.Select(w, k) < p, z3.Select(w, k), z3.Select(w, k) - 1))
        return self.wf_post(c) + [
            ("notslice", z3.Not(is_slice(st, ik))),
            ("pos", z3.And(p >= 0, p < n, z3.Or(is_index(ik), z3.And(has_key(st, c.self, ik), hashable(ik),
                                                 kn(K(st, c.self, z3.Select(el, p))) == kn(ik))))),
            ("model", seq_eq(n2, el2, n - 1, lambda j: z3.If(j < p, z3.Select(el, j), z3.Select(el, j + 1)))),
        ]

    def exc_slice(self, c):
        return self.unchanged(c) + [("slice", is_slice(c.pre, c.index_or_key))]

    def exc_index(self, c):
        n, el = view(c.pre, c.self)
        i = norm(idx_int(c.index_or_key), n)
        return self.unchanged(c) + [("oob", z3.And(is_index(c.index_or_key), z3.Or(i < 0, i >= n)))]

    def exc_key(self, c):
        ik = c.index_or_key
        return self.unchanged(c) + [("missing", z3.And(z3.Not(is_index(ik)), z3.Not(is_slice(c.pre, ik)),
                                                       z3.Not(has_key(c.pre, c.self, ik))))]

    def exc_unhashable(self, c):
        ik = c.index_or_key
        return self.unchanged(c) + [("unhashable", z3.And(z3.Not(is_index(ik)), z3.Not(hashable(ik))))]


def KLIST():
    return CLS.cid("KeyedList")


def new_klist(c, r, n, f, key_like=None):
    """postcondition: r is a fresh, well-formed KeyedList whose view is (n, f) and whose key function
    is that of c.self"""
    st = c.post
    n2, el2 = view(st, r)
    x = z3.Const("x!nk", Val)
    out = [("fresh", z3.And(is_ref(r), a_of(r) >= c.pre.alloc, st.get("cls_of", a_of(r)) == KLIST()))]
    out += [("wf.%d" % i, g) for i, g in enumerate(wf_list(st, r))]
    out += [("owned", z3.And(lst(st, r) >= c.pre.alloc, dct(st, r) >= c.pre.alloc)),
            ("samekey", z3.ForAll([x], z3.And(kappa(keyfn(st, r), x) == K(c.pre, c.self, x),
                                              kappa_raises(keyfn(st, r), x) == KR(c.pre, c.self, x)))),
            ("view", seq_eq(n2, el2, n, f))]
    return out


@register
class Len(KLBase):
    qual = KL + ".__len__"

    def modifies(self, c):
        return []

    def post(self, c):
        n, el = view(c.pre, c.self)
        return [("len", c.res == vint(n))]


def slice_parts(st, sl):
    d = st.get("idict", a_of(sl))
    return tuple(z3.Select(d, STR.sid(x)) for x in ("start", "stop", "step"))


def clip_bound(b, n, dflt):
    i = i_of(b)
    return z3.If(is_none(b), dflt, z3.If(i < 0, z3.If(i + n < 0, 0, i + n), z3.If(i > n, n, i)))


@register
class GetItem(KLBase):
    """l[i] / l[a:b] == plain list reads; l[key] == the item a linear scan finds under that key."""
    qual = KL + ".__getitem__"
    raises = {"IndexError": "exc_index", "KeyError": "exc_key", "TypeError": "exc_unhashable"}

    def modifies(self, c):
        return []

    def pre(self, c):
        ik = c.index_or_key
        lo, hi, step = slice_parts(c.pre, ik)
        return KLBase.pre(self, c) + [
            ("simple-slice", z3.Implies(is_slice(c.pre, ik), z3.And(
                st_exact(c.pre, ik, "slice"),
                z3.Or(is_none(step), step == vint(1)), z3.Or(is_none(lo), is_int(lo)),
                z3.Or(is_none(hi), is_int(hi)))))]

    def post(self, c):
        st = c.pre
        ik = c.index_or_key
        n, el = view(st, c.self)
        w = wit(st, c.self)
        lo, hi, step = slice_parts(st, ik)
        l0, h0 = clip_bound(lo, n, z3.IntVal(0)), clip_bound(hi, n, n)
        m = z3.If(h0 > l0, h0 - l0, 0)
        p = z3.If(is_index(ik), norm(idx_int(ik), n), z3.Select(w, kn(ik)))
        sl = is_slice(st, ik)
        out = [("scalar", z3.Implies(z3.Not(sl), z3.And(p >= 0, p < n, c.res == z3.Select(el, p),
                                                        z3.Or(is_index(ik), z3.And(hashable(ik), has_key(st, c.self, ik))))))]
        for nm, g in new_klist(c, c.res, m, lambda j: z3.Select(el, j + l0)):
            out.append(("slice." + nm, z3.Implies(sl, g)))
        return out

    def exc_index(self, c):
        n, el = view(c.pre, c.self)
        i = norm(idx_int(c.index_or_key), n)
        return [("oob", z3.And(is_index(c.index_or_key), z3.Or(i < 0, i >= n)))]

    def exc_key(self, c):
        ik = c.index_or_key
        return [("missing", z3.And(z3.Not(is_index(ik)), z3.Not(is_slice(c.pre, ik)),
                                   z3.Not(has_key(c.pre, c.self, ik))))]

    def exc_unhashable(self, c):
        ik = c.index_or_key
        return [("unhashable", z3.And(z3.Not(is_index(ik)), z3.Not(hashable(ik))))]


def st_exact(st, v, clsname):
    return st.get("cls_of", a_of(v)) == CLS.cid(clsname)


@register
class SetItem(KLBase):
    """l[i] = x == list assignment (negative indices, IndexError), l[key] = x replaces the item found
    under key; a second item with an existing key -> ValueError; failures change nothing."""
    qual = KL + ".__setitem__"
    raises = {"RuntimeError": "exc_slice", "IndexError": "exc_index", "KeyError": "exc_key",
              "ValueError": "exc_dup", "TypeError": "exc_type", "*": "exc_keyfn"}

    def pre(self, c):
        return KLBase.pre(self, c) + [("value", z3.Not(is_absent(c.value)))]

    def pos(self, c):
        n, el = view(c.pre, c.self)
        ik = c.index_or_key
        return z3.If(is_index(ik), norm(idx_int(ik), n), z3.Select(wit(c.pre, c.self), kn(ik)))

    def post(self, c):
        st = c.pre
        n, el = view(st, c.self)
        n2, el2 = view(c.post, c.self)
        ik, v = c.index_or_key, c.value
        p = self.pos(c)
        w = wit(st, c.self)
        newk = kn(K(st, c.self, v))
        oldk = kn(K(st, c.self, z3.Select(el, p)))
        set_wit(c.post, c.self, lambda k: z3.If(k == newk, p, z3.Select(w, k)))
        return self.wf_post(c) + [
            ("notslice", z3.Not(is_slice(st, ik))),
            ("pos", z3.And(p >= 0, p < n, z3.Or(is_index(ik), z3.And(hashable(ik), has_key(st, c.self, ik))))),
            ("model", seq_eq(n2, el2, n, lambda j: z3.If(j == p, v, z3.Select(el, j)))),
            ("nodup", z3.Or(newk == oldk, z3.Not(has_key(st, c.self, K(st, c.self, v))))),
            ("typed", z3.And(item_ok(st, c.self, v), key_ok(st, c.self, K(st, c.self, v)))),
        ]

    def exc_slice(self, c):
        return self.unchanged(c) + [("slice", is_slice(c.pre, c.index_or_key))]

    def exc_index(self, c):
        n, el = view(c.pre, c.self)
        i = norm(idx_int(c.index_or_key), n)
        return self.unchanged(c) + [("oob", z3.And(is_index(c.index_or_key), z3.Or(i < 0, i >= n)))]

    def exc_key(self, c):
        ik = c.index_or_key
        return self.unchanged(c) + [("missing", z3.And(z3.Not(is_index(ik)), z3.Not(is_slice(c.pre, ik)),
                                                       z3.Not(has_key(c.pre, c.self, ik))))]

    def exc_dup(self, c):
        st = c.pre
        n, el = view(st, c.self)
        p = self.pos(c)
        return self.unchanged(c) + [
            ("dup", z3.And(has_key(st, c.self, K(st, c.self, c.value)),
                           kn(K(st, c.self, c.value)) != kn(K(st, c.self, z3.Select(el, p)))))]

    def exc_type(self, c):
        st = c.pre
        k = K(st, c.self, c.value)
        ik = c.index_or_key
        return self.unchanged(c) + [("why", z3.Or(
            KR(st, c.self, c.value), z3.Not(item_ok(st, c.self, c.value)), z3.Not(key_ok(st, c.self, k)),
            z3.Not(hashable(k)), z3.And(z3.Not(is_index(ik)), z3.Not(hashable(ik)))))]

    def exc_keyfn(self, c):
        return self.unchanged(c) + [("why", KR(c.pre, c.self, c.value))]


def mem_spec(st, self, v):
    """x in l  <=>  x is (equal to) an item, or x is a key"""
    n, el = view(st, self)
    j = z3.Int("j!mem")
    return z3.Or(z3.And(hashable(v), has_key(st, self, v)),
                 z3.Exists([j], z3.And(j >= 0, j < n, kn(z3.Select(el, j)) == kn(v))))


@register
class Contains(KLBase):
    qual = KL + ".__contains__"

    def modifies(self, c):
        return []

    def post(self, c):
        return [("bool", is_bool(c.res)), ("mem", b_of(c.res) == mem_spec(c.pre, c.self, c.value))]


@register
class SeqContains(KLBase):
    """Sequence.__contains__ as inherited by KeyedList: linear scan for an identical or equal item"""
    qual = "_collections_abc:Sequence.__contains__"

    def modifies(self, c):
        return []

    def post(self, c):
        n, el = view(c.pre, c.self)
        j = z3.Int("j!sc")
        return [("bool", is_bool(c.res)),
                ("scan", b_of(c.res) == z3.Exists([j], z3.And(j >= 0, j < n, kn(z3.Select(el, j)) == kn(c.value))))]

    def inv0(lc, st, i):
        self_, value = lc.args["self"], lc.args["value"]
        n, el = view(lc.pre, self_)
        j = z3.Int("j!sci")
        return [("scanned", z3.ForAll([j], z3.Implies(z3.And(j >= 0, j < i), kn(z3.Select(el, j)) != kn(value))))]
    loops = {0: LoopSpec(inv0)}


@register
class SeqIterAssumed(KLBase):
    """Sequence.__iter__ (a generator): yields self[0], self[1], ... until IndexError.
    ASSUMED (generators are outside the subset); bounded stand-in in bounded/c13.py."""
    qual = "_collections_abc:Sequence.__iter__"
    assumed = True
    reason = "generator; contract 'yields the view in order' checked by the bounded stand-in (n <= 5)"


def iter_hook(eng, st, v, fx):
    """for x in <KeyedList>: the items of the view, in order (contract of Sequence.__iter__)"""
    if not is_val(v):
        return None
    if eng.static_class(st, v) != "KeyedList":
        return None
    L = lst(st, v)
    n, el = st.get("llen", L), st.get("lelem", L)
    p = PSeq(n, lambda s, k, el=el: z3.Select(el, k), "KeyedList view")
    p.arr = el
    eng.stats["assumed"].add("_collections_abc:Sequence.__iter__")
    return [Res("ok", st, p)]


def truthy_hook(eng, st, a, c):
    if "KeyedList" in CLS.ids:
        lv = z3.Select(st.get("idict", a), STR.sid("_list"))
        return z3.If(z3.And(c == CLS.cid("KeyedList"), is_ref(lv)), st.get("llen", a_of(lv)) > 0, utruthy(a))
    return None


_old_install = install_hooks


def install_hooks(models):
    _old_install(models)
    models.iter_hooks.append(iter_hook)
    models.truthy_hooks.append(truthy_hook)


@register
class Get(KLBase):
    qual = KL + ".get"
    raises = {"TypeError": "exc_unhashable"}

    def modifies(self, c):
        return []

    def post(self, c):
        st = c.pre
        n, el = view(st, c.self)
        w = wit(st, c.self)
        return [("scan", c.res == z3.If(has_key(st, c.self, c.key), z3.Select(el, z3.Select(w, kn(c.key))),
                                        c.eng.to_val(c.post, c.default))),
                ("hashable", hashable(c.key))]

    def exc_unhashable(self, c):
        return [("unhashable", z3.Not(hashable(c.key)))]


@register
class Append(KLBase):
    qual = "_collections_abc:MutableSequence.append"
    raises = {"ValueError": "exc_dup", "TypeError": "exc_type", "*": "exc_key"}

    def pre(self, c):
        return KLBase.pre(self, c) + [("value", z3.Not(is_absent(c.value)))]

    def post(self, c):
        n, el = view(c.pre, c.self)
        n2, el2 = view(c.post, c.self)
        v = c.value
        w = wit(c.pre, c.self)
        newk = kn(K(c.pre, c.self, v))
        set_wit(c.post, c.self, lambda k: z3.If(k == newk, n, z3.Select(w, k)))
        return self.wf_post(c) + [("model", seq_eq(n2, el2, n + 1, lambda j: z3.If(j < n, z3.Select(el, j), v)))]

    exc_dup = Insert.exc_dup
    exc_type = Insert.exc_type
    exc_key = Insert.exc_key


@register
class Pop(KLBase):
    qual = "_collections_abc:MutableSequence.pop"
    raises = {"IndexError": "exc_index"}

    def pre(self, c):
        return KLBase.pre(self, c) + [("index-int", is_index(c.index))]

    def post(self, c):
        st = c.pre
        n, el = view(st, c.self)
        n2, el2 = view(c.post, c.self)
        w = wit(st, c.self)
        p = norm(idx_int(c.index), n)
        set_wit(c.post, c.self, lambda k: z3.If(z3.Select(w, k) < p, z3.Select(w, k), z3.Select(w, k) - 1))
        return self.wf_post(c) + [
            ("pos", z3.And(p >= 0, p < n)), ("value", c.res == z3.Select(el, p)),
            ("model", seq_eq(n2, el2, n - 1, lambda j: z3.If(j < p, z3.Select(el, j), z3.Select(el, j + 1))))]

    def exc_index(self, c):
        n, el = view(c.pre, c.self)
        i = norm(idx_int(c.index), n)
        return self.unchanged(c) + [("oob", z3.Or(i < 0, i >= n))]


def iterated(c, v):
    """the finite sequence obtained by iterating argument v in the pre-state: (n, arr)"""
    n, arr = seqof(c.pre, v)
    if c.side == "verify" and is_val(v):
        key = ("iterated", v.sexpr())
        if key in c.ghost:
            return c.ghost[key]
        for src, p in reversed(c.post.ghost.get("iterplans", ())):
            if is_val(src) and src.eq(v) and hasattr(p, "arr"):
                c.lemma(c.post, "iter-link", z3.And(p.n == n, p.arr == arr))
                c.ghost[key] = (p.n, p.arr)
                return p.n, p.arr
    return n, arr


def not_unordered(st, v):
    """contract scope: the iterable handed in is not a dict/set (their iteration order is not modelled)"""
    cl = st.get("cls_of", a_of(v))
    return z3.Not(z3.And(is_ref(v), z3.Or(subcls(cl, CLS.cid("dict")), subcls(cl, CLS.cid("set")))))


def dup_in(st, kf, n, arr, extra_has=None):
    """some two of the n items share a key (or one has a key already present)"""
    i, j = z3.Int("i!du"), z3.Int("j!du")
    alts = [z3.Exists([i, j], z3.And(i >= 0, i < j, j < n,
                                     kn(kappa(kf, z3.Select(arr, i))) == kn(kappa(kf, z3.Select(arr, j)))))]
    if extra_has is not None:
        alts.append(z3.Exists([i], z3.And(i >= 0, i < n, z3.Select(extra_has, kn(kappa(kf, z3.Select(arr, i)))))))
    return z3.Or(*alts)


@register
class Init(Contract):
    """KeyedList(sequence, key): the items of `sequence` in order, keyed by `key`;
    duplicate keys -> ValueError."""
    qual = KL + ".__init__"
    recv = KL
    raises = {"ValueError": "exc_dup", "TypeError": "exc_type", "*": "exc_other"}

    def setup(self, c):
        st = c.pre
        st.assume(z3.Not(has_args(CLS.val("KeyedList"))))
        for g in exact_class_facts(st, c.sequence):
            st.assume(g)

    def items(self, c):
        """`sequence or []`"""
        n, arr = iterated(c, c.sequence)
        return z3.If(c.eng.truthy(c.pre, c.sequence), n, 0), arr

    def pre(self, c):
        a = a_of(c.self)
        return [("self", z3.And(is_ref(c.self), c.pre.get("cls_of", a) == KLIST())),
                ("ordered", not_unordered(c.pre, c.sequence)),
                ("new", c.sequence != c.self)]

    def modifies(self, c):
        return [a_of(c.self)]

    def post(self, c):
        st = c.post
        key = c.key
        n, arr = self.items(c)
        n2, el2 = view(st, c.self)
        if c.side == "verify":
            # ghost witness: position of each key = the index of the item that carries it (from the loop invariant)
            pass
        out = [("wf.%d" % i, g) for i, g in enumerate(wf_list(st, c.self))]
        out += [("key", keyfn(st, c.self) == key),
                ("type", typ(st, c.self) == CLS.val("KeyedList")),
                ("owned", z3.And(lst(st, c.self) >= c.pre.alloc, dct(st, c.self) >= c.pre.alloc)),
                ("view", seq_eq(n2, el2, n, lambda j: z3.Select(arr, j)))]
        return out

    def exc_dup(self, c):
        key = c.key
        n, arr = self.items(c)
        return [("dup", dup_in(c.post, key, n, arr))]

    def exc_type(self, c):
        key = c.key
        n, arr = self.items(c)
        i = z3.Int("i!et")
        return [("why", z3.Exists([i], z3.And(i >= 0, i < n, z3.Or(
            kappa_raises(key, z3.Select(arr, i)), z3.Not(hashable(kappa(key, z3.Select(arr, i))))))))]

    def exc_other(self, c):
        key = c.key
        n, arr = self.items(c)
        i = z3.Int("i!eo")
        return [("keyfn", z3.Exists([i], z3.And(i >= 0, i < n, kappa_raises(key, z3.Select(arr, i)))))]

    def inv0(lc, st, i):
        self_ = lc.args["self"]
        key = lc.args["key"]
        p = lc.plan
        n2, el2 = view(st, self_)
        out = [("wf.%d" % k, g) for k, g in enumerate(wf_list(st, self_))]
        out += [("key", keyfn(st, self_) == key), ("type", typ(st, self_) == CLS.val("KeyedList")),
                ("owned", z3.And(lst(st, self_) >= lc.entry.pre.alloc, dct(st, self_) >= lc.entry.pre.alloc,
                                 lst(st, self_) == lst(lc.pre, self_), dct(st, self_) == dct(lc.pre, self_))),
                ("view", seq_eq(n2, el2, i, lambda j: z3.Select(p.arr, j)))]
        return out

    def mod0(lc, pre):
        self_ = lc.args["self"]
        return [lst(pre, self_), dct(pre, self_)]
    loops = {0: LoopSpec(inv0, mod0)}


def exact_class_facts(st, v):
    """A-LOOKUP: KeyedList / list are not subclassed by the objects handed to the container"""
    c = st.get("cls_of", a_of(v))
    out = [z3.Implies(subcls(c, CLS.cid("list")), c == CLS.cid("list")),
           z3.Implies(subcls(c, CLS.cid("tuple")), c == CLS.cid("tuple"))]
    if "KeyedList" in CLS.ids:
        out.append(z3.Implies(subcls(c, KLIST()), c == KLIST()))
    return out


def list_eq(n1, e1, n2, e2):
    j = z3.Int("j!le")
    return z3.And(n1 == n2, z3.ForAll([j], z3.Implies(z3.And(j >= 0, j < n1),
                                                      kn(z3.Select(e1, j)) == kn(z3.Select(e2, j)))))


def list_eq_hook(eng, st, a, b, fx):
    """list == list: same length and pairwise equal elements"""
    if eng.static_class(st, a) == "list" and eng.static_class(st, b) == "list":
        A, Bq = a_of(a), a_of(b)
        t = fresh("leq", B)
        st.assume(t == list_eq(st.get("llen", A), st.get("lelem", A), st.get("llen", Bq), st.get("lelem", Bq)))
        return [Res("ok", st, vbool(t))]
    return None


@register
class Eq(KLBase):
    """l == other: plain-list equality of the views (KeyedList or list operand), else NotImplemented"""
    qual = KL + ".__eq__"

    def modifies(self, c):
        return []

    def setup(self, c):
        st = c.pre
        for g in exact_class_facts(st, c.other):
            st.assume(g)
        o = c.other
        isk = z3.And(is_ref(o), st.get("cls_of", a_of(o)) == KLIST())
        for g in wf_list(st, o):
            st.assume(z3.Implies(isk, g))

    def post(self, c):
        st = c.pre
        o = c.other
        n, el = view(st, c.self)
        co = st.get("cls_of", a_of(o))
        isk = z3.And(is_ref(o), co == KLIST())
        isl = z3.And(is_ref(o), co == CLS.cid("list"))
        on, oel = view(st, o)
        return [("klist", z3.Implies(isk, z3.And(is_bool(c.res), b_of(c.res) == list_eq(n, el, on, oel)))),
                ("list", z3.Implies(isl, z3.And(is_bool(c.res), b_of(c.res) == list_eq(
                    n, el, st.get("llen", a_of(o)), st.get("lelem", a_of(o)))))),
                ("other", z3.Implies(z3.Not(z3.Or(isk, isl)), c.res == NOTIMPL))]


class ConcatBase(KLBase):
    """l + other / other + l: a new KeyedList with the same key function holding the concatenation
    (duplicate key -> ValueError); operands untouched; non-sequences -> NotImplemented."""
    raises = {"ValueError": "exc_dup", "TypeError": "exc_type", "*": "exc_other"}
    left = True

    def modifies(self, c):
        return []

    def setup(self, c):
        for g in exact_class_facts(c.pre, c.other):
            c.pre.assume(g)
        c.pre.assume(z3.Not(has_args(CLS.val("KeyedList"))))

    def pre(self, c):
        return KLBase.pre(self, c) + [("ordered", not_unordered(c.pre, c.other))]

    def is_seq(self, c):
        return c.eng.models.isinstance_(c.eng, c.pre, c.other, c.eng.pclass("Sequence", c.eng.class_info("Sequence")))

    def parts(self, c):
        n, el = view(c.pre, c.self)
        m, arr = iterated(c, c.other)
        if self.left:
            return n + m, (lambda j: z3.If(j < n, z3.Select(el, j), z3.Select(arr, j - n))), m, arr
        return n + m, (lambda j: z3.If(j < m, z3.Select(arr, j), z3.Select(el, j - m))), m, arr

    def post(self, c):
        seq = self.is_seq(c)
        out = [("notseq", z3.Implies(z3.Not(seq), c.res == NOTIMPL))]
        tot, f, m, arr = self.parts(c)
        for nm, g in new_klist(c, c.res, tot, f):
            out.append(("concat." + nm, z3.Implies(seq, g)))
        return out + self.unchanged(c)

    def exc_dup(self, c):
        tot, f, m, arr = self.parts(c)
        has = c.pre.get("dhas", dct(c.pre, c.self))
        return [("dup", dup_in(c.pre, keyfn(c.pre, c.self), m, arr, has))] + self.unchanged(c)

    def exc_type(self, c):
        tot, f, m, arr = self.parts(c)
        kf = keyfn(c.pre, c.self)
        i = z3.Int("i!ct")
        return [("why", z3.Exists([i], z3.And(i >= 0, i < m, z3.Or(
            kappa_raises(kf, z3.Select(arr, i)), z3.Not(hashable(kappa(kf, z3.Select(arr, i))))))))] + self.unchanged(c)

    def exc_other(self, c):
        tot, f, m, arr = self.parts(c)
        kf = keyfn(c.pre, c.self)
        i = z3.Int("i!co")
        return [("keyfn", z3.Exists([i], z3.And(i >= 0, i < m, kappa_raises(kf, z3.Select(arr, i)))))] + self.unchanged(c)


@register
class Add(ConcatBase):
    qual = KL + ".__add__"
    left = True


@register
class Radd(ConcatBase):
    qual = KL + ".__radd__"
    left = False


@register
class Reverse(KLBase):
    qual = KL + ".reverse"

    def post(self, c):
        n, el = view(c.pre, c.self)
        n2, el2 = view(c.post, c.self)
        w = wit(c.pre, c.self)
        set_wit(c.post, c.self, lambda k: n - 1 - z3.Select(w, k))
        return self.wf_post(c) + [("model", seq_eq(n2, el2, n, lambda j: z3.Select(el, n - 1 - j)))]


@register
class Extend(KLBase):
    """l.extend(items) == list.extend; a duplicate key or ill-typed item anywhere -> exception and the
    container is exactly as before (all-or-nothing)."""
    qual = KL + ".extend"
    raises = {"ValueError": "exc_dup", "TypeError": "exc_type", "*": "exc_other"}

    def setup(self, c):
        for g in exact_class_facts(c.pre, c.values):
            c.pre.assume(g)

    def pre(self, c):
        return KLBase.pre(self, c) + [("ordered", not_unordered(c.pre, c.values))]

    def post(self, c):
        n, el = view(c.pre, c.self)
        n2, el2 = view(c.post, c.self)
        m, arr = iterated(c, c.values)
        if c.side == "verify":
            # ghost: a new key's witness is n + (its position among the new items), kept by the loop ghost
            w = wit(c.pre, c.self)
            has = c.pre.get("dhas", dct(c.pre, c.self))
            nk = c.post.ghost.get("extend_newkeys")
            if nk is not None:
                kq = z3.Const("k!dj", Val)
                c.lemma(c.post, "disjoint", z3.ForAll([kq], z3.Not(z3.And(z3.Select(has, kq),
                                                                       z3.Select(c.post.get("dhas", nk), kq)))))
                wn = c.post.get("gwit", nk)
                set_wit(c.post, c.self, lambda k: z3.If(z3.Select(has, k), z3.Select(w, k), n + z3.Select(wn, k)))
        return self.wf_post(c) + [("model", seq_eq(n2, el2, n + m, lambda j: z3.If(j < n, z3.Select(el, j),
                                                                                  z3.Select(arr, j - n))))]

    def exc_dup(self, c):
        m, arr = iterated(c, c.values)
        has = c.pre.get("dhas", dct(c.pre, c.self))
        return self.unchanged(c) + [("dup", dup_in(c.pre, keyfn(c.pre, c.self), m, arr, has))]

    def exc_type(self, c):
        m, arr = iterated(c, c.values)
        kf = keyfn(c.pre, c.self)
        i = z3.Int("i!xt")
        x = z3.Select(arr, i)
        return self.unchanged(c) + [("why", z3.Exists([i], z3.And(i >= 0, i < m, z3.Or(
            kappa_raises(kf, x), z3.Not(hashable(kappa(kf, x))), z3.Not(item_ok(c.pre, c.self, x)),
            z3.Not(key_ok(c.pre, c.self, kappa(kf, x)))))))]

    def exc_other(self, c):
        m, arr = iterated(c, c.values)
        kf = keyfn(c.pre, c.self)
        i = z3.Int("i!xo")
        return self.unchanged(c) + [("keyfn", z3.Exists([i], z3.And(i >= 0, i < m, kappa_raises(kf, z3.Select(arr, i)))))]

    def inv0(lc, st, i):
        self_ = lc.args["self"]
        p = lc.plan
        pre = lc.entry.pre
        kf = keyfn(pre, self_)
        ni, nk = st.env["new_items"], st.env["new_keys"]
        A, Dn = a_of(ni), a_of(nk)
        has0 = pre.get("dhas", dct(pre, self_))
        hasn, dvn, wn = (named(st, st.get("dhas", Dn), "hasn"), named(st, st.get("dval", Dn), "dvn"),
                         named(st, st.get("gwit", Dn), "wn"))
        j, j2 = z3.Int("j!xi"), z3.Int("j2!xi")
        k = z3.Const("k!xi", Val)
        x = z3.Select(p.arr, j)
        kx = kn(kappa(kf, x))
        st.ghost = dict(st.ghost)
        st.ghost["extend_newkeys"] = Dn
        return [
            ("locals", z3.And(is_ref(ni), is_ref(nk), st.get("cls_of", A) == CLS.cid("list"),
                              st.get("cls_of", Dn) == CLS.cid("dict"), A >= pre.alloc, Dn >= pre.alloc, A != Dn,
                              ni == lc.pre.env["new_items"], nk == lc.pre.env["new_keys"])),
            ("items", seq_eq(st.get("llen", A), st.get("lelem", A), i, lambda q: z3.Select(p.arr, q))),
            ("size", st.get("dsize", Dn) == i),
            ("staged", z3.ForAll([j], z3.Implies(z3.And(j >= 0, j < i), z3.And(
                z3.Not(is_absent(x)), z3.Not(kappa_raises(kf, x)), hashable(kappa(kf, x)), z3.Select(hasn, kx),
                z3.Select(dvn, kx) == x, z3.Not(z3.Select(has0, kx)),
                item_ok(pre, self_, x), key_ok(pre, self_, kappa(kf, x)))), patterns=[x])),
            ("distinct", z3.ForAll([j, j2], z3.Implies(z3.And(j >= 0, j < j2, j2 < i),
                                                       kx != kn(kappa(kf, z3.Select(p.arr, j2)))))),
            ("onlystaged", z3.ForAll([k], z3.Implies(z3.Select(hasn, k), z3.And(
                z3.Select(wn, k) >= 0, z3.Select(wn, k) < i,
                kn(kappa(kf, z3.Select(p.arr, z3.Select(wn, k)))) == k)), patterns=[z3.Select(hasn, k)])),
        ] + [("self.%d" % q, g) for q, g in enumerate(unchanged_list(pre, st, self_))]

    def mod0(lc, pre):
        return [a_of(pre.env["new_items"]), a_of(pre.env["new_keys"])]

    def ghost0(lc, st, i):
        self_ = lc.args["self"]
        kf = keyfn(lc.entry.pre, self_)
        Dn = a_of(st.env["new_keys"])
        w = st.get("gwit", Dn)
        newk = kn(kappa(kf, lc.plan.at(st, i)))
        k = z3.Const("k!xg", Val)
        st.put("gwit", Dn, z3.Lambda([k], z3.If(k == newk, i, z3.Select(w, k))))
    loops = {0: LoopSpec(inv0, mod0, ghost_step=ghost0)}


@register
class Iadd(KLBase):
    qual = "_collections_abc:MutableSequence.__iadd__"
    raises = Extend.raises
    setup = Extend.setup
    pre = Extend.pre

    def post(self, c):
        n, el = view(c.pre, c.self)
        n2, el2 = view(c.post, c.self)
        m, arr = iterated(c, c.values)
        return self.wf_post(c) + [("self", c.res == c.self),
                                  ("model", seq_eq(n2, el2, n + m, lambda j: z3.If(j < n, z3.Select(el, j),
                                                                                  z3.Select(arr, j - n))))]
    exc_dup = Extend.exc_dup
    exc_type = Extend.exc_type
    exc_other = Extend.exc_other


@register
class Index(KLBase):
    """Sequence.index(value) as inherited: first position of an identical-or-equal item (from 0)"""
    qual = "_collections_abc:Sequence.index"
    raises = {"ValueError": "exc_missing"}

    def modifies(self, c):
        return []

    def pre(self, c):
        return KLBase.pre(self, c) + [("defaults", z3.And(c.start == vint(0), is_none(c.stop)))]

    def post(self, c):
        n, el = view(c.pre, c.self)
        j = z3.Int("j!ix")
        i = i_of(c.res)
        return [("int", is_int(c.res)), ("range", z3.And(i >= 0, i < n)),
                ("hit", kn(z3.Select(el, i)) == kn(c.value)),
                ("first", z3.ForAll([j], z3.Implies(z3.And(j >= 0, j < i), kn(z3.Select(el, j)) != kn(c.value))))]

    def exc_missing(self, c):
        n, el = view(c.pre, c.self)
        j = z3.Int("j!ixm")
        return [("none", z3.ForAll([j], z3.Implies(z3.And(j >= 0, j < n), kn(z3.Select(el, j)) != kn(c.value))))]

    def inv0(lc, st, k):
        self_, value = lc.args["self"], lc.args["value"]
        n, el = view(lc.pre, self_)
        i = st.env["i"]
        j = z3.Int("j!ixi")
        return [("i", z3.And(is_int(i), i_of(i) >= 0, i_of(i) <= n)),
                ("stop", st.env["stop"] == lc.pre.env["stop"]),
                ("scanned", z3.ForAll([j], z3.Implies(z3.And(j >= 0, j < i_of(i)), kn(z3.Select(el, j)) != kn(value))))]

    def var0(lc, st):
        self_ = lc.args["self"]
        n, el = view(lc.pre, self_)
        return n - i_of(st.env["i"]) + 1
    loops = {0: LoopSpec(inv0, variant=var0)}


@register
class Remove(KLBase):
    """l.remove(x): delete the first identical-or-equal item, ValueError if none"""
    qual = "_collections_abc:MutableSequence.remove"
    raises = {"ValueError": "exc_missing"}

    def post(self, c):
        n, el = view(c.pre, c.self)
        n2, el2 = view(c.post, c.self)
        w = wit(c.pre, c.self)
        p = fresh("rmpos", I) if c.side == "apply" else c.post.ghost.get("remove_pos")
        j = z3.Int("j!rm")
        if c.side == "verify":
            # the position is the one returned by index(); recover it from the length change witness
            p = z3.Int("rm!p")
        first = z3.And(p >= 0, p < n, kn(z3.Select(el, p)) == kn(c.value),
                       z3.ForAll([j], z3.Implies(z3.And(j >= 0, j < p), kn(z3.Select(el, j)) != kn(c.value))))
        if c.side == "apply":
            set_wit(c.post, c.self, lambda k: z3.If(z3.Select(w, k) < p, z3.Select(w, k), z3.Select(w, k) - 1))
            return self.wf_post(c) + [("first", first),
                                      ("model", seq_eq(n2, el2, n - 1, lambda q: z3.If(q < p, z3.Select(el, q), z3.Select(el, q + 1))))]
        goal = z3.Exists([p], z3.And(first, seq_eq(n2, el2, n - 1, lambda q: z3.If(q < p, z3.Select(el, q), z3.Select(el, q + 1)))))
        return self.wf_post(c) + [("model", goal)]

    exc_missing = Index.exc_missing

    def unchanged_exc(self, c):
        return self.unchanged(c)


@register
class Clear(KLBase):
    qual = "_collections_abc:MutableSequence.clear"

    def post(self, c):
        n2, el2 = view(c.post, c.self)
        return self.wf_post(c) + [("empty", n2 == 0)]

    def inv0(lc, st, k):
        self_ = lc.args["self"]
        pre = lc.entry.pre
        return [("wf.%d" % q, g) for q, g in enumerate(wf_list(st, self_))] + \
               [("config.%d" % q, g) for q, g in enumerate(same_config(pre, st, self_))] + \
               [("fields", z3.And(lst(st, self_) == lst(pre, self_), dct(st, self_) == dct(pre, self_)))]

    def mod0(lc, pre):
        self_ = lc.args["self"]
        return [lst(pre, self_), dct(pre, self_)]

    def var0(lc, st):
        return view(st, lc.args["self"])[0]
    loops = {0: LoopSpec(inv0, mod0, variant=var0)}


_old_install2 = install_hooks


def install_hooks(models):
    _old_install2(models)
    models.eq_hooks.append(list_eq_hook)
