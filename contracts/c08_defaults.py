"""Attr.lookup_default_value / Attr.default_value against their bodies: the "nearest default along the MRO".

Everywhere else the default a new instance of a class receives is the pair of uninterpreted symbols DV(attr record, class) /
NODEF(attr record, class) with the assumed contract LookupDefaultAssumed (spec_core.py).  Here that contract is discharged against
the code, with DV / NODEF *defined* by the walk the statement describes:

    walk the class's MRO; stop at the first class that is the record's owner or defines the name in its own namespace;
      owner          -> the record's own default (masked: none; default_factory: what it builds; else the declared default)
      defines name   -> that class attribute, unless it is a function or a data descriptor (then: none)
    no such class    -> none

and every value handed out is mutate-safe (a copy through protect_via_deepcopy, or freshly built by the factory).
Assumed: the MRO itself (`cls.mro()`: a list of classes starting with cls - MRO_N / MRO_AT), class namespaces as the `cdict`
component, inspect.isdatadescriptor as a property of the value's class, A-CTOR for default_factory(), A-COPY.
"""
import z3
from pyvc.vals import *
from pyvc.state import fresh
from pyvc.pvals import *
from pyvc.symex import Res, is_val
from pyvc.contracts import Contract, LoopSpec, register
from .spec_core import *
from . import spec_core as sc

ATTR = "spec_classes.types.attr:Attr"
MRO_N = z3.Function("mro_n", Val, I)                 # length of cls.mro()
MRO_AT = z3.Function("mro_at", Val, I, Val)          # its j-th class
DATADESC = z3.Function("is_data_descriptor_cls", I, B)
FACTORY_VALUE = z3.Function("factory_value", Val, Val)      # the value a default_factory builds (equal on every call: A-CB)


def mro_hook(eng, st, recv, pos, kw, fx):
    if is_val(recv) and not pos and eng.valid(st, is_cls(recv)):
        st = st.fork()
        n = MRO_N(recv)
        j = z3.Int("j!mro")
        arr = z3.Lambda([j], z3.If(z3.And(j >= 0, j < n), MRO_AT(recv, j), ABSENT))
        return [Res("ok", st, eng.alloc_list_sym(st, n, arr))]
    return None


def isdatadescriptor(eng, st, pos, kw, fx):
    v = eng.to_val(st, pos[0])
    return [Res("ok", st, vbool(z3.And(is_ref(v), DATADESC(st.get("cls_of", a_of(v))))))]


def class_getattr_dyn(eng, st, obj, name, dflt, fx):
    """getattr(cls, name) for a class value and a symbolic name: the class's own namespace entry when there is one (the only
    case the code under contract uses: it is guarded by `name in cls.__dict__`)"""
    if is_val(obj) and is_val(name) and eng.valid(st, is_cls(obj)):
        v = z3.Select(st.get("cdict", c_of(obj)), s_of(name))
        if eng.valid(st, z3.Not(is_absent(v))):
            return [Res("ok", st, v)]
    return None


def factory_hook(eng, st, f, pos, kw, fx):
    """default_factory(): A-CTOR - a new object (or an atom) equal to FACTORY_VALUE(factory) on every call"""
    if not (is_val(f) and st.ghost.get("c08_factory") is not None and f.eq(st.ghost["c08_factory"])) or pos or kw:
        return None
    st = st.fork()
    ok = st.fork()
    res = fresh("built")
    a = ok.new_addr()
    ok.assume(z3.Not(is_absent(res)), z3.Or(z3.Not(is_ref(res)), a_of(res) == a), deq(res, FACTORY_VALUE(f)))
    bad = st.fork()
    ec = fresh("factory_exc", I)
    bad.assume(subcls(ec, CLS.cid("Exception")), z3.Not(subcls(ec, CLS.cid("AttributeError"))))
    return [Res("ok", ok, res), Res("exc", bad, PExc(None, ec, [], "raised by the default factory"))]


def install_hooks(models):
    sc.install_hooks(models)
    models.method_hooks["mro"] = mro_hook
    models.builtin_hooks["inspect.isdatadescriptor"] = isdatadescriptor
    models.attr_hooks[("dynget", None)] = class_getattr_dyn
    models.method_hooks[("call_value",)] = factory_hook


def own_default(eng, st, a):
    """(there is none, its value) for the record's own declaration"""
    missing = sentinel(eng, st, "MISSING")
    fac = fld(st, a, "default_factory")
    has_fac = eng.truthy(st, fac)
    masked = eng.truthy(st, fld(st, a, "is_masked"))
    dv = z3.If(has_fac, FACTORY_VALUE(fac), fld(st, a, "default"))
    none = z3.Or(masked, z3.And(z3.Not(has_fac), fld(st, a, "default") == missing), z3.And(has_fac, FACTORY_VALUE(fac) == missing))
    return none, dv


def safe_value(eng, pre, post, res, dv):
    """res is a mutate-safe rendition of the default dv (the wording of LookupDefaultAssumed)"""
    return z3.And(z3.Not(is_absent(res)), deq(res, dv), z3.Implies(atomic(pre, dv), res == dv),
                  z3.Implies(z3.And(z3.Not(atomic(pre, dv)), z3.Not(leaf(pre, dv)), z3.Not(z3.And(is_spec(eng, pre, dv), dnc_class(eng, pre, dv)))),
                             z3.And(is_ref(res), a_of(res) >= pre.alloc, a_of(res) < post.alloc)),
                  z3.Implies(is_ref(res), a_of(res) < post.alloc))


class AttrBase(Contract):
    recv = ATTR

    def shape(self, c):
        eng, st, a = c.eng, c.pre, c.self
        st.assume(wf_attr(st, a), is_cls(fld(st, a, "owner")))
        fac = fld(st, a, "default_factory")
        # default_factory: MISSING (none) or a function
        st.assume(z3.Or(fac == sentinel(eng, st, "MISSING"), z3.And(is_ref(fac), st.get("cls_of", a_of(fac)) == cid("function"))))
        st.assume(deq(FACTORY_VALUE(fac), FACTORY_VALUE(fac)), z3.Not(is_absent(FACTORY_VALUE(fac))))
        d = fld(st, a, "default")
        st.assume(deq(d, d), z3.Implies(is_ref(d), z3.And(a_of(d) >= 0, a_of(d) < st.alloc)))
        # the sentinel objects are deep-equal to themselves only (A-COPY)
        p = z3.Const("p!sq", Val)
        for sn in ("MISSING", "EMPTY", "UNCHANGED"):
            sv_ = sentinel(eng, st, sn)
            st.assume(z3.ForAll([p], z3.Implies(deq(p, sv_), p == sv_), patterns=[deq(p, sv_)]),
                      z3.ForAll([p], z3.Implies(deq(sv_, p), p == sv_), patterns=[deq(sv_, p)]))
        q = z3.Const("q!sq", Val)
        # a copy of an object is an object; factories build data (not functions / modules)
        st.assume(z3.ForAll([p, q], z3.Implies(z3.And(deq(p, q), is_ref(q)), is_ref(p)), patterns=[deq(p, q)]))
        fv = FACTORY_VALUE(fac)
        st.assume(z3.Not(z3.And(is_ref(fv), z3.Or(st.get("cls_of", a_of(fv)) == cid("function"), st.get("cls_of", a_of(fv)) == cid("module")))))
        st.assume(z3.ForAll([p, q], z3.Implies(z3.And(deq(p, q), z3.Not(is_ref(q))), p == q), patterns=[deq(p, q)]))      # atoms: deep-equal = identical
        st.ghost = dict(st.ghost)
        st.ghost["c08_factory"] = fac


@register
class DefaultValue(AttrBase):
    """Attr.default_value (property): none when masked; what default_factory builds; else a mutate-safe copy of the declared default"""
    qual = ATTR + ".default_value"
    raises = {"*": "exc_any"}

    def finfo(self, ft):
        return ft.classes[ATTR].props["default_value"]["get"]

    def setup(self, c):
        self.shape(c)

    def modifies(self, c):
        return []

    def post(self, c):
        eng, st, a = c.eng, c.pre, c.self
        none, dv = own_default(eng, st, a)
        res = eng.to_val(c.post, c.res)
        missing = sentinel(eng, st, "MISSING")
        has_fac = eng.truthy(st, fld(st, a, "default_factory"))
        return [("c08.none", z3.Implies(none, z3.Or(res == missing, z3.And(has_fac, deq(res, missing))))),
                ("c08.value", z3.Implies(z3.Not(none), z3.And(deq(res, dv), z3.Not(is_absent(res)),
                                                              z3.Implies(has_fac, z3.Or(z3.Not(is_ref(res)), z3.And(a_of(res) >= st.alloc, a_of(res) < c.post.alloc))),
                                                              z3.Implies(z3.Not(has_fac), safe_value(eng, st, c.post, res, dv)))))]

    def exc_any(self, c):
        return not_attr_error(c)


def walk_terms(c):
    """the statement's walk as terms over the pre-state: (F, none, dv) with F the first MRO index that is the owner or defines the name"""
    eng, st, a = c.eng, c.pre, c.self
    k = eng.to_val(st, c.spec_cls)
    name = fld(st, a, "name")
    owner = fld(st, a, "owner")
    n = MRO_N(k)

    def ns(j):
        return z3.Select(st.get("cdict", c_of(MRO_AT(k, j))), s_of(name))

    def hit(j):
        return z3.Or(MRO_AT(k, j) == owner, z3.Not(is_absent(ns(j))))
    return k, n, ns, hit, owner


@register
class LookupDefault(AttrBase):
    """Attr.lookup_default_value(spec_cls): the contract LookupDefaultAssumed, discharged against the body with DV / NODEF defined by
    the MRO walk"""
    qual = ATTR + ".lookup_default_value"
    raises = {"*": "exc_any"}

    def setup(self, c):
        self.shape(c)
        eng, st, a = c.eng, c.pre, c.self
        st.assume(is_cls(c.spec_cls))
        k, n, ns, hit, owner = walk_terms(c)
        j = z3.Int("j!ld")
        F = fresh("first", I)
        self.F = F
        # the MRO: a non-empty list of classes starting with the class itself
        st.assume(n >= 1, MRO_AT(k, 0) == k, z3.ForAll([j], z3.Implies(z3.And(j >= 0, j < n), is_cls(MRO_AT(k, j))), patterns=[MRO_AT(k, j)]))
        # F: the first index that is the owner or defines the name (n when there is none)
        st.assume(F >= 0, F <= n, z3.ForAll([j], z3.Implies(z3.And(j >= 0, j < F), z3.Not(hit(j))), patterns=[MRO_AT(k, j)]),
                  z3.Implies(F < n, hit(F)))
        missing = sentinel(eng, st, "MISSING")
        raw = ns(F)
        at_owner = MRO_AT(k, F) == owner
        own_none, own_dv = own_default(eng, st, a)
        masked = z3.Or(z3.And(is_ref(raw), st.get("cls_of", a_of(raw)) == cid("function")),
                       z3.And(is_ref(raw), DATADESC(st.get("cls_of", a_of(raw)))), raw == missing)
        none = z3.If(F >= n, True, z3.If(at_owner, own_none, masked))
        dv = z3.If(at_owner, own_dv, raw)
        # DEFINITION of the two symbols the rest of the proofs use
        st.assume(NODEF(a, k) == none, z3.Implies(z3.Not(none), DV(a, k) == dv))
        # class-level values: allocated objects of their own, equal to themselves, never the call-protocol sentinels
        st.assume(z3.Implies(is_ref(raw), z3.And(a_of(raw) >= 0, a_of(raw) < st.alloc)), deq(raw, raw),
                  raw != CLS.val("EMPTY"), raw != CLS.val("UNCHANGED"))
        none_o, dv_o = own_default(eng, st, a)
        st.assume(z3.Implies(z3.Not(none_o), z3.Not(is_sentinel(eng, st, dv_o))))

    def modifies(self, c):
        return []

    def post(self, c):
        # word for word the clauses its callers assume (LookupDefaultAssumed.post)
        return [("c08." + n, g) for n, g in LookupDefaultAssumed.post(self, c)]

    def exc_any(self, c):
        return not_attr_error(c)

    def inv0(lc, st, i):
        c = lc.entry
        k, n, ns, hit, owner = walk_terms(c)
        F = c.con.F
        return [("before-first", i <= F),
                # ground instance for the class visited next
                ("next-class", z3.Implies(z3.And(i >= 0, i < n), is_cls(MRO_AT(k, i))))]
    loops = {0: LoopSpec(inv0, None)}
