"""C16 - decoration never replaces user code: spec_class.register_method.

register_method(spec_cls, name, method) is the only place where generated helpers are attached to the decorated class.  It is
proved, for every class, name and method object, to leave the class's own namespace untouched when the name is already defined
there (unless the name is one of the library's __spec_class* slots), and otherwise to define exactly that one name.
Which helpers are offered to register_method (helper set per attribute kind, singular naming via the `inflect` library, collision
fallback) and the lazy method descriptors are class-level reflection: bounded stand-in.
"""
import z3
from pyvc.vals import *
from pyvc.state import fresh
from pyvc.pvals import *
from pyvc.symex import Res, is_val
from pyvc.contracts import Contract, register

SC = "spec_classes.spec_class:spec_class"
starts_spec = z3.Function("starts_with___spec_class", I, B)


def startswith_hook(eng, st, recv, pos, kw, fx):
    if is_val(recv) and len(pos) == 1:
        return [Res("ok", st, vbool(starts_spec(s_of(recv))))]
    return None


def install_hooks(models):
    models.method_hooks["startswith"] = startswith_hook


@register
class RegisterMethod(Contract):
    """spec_class.register_method(spec_cls, name, method)"""
    qual = SC + ".register_method"
    raises = {"*": "exc_any"}

    def setup(self, c):
        st = c.pre
        st.assume(is_cls(c.spec_cls), is_str(c.name), z3.Not(is_absent(c.method)))

    def ns(self, st, c):
        return st.get("cdict", c_of(c.spec_cls))

    def post(self, c):
        st = c.pre
        d0, d1 = self.ns(st, c), self.ns(c.post, c)
        nm = s_of(c.name)
        s = z3.Int("s!rm")
        present = z3.Not(is_absent(z3.Select(d0, nm)))
        keep = z3.And(present, z3.Not(starts_spec(nm)))
        others = z3.ForAll([s], z3.Implies(s != nm, z3.Select(d1, s) == z3.Select(d0, s)))
        k = z3.Int("c!rm")
        return [("c16.user-code-kept", z3.Implies(keep, z3.Select(d1, nm) == z3.Select(d0, nm))),
                ("c16.defined", z3.Implies(z3.Not(keep), z3.Select(d1, nm) == c.method)),
                ("c16.others", others),
                ("c16.other-classes", z3.ForAll([k], z3.Implies(k != c_of(c.spec_cls), z3.Select(c.post.heap["cdict"], k) == z3.Select(st.heap["cdict"], k))))]

    def exc_any(self, c):
        # a __set_name__ hook raised: nothing has been defined yet
        st = c.pre
        return [("c16.unchanged", c.post.heap["cdict"] == st.heap["cdict"])]
