"""C06 - element helpers edit list/dict/set attributes like the plain container operation.

The mutator classes (spec_classes/collections/{base,sequences,mappings,sets}.py) are verified against the plain
Python container operation on the abstract content of `self.collection`:
  _extractor : where the addressed element is (a pure lookup),
  _inserter  : append / insert / replace (list), assign key (dict), add (set) - after the element type check,
  add_item / transform_item / remove_item : exactly the addressed position changes, every other element and the order
               of the others are as before; the element stored conforms to the declared element type; a missing target
               raises IndexError / KeyError / ValueError with the collection unchanged.
_mutate_collection (generic in its extractor / inserter callables) is inlined into its three callers; mutate_value is
used through its contract (spec_value.py): it writes to nothing that existed before, so the old element and the
argument are untouched.
Scope: the collection is a built-in list / dict / set (typed containers such as KeyedList go through C13/C14).
"""
import z3
from pyvc.vals import *
from pyvc.state import fresh
from pyvc.pvals import *
from pyvc.symex import Res, is_val, APP
from pyvc.contracts import Contract, LoopSpec, register
from .spec_value import *
from . import spec_value as sv

SEQ = "spec_classes.collections.sequences:SequenceMutator"
MAPM = "spec_classes.collections.mappings:MappingMutator"
SETM = "spec_classes.collections.sets:SetMutator"
BASE = "spec_classes.collections.base:CollectionAttrMutator"


def install_hooks(models):
    sv.install_hooks(models)


def missing(c):
    return sentinel(c.eng, c.pre, "MISSING")


def coll(st, m):
    return fld(st, m, "collection")


def item_type(st, m):
    return fld(st, fld(st, m, "attr_spec"), "item_type")


def norm(i, n):
    return z3.If(i < 0, i + n, i)


def as_index(v):
    """the integer a list index stands for (bool counts as int)"""
    return z3.If(is_bool(v), z3.If(b_of(v), 1, 0), i_of(v))


def is_index(v):
    return z3.Or(is_int(v), is_bool(v))


class MutatorBase(Contract):
    """shape of a mutator object (A-META for the Attr record's cached element fields)"""
    kind = "list"

    def shape(self, c, m=None):
        eng, st = c.eng, c.pre
        m = c.self if m is None else m
        a = fld(st, m, "attr_spec")
        col = coll(st, m)
        st.assume(is_ref(a), wf_attr(st, a), a_of(a) != a_of(m))
        for f in ("item_type", "item_constructor", "item_spec_key_type", "item_spec_type", "qualified_name", "type"):
            st.assume(z3.Not(is_absent(fld(st, a, f))))
        mv = sv.REG_MV()
        st.assume(mv.annotation(st, fld(st, a, "item_type")), mv.callable_or_none(st, fld(st, a, "item_constructor")),
                  mv.callable_or_none(st, fld(st, a, "prepare_item")), is_str(fld(st, a, "qualified_name")))
        st.assume(z3.Not(is_absent(fld(st, m, "instance"))), z3.Not(is_absent(col)))
        # the collection: not there yet (MISSING) or a built-in container of the family, an object of its own
        A = a_of(col)
        st.assume(z3.Or(col == missing(c), z3.And(is_ref(col), st.get("cls_of", A) == cid(self.kind), A >= 1000, A < st.alloc,
                                                  A != a_of(m), A != a_of(a))))
        if self.kind == "list":
            st.assume(st.get("llen", A) >= 0)
            j = z3.Int("j!sh")
            el = st.get("lelem", A)
            st.assume(z3.ForAll([j], z3.Implies(z3.And(j >= 0, j < st.get("llen", A)), z3.Not(is_absent(z3.Select(el, j)))),
                                patterns=[z3.Select(el, j)]))
        else:
            st.assume(st.get("dsize", A) >= 0)

    def view(self, st, m):
        A = a_of(coll(st, m))
        return st.get("llen", A), st.get("lelem", A)

    def same_list(self, pre, post, m):
        n0, e0 = self.view(pre, m)
        n1, e1 = self.view(post, m)
        j = z3.Int("j!sl")
        return z3.And(coll(post, m) == coll(pre, m), n1 == n0,
                      z3.ForAll([j], z3.Implies(z3.And(j >= 0, j < n0), z3.Select(e1, j) == z3.Select(e0, j))))


# ------------------------------------------------------------------------------------------------
# sequences
# ------------------------------------------------------------------------------------------------
def first_index(n, e, x, idx):
    """idx is the position of the first element equal to x (None when there is none)"""
    j = z3.Int("j!fi")
    none = z3.ForAll([j], z3.Implies(z3.And(j >= 0, j < n), z3.Not(py_eq(z3.Select(e, j), x))))
    p = i_of(idx)
    hit = z3.And(is_int(idx), p >= 0, p < n, py_eq(z3.Select(e, p), x),
                 z3.ForAll([j], z3.Implies(z3.And(j >= 0, j < p), z3.Not(py_eq(z3.Select(e, j), x)))))
    return z3.If(is_none(idx), none, hit)


@register
class SeqExtractor(MutatorBase):
    """SequenceMutator._extractor(value_or_index, raise_if_missing, by_index) -> (index, item): a pure lookup"""
    qual = SEQ + "._extractor"
    recv = SEQ
    raises = {"IndexError": "exc_index", "ValueError": "exc_value", "*": "exc_other"}

    def setup(self, c):
        self.shape(c)
        st = c.pre
        st.assume(is_bool(c.raise_if_missing), z3.Or(c.by_index == missing(c), is_bool(c.by_index)))
        v = c.value_or_index
        st.assume(z3.Not(z3.And(is_ref(v), subcls(st.get("cls_of", a_of(v)), cid("slice")))))       # scope: no slice addressing

    def pre(self, c):
        st, eng = c.pre, c.eng
        bi = eng.to_val(st, c.by_index)
        return [("flags", z3.And(is_bool(eng.to_val(st, c.raise_if_missing)), z3.Or(bi == missing(c), is_bool(bi))))]

    def modifies(self, c):
        return []

    def terms(self, c):
        eng, st, m = c.eng, c.pre, c.self
        v = eng.to_val(st, c.value_or_index)
        bi = eng.to_val(st, c.by_index)
        nothing = z3.Or(coll(st, m) == missing(c), v == missing(c))
        by_index = z3.If(bi == missing(c), z3.Not(conforms(v, item_type(st, m))), b_of(bi))
        n, e = self.view(st, m)
        p = norm(as_index(v), n)
        inr = z3.And(is_index(v), p >= 0, p < n)
        return v, nothing, by_index, n, e, p, inr

    def result(self, c):
        if c.side == "apply":
            return PTuple([fresh("x_index"), fresh("x_item")])
        return None

    def post(self, c):
        eng, st, m = c.eng, c.pre, c.self
        v, nothing, by_index, n, e, p, inr = self.terms(c)
        idx, item = [eng.to_val(c.post, x) for x in c.res.items]
        return [("nothing", z3.Implies(nothing, z3.And(is_none(idx), item == missing(c)))),
                ("by-index", z3.Implies(z3.And(z3.Not(nothing), by_index), z3.And(
                    idx == v, is_index(v), z3.If(inr, item == z3.Select(e, p), item == missing(c))))),
                ("by-value", z3.Implies(z3.And(z3.Not(nothing), z3.Not(by_index)), z3.And(item == v, first_index(n, e, v, idx)))),
                ("present", z3.And(z3.Not(is_absent(idx)), z3.Not(is_absent(item)))),
                ("index-kind", z3.Or(is_none(idx), is_index(idx))),
                # with raise_if_missing a normal return means the target exists
                ("found", z3.Implies(z3.And(z3.Not(nothing), b_of(eng.to_val(st, c.raise_if_missing))),
                                     z3.If(by_index, inr, z3.Not(is_none(idx))))),
                ("pure", self.same_list(st, c.post, m))]

    def exc_index(self, c):
        v, nothing, by_index, n, e, p, inr = self.terms(c)
        rim = b_of(c.eng.to_val(c.pre, c.raise_if_missing))
        return [("why", z3.And(z3.Not(nothing), by_index, z3.Not(inr), rim)), ("pure", self.same_list(c.pre, c.post, c.self))]

    def exc_value(self, c):
        v, nothing, by_index, n, e, p, inr = self.terms(c)
        rim = b_of(c.eng.to_val(c.pre, c.raise_if_missing))
        j = z3.Int("j!xv")
        return [("why", z3.And(z3.Not(nothing), z3.Not(by_index), rim,
                               z3.ForAll([j], z3.Implies(z3.And(j >= 0, j < n), z3.Not(py_eq(z3.Select(e, j), v)))))),
                ("pure", self.same_list(c.pre, c.post, c.self))]

    def exc_other(self, c):
        # a non-integer index (TypeError of the list itself), an element's __eq__ raising
        return [("pure", self.same_list(c.pre, c.post, c.self))]


def seq_insert_rel(n0, e0, n1, e1, index, item, insert):
    """the list (n1, e1) is (n0, e0) after: append(item) when index is None; insert(index, item) when insert;
    otherwise [index] = item   (plain Python list semantics, negative indices included)"""
    j = z3.Int("j!si")
    i = as_index(index)
    keep_lt = lambda p: z3.ForAll([j], z3.Implies(z3.And(j >= 0, j < p), z3.Select(e1, j) == z3.Select(e0, j)))
    append = z3.And(n1 == n0 + 1, z3.Select(e1, n0) == item, keep_lt(n0))
    # list.insert clamps: negative counts from the end, then into [0, n]
    q = z3.If(i < 0, z3.If(i + n0 < 0, 0, i + n0), z3.If(i > n0, n0, i))
    ins = z3.And(n1 == n0 + 1, z3.Select(e1, q) == item, keep_lt(q),
                 z3.ForAll([j], z3.Implies(z3.And(j > q, j <= n0), z3.Select(e1, j) == z3.Select(e0, j - 1))))
    p = norm(i, n0)
    rep = z3.And(n1 == n0, z3.Select(e1, p) == item,
                 z3.ForAll([j], z3.Implies(z3.And(j >= 0, j < n0, j != p), z3.Select(e1, j) == z3.Select(e0, j))))
    return z3.If(is_none(index), append, z3.If(insert, ins, rep))


@register
class SeqInserter(MutatorBase):
    """SequenceMutator._inserter(index, item, insert): type check, then append / insert / replace on the list"""
    qual = SEQ + "._inserter"
    recv = SEQ
    raises = {"ValueError": "exc_value", "IndexError": "exc_index", "*": "exc_other"}

    def setup(self, c):
        self.shape(c)
        st = c.pre
        st.assume(is_bool(c.insert), coll(st, c.self) != missing(c), z3.Not(is_absent(c.item)), z3.Not(is_absent(c.index)))
        st.assume(z3.Or(is_none(c.index), is_index(c.index)))

    def pre(self, c):
        eng, st = c.eng, c.pre
        return [("collection", coll(st, c.self) != missing(c)), ("insert", is_bool(eng.to_val(st, c.insert))),
                ("item", z3.Not(is_absent(eng.to_val(st, c.item)))),
                ("index", z3.Or(is_none(eng.to_val(st, c.index)), is_index(eng.to_val(st, c.index))))]

    def modifies(self, c):
        return [a_of(coll(c.pre, c.self))]

    def post(self, c):
        eng, st, m = c.eng, c.pre, c.self
        item, index = eng.to_val(st, c.item), eng.to_val(st, c.index)
        n0, e0 = self.view(st, m)
        n1, e1 = self.view(c.post, m)
        return [("c03.typed", conforms(item, item_type(st, m))),
                ("same-object", coll(c.post, m) == coll(st, m)),
                ("list-op", seq_insert_rel(n0, e0, n1, e1, index, item, b_of(eng.to_val(st, c.insert))))]

    def exc_value(self, c):
        return [("why", z3.Not(conforms(c.eng.to_val(c.pre, c.item), item_type(c.pre, c.self)))),
                ("unchanged", self.same_list(c.pre, c.post, c.self))]

    def exc_index(self, c):
        eng, st = c.eng, c.pre
        index = eng.to_val(st, c.index)
        n0, e0 = self.view(st, c.self)
        p = norm(as_index(index), n0)
        return [("why", z3.And(z3.Not(is_none(index)), z3.Not(b_of(eng.to_val(st, c.insert))), z3.Not(z3.And(p >= 0, p < n0)))),
                ("unchanged", self.same_list(st, c.post, c.self))]

    def exc_other(self, c):
        return [("unchanged", self.same_list(c.pre, c.post, c.self))]


# ------------------------------------------------------------------------------------------------
# assumed: type_instantiate (reflection on typing objects)
# ------------------------------------------------------------------------------------------------
tinst_cls = z3.Function("tinst_cls", Val, I)      # the class type_instantiate builds for an annotation


class TypeInstantiateAssumed(Contract):
    """type_instantiate(type): ASSUMED - a new, empty container of the class the annotation stands for"""
    qual = "spec_classes.utils.type_checking:type_instantiate"
    assumed = True
    reason = "reflection on typing objects (get_origin); A-META ties the mutator family to the annotation"

    def post(self, c):
        st, r = c.post, c.res
        A = a_of(r)
        k = z3.Const("k!ti", Val)
        j = z3.Int("j!ti")
        t = c.eng.to_val(c.pre, list(c.args.values())[0])
        return [("new", z3.And(is_ref(r), A >= c.pre.alloc, A < st.alloc, st.get("cls_of", A) == tinst_cls(t))),
                ("empty", z3.And(st.get("llen", A) == 0, st.get("dsize", A) == 0,
                                 z3.ForAll([k], z3.Not(z3.Select(st.get("dhas", A), k))),
                                 z3.ForAll([j], z3.Select(st.get("lelem", A), j) == ABSENT)))]


register(TypeInstantiateAssumed)


class SeqEdit(MutatorBase):
    """common part of add_item / transform_item / remove_item on a list attribute"""
    recv = SEQ
    raises = {"IndexError": "exc_missing", "ValueError": "exc_value", "KeyError": "exc_other", "TypeError": "exc_other", "*": "exc_other"}

    def edit_setup(self, c):
        self.shape(c)
        st = c.pre
        a = fld(st, c.self, "attr_spec")
        st.assume(tinst_cls(fld(st, a, "type")) == cid(self.kind))           # A-META: the mutator family matches the annotation
        v = c.value_or_index
        st.assume(z3.Not(z3.And(is_ref(v), subcls(st.get("cls_of", a_of(v)), cid("slice")))))

    def modifies(self, c):
        col = coll(c.pre, c.self)
        return [a_of(c.self), (a_of(col), is_ref(col))]

    def view0(self, c):
        """the list before the call (empty when the attribute had no value yet)"""
        st, m = c.pre, c.self
        n, e = self.view(st, m)
        absent = coll(st, m) == missing(c)
        return z3.If(absent, 0, n), e, absent

    def unchanged(self, c):
        st, m = c.pre, c.self
        return z3.Implies(coll(st, m) != missing(c), self.same_list(st, c.post, m))

    def exc_missing(self, c):
        return [("unchanged", self.unchanged(c))]

    def exc_value(self, c):
        return [("unchanged", self.unchanged(c))]

    def exc_other(self, c):
        return [("unchanged", self.unchanged(c))]


@register
class SeqAddItem(SeqEdit):
    """SequenceMutator.add_item(item, attrs, value_or_index, by_index, insert, replace): with_<item> / update_<item>:
    exactly one position of the list is written (appended, inserted or replaced), with a value of the element type"""
    qual = SEQ + ".add_item"

    def setup(self, c):
        self.edit_setup(c)
        st = c.pre
        st.assume(is_bool(c.insert), is_bool(c.replace), z3.Or(c.by_index == missing(c), is_bool(c.by_index)))
        for n, g in sv.names_ok(st, c.attrs, "attrs"):
            st.assume(g)

    def pre(self, c):
        eng, st = c.eng, c.pre
        bi = eng.to_val(st, c.by_index)
        return [("flags", z3.And(is_bool(eng.to_val(st, c.insert)), is_bool(eng.to_val(st, c.replace)), z3.Or(bi == missing(c), is_bool(bi))))] + \
            sv.names_ok(st, eng.to_val(st, c.attrs), "attrs")

    def post(self, c):
        eng, st, m = c.eng, c.pre, c.self
        n0, e0, absent = self.view0(c)
        n1, e1 = self.view(c.post, m)
        x, idx = z3.Const("x!ai", Val), z3.Const("idx!ai", Val)
        ins = b_of(eng.to_val(st, c.insert))
        v, bi = eng.to_val(st, c.value_or_index), eng.to_val(st, c.by_index)
        by_index = z3.If(bi == missing(c), z3.Not(conforms(v, item_type(st, m))), b_of(bi))
        col1 = coll(c.post, m)
        return [("self", eng.to_val(c.post, c.res) == m), ("fields", z3.And(fld(c.post, m, "attr_spec") == fld(c.pre, m, "attr_spec"), fld(c.post, m, "instance") == fld(c.pre, m, "instance"))),
                ("container", z3.And(is_ref(col1), c.post.get("cls_of", a_of(col1)) == cid("list"), z3.Implies(absent, a_of(col1) >= st.alloc),
                                     z3.Implies(z3.Not(absent), col1 == coll(st, m)))),
                ("one-position", z3.Exists([x, idx], z3.And(conforms(x, item_type(st, m)), z3.Or(is_none(idx), is_index(idx)),
                                                            seq_insert_rel(n0, z3.If(absent, z3.K(I, ABSENT), e0), n1, e1, idx, x, ins)))),
                # addressed by index: that very position; no target (or no list yet): appended
                ("at-index", z3.Implies(z3.And(z3.Not(absent), v != missing(c), by_index), z3.Exists([x], z3.And(
                    conforms(x, item_type(st, m)), seq_insert_rel(n0, e0, n1, e1, v, x, ins))))),
                ("appended", z3.Implies(z3.And(z3.Not(absent), v == missing(c)), z3.Exists([x], z3.And(
                    conforms(x, item_type(st, m)), seq_insert_rel(n0, e0, n1, e1, NONE, x, ins)))))]


def seq_replaced_where(n0, e0, n1, e1, v, bi, T, MISS):
    """transform_<item>: the element at the index given - or the first element equal to the value given - is replaced by a value of the
    element type; the length and every other element stay"""
    p, j = z3.Int("p!rw"), z3.Int("j!rw")
    by_index = z3.If(bi == MISS, z3.Not(conforms(v, T)), b_of(bi))
    replaced_at = lambda q: z3.And(q >= 0, q < n0, n1 == n0, conforms(z3.Select(e1, q), T),
                                   z3.ForAll([j], z3.Implies(z3.And(j >= 0, j < n0, j != q), z3.Select(e1, j) == z3.Select(e0, j))))
    first = lambda q: z3.And(py_eq(z3.Select(e0, q), v), z3.ForAll([j], z3.Implies(z3.And(j >= 0, j < q), z3.Not(py_eq(z3.Select(e0, j), v)))))
    return z3.If(by_index, replaced_at(norm(as_index(v), n0)), z3.Exists([p], z3.And(replaced_at(p), first(p))))


@register
class SeqTransformItem(SeqEdit):
    """SequenceMutator.transform_item(value_or_index, transform, by_index, attr_transforms): the addressed element is
    replaced (same position, same length) by a value of the element type; a missing target raises"""
    qual = SEQ + ".transform_item"

    def setup(self, c):
        self.edit_setup(c)
        st = c.pre
        st.assume(z3.Or(c.by_index == missing(c), is_bool(c.by_index)), sv.REG_MV().callable_or_none(st, c.transform))
        st.assume(coll(st, c.self) != missing(c), c.value_or_index != missing(c))
        for n, g in sv.names_ok(st, c.attr_transforms, "attr_transforms"):
            st.assume(g)

    def pre(self, c):
        eng, st = c.eng, c.pre
        bi = eng.to_val(st, c.by_index)
        return [("flags", z3.Or(bi == missing(c), is_bool(bi))), ("collection", coll(st, c.self) != missing(c)),
                ("target", eng.to_val(st, c.value_or_index) != missing(c)),
                ("transform", sv.REG_MV().callable_or_none(st, eng.to_val(st, c.transform)))] + \
            sv.names_ok(st, eng.to_val(st, c.attr_transforms), "attr_transforms")

    def post(self, c):
        eng, st, m = c.eng, c.pre, c.self
        n0, e0 = self.view(st, m)
        n1, e1 = self.view(c.post, m)
        p, j = z3.Int("p!ti"), z3.Int("j!ti2")
        v = eng.to_val(st, c.value_or_index)
        return [("self", eng.to_val(c.post, c.res) == m), ("fields", z3.And(fld(c.post, m, "attr_spec") == fld(c.pre, m, "attr_spec"), fld(c.post, m, "instance") == fld(c.pre, m, "instance"))), ("same-object", coll(c.post, m) == coll(st, m)),
                ("one-position", z3.Or(
                    # the target was found by value but nowhere in the list any more (not reachable: require_pre_existent) -
                    z3.Exists([p], z3.And(p >= 0, p < n0, n1 == n0, conforms(z3.Select(e1, p), item_type(st, m)),
                                          z3.ForAll([j], z3.Implies(z3.And(j >= 0, j < n0, j != p), z3.Select(e1, j) == z3.Select(e0, j))))))),
                # which position: the index given, or the first element equal to the value given
                ("where", seq_replaced_where(n0, e0, n1, e1, v, eng.to_val(st, c.by_index), item_type(st, m), missing(c)))]


@register
class SeqRemoveItem(SeqEdit):
    """SequenceMutator.remove_item(value_or_index, by_index): `del list[index]` at the addressed position"""
    qual = SEQ + ".remove_item"
    raises = {"IndexError": "exc_missing", "ValueError": "exc_value", "*": "exc_other"}

    def setup(self, c):
        self.edit_setup(c)
        st = c.pre
        st.assume(z3.Or(c.by_index == missing(c), is_bool(c.by_index)))

    def pre(self, c):
        bi = c.eng.to_val(c.pre, c.by_index)
        return [("flags", z3.Or(bi == missing(c), is_bool(bi)))]

    def terms(self, c):
        eng, st, m = c.eng, c.pre, c.self
        v = eng.to_val(st, c.value_or_index)
        bi = eng.to_val(st, c.by_index)
        nothing = z3.Or(coll(st, m) == missing(c), v == missing(c))
        by_index = z3.If(bi == missing(c), z3.Not(conforms(v, item_type(st, m))), b_of(bi))
        return v, nothing, by_index

    def post(self, c):
        eng, st, m = c.eng, c.pre, c.self
        v, nothing, by_index = self.terms(c)
        n0, e0 = self.view(st, m)
        n1, e1 = self.view(c.post, m)
        p, j = z3.Int("p!ri"), z3.Int("j!ri")
        removed_at = lambda q: z3.And(q >= 0, q < n0, n1 == n0 - 1,
                                      z3.ForAll([j], z3.Implies(z3.And(j >= 0, j < q), z3.Select(e1, j) == z3.Select(e0, j))),
                                      z3.ForAll([j], z3.Implies(z3.And(j >= q, j < n1), z3.Select(e1, j) == z3.Select(e0, j + 1))))
        first = lambda q: z3.And(py_eq(z3.Select(e0, q), v), z3.ForAll([j], z3.Implies(z3.And(j >= 0, j < q), z3.Not(py_eq(z3.Select(e0, j), v)))))
        return [("self", eng.to_val(c.post, c.res) == m), ("fields", z3.And(fld(c.post, m, "attr_spec") == fld(c.pre, m, "attr_spec"), fld(c.post, m, "instance") == fld(c.pre, m, "instance"))), ("same-object", coll(c.post, m) == coll(st, m)),
                ("nothing", z3.Implies(nothing, z3.Implies(coll(st, m) != missing(c), self.same_list(st, c.post, m)))),
                ("by-index", z3.Implies(z3.And(z3.Not(nothing), by_index), removed_at(norm(as_index(v), n0)))),
                ("by-value", z3.Implies(z3.And(z3.Not(nothing), z3.Not(by_index)), z3.Exists([p], z3.And(removed_at(p), first(p)))))]

    def exc_missing(self, c):
        v, nothing, by_index = self.terms(c)
        n0, e0 = self.view(c.pre, c.self)
        p = norm(as_index(v), n0)
        return [("why", z3.And(z3.Not(nothing), by_index, z3.Not(z3.And(is_index(v), p >= 0, p < n0)))), ("unchanged", self.unchanged(c))]

    def exc_value(self, c):
        v, nothing, by_index = self.terms(c)
        n0, e0 = self.view(c.pre, c.self)
        j = z3.Int("j!rv")
        return [("why", z3.And(z3.Not(nothing), z3.Not(by_index),
                               z3.ForAll([j], z3.Implies(z3.And(j >= 0, j < n0), z3.Not(py_eq(z3.Select(e0, j), v)))))),
                ("unchanged", self.unchanged(c))]


# ------------------------------------------------------------------------------------------------
# mappings
# ------------------------------------------------------------------------------------------------
key_type_of = z3.Function("key_type_of", Val, Val)      # MappingMutator._key_type as a function of the annotation (A-TYPING)


class MapBase(MutatorBase):
    kind = "dict"
    recv = MAPM

    def dview(self, st, m):
        A = a_of(coll(st, m))
        return st.get("dhas", A), st.get("dval", A)

    def same_map(self, pre, post, m):
        h0, v0 = self.dview(pre, m)
        h1, v1 = self.dview(post, m)
        k = z3.Const("k!smp", Val)
        return z3.And(coll(post, m) == coll(pre, m),
                      z3.ForAll([k], z3.And(z3.Select(h1, k) == z3.Select(h0, k),
                                            z3.Implies(z3.Select(h0, k), z3.Select(v1, k) == z3.Select(v0, k)))))

    def map_shape(self, c):
        self.shape(c)
        st = c.pre
        a = fld(st, c.self, "attr_spec")
        st.assume(tinst_cls(fld(st, a, "type")) == cid("dict"))
        h, v = self.dview(st, c.self)
        k = z3.Const("k!ms", Val)
        st.assume(z3.Implies(coll(st, c.self) != missing(c),
                             z3.ForAll([k], z3.Implies(z3.Select(h, k), z3.Not(is_absent(z3.Select(v, k)))), patterns=[z3.Select(h, k)])))


class KeyTypeAssumed(Contract):
    """MappingMutator._key_type: ASSUMED - the declared key type of the mapping annotation (Any when undeclared)"""
    qual = MAPM + "._key_type"
    recv = MAPM
    assumed = True
    reason = "reads __args__ of a typing object (A-TYPING)"

    def result(self, c):
        return key_type_of(fld(c.pre, fld(c.pre, c.self, "attr_spec"), "type"))


register(KeyTypeAssumed)


def key_type(st, m):
    return key_type_of(fld(st, fld(st, m, "attr_spec"), "type"))


@register
class MapExtractor(MapBase):
    """MappingMutator._extractor(key, raise_if_missing) -> (key, collection.get(key, MISSING))"""
    qual = MAPM + "._extractor"
    raises = {"KeyError": "exc_key", "*": "exc_other"}

    def setup(self, c):
        self.map_shape(c)
        c.pre.assume(is_bool(c.raise_if_missing), coll(c.pre, c.self) != missing(c))

    def pre(self, c):
        return [("flag", is_bool(c.eng.to_val(c.pre, c.raise_if_missing))), ("collection", coll(c.pre, c.self) != missing(c))]

    def modifies(self, c):
        return []

    def result(self, c):
        if c.side == "apply":
            return PTuple([fresh("x_key"), fresh("x_item")])
        return None

    def post(self, c):
        eng, st, m = c.eng, c.pre, c.self
        key = eng.to_val(st, c.value_or_index)
        h, v = self.dview(st, m)
        idx, item = [eng.to_val(c.post, x) for x in c.res.items]
        has = z3.Select(h, kn(key))
        return [("key", idx == key), ("item", item == z3.If(has, z3.Select(v, kn(key)), missing(c))),
                ("found", z3.Implies(b_of(eng.to_val(st, c.raise_if_missing)), has)),
                ("hashable", hashable(key)), ("present", z3.Not(is_absent(item))), ("pure", self.same_map(st, c.post, m))]

    def exc_key(self, c):
        eng, st, m = c.eng, c.pre, c.self
        h, v = self.dview(st, m)
        return [("why", z3.And(b_of(eng.to_val(st, c.raise_if_missing)), z3.Not(z3.Select(h, kn(eng.to_val(st, c.value_or_index)))))),
                ("pure", self.same_map(st, c.post, m))]

    def exc_other(self, c):
        return [("pure", self.same_map(c.pre, c.post, c.self))]          # an unhashable key


def map_assign_rel(h0, v0, h1, v1, key, item):
    """dict after `d[key] = item`"""
    k = z3.Const("k!ma", Val)
    kk = kn(key)
    return z3.And(z3.Select(h1, kk), z3.Select(v1, kk) == item,
                  z3.ForAll([k], z3.Implies(k != kk, z3.And(z3.Select(h1, k) == z3.Select(h0, k),
                                                            z3.Implies(z3.Select(h0, k), z3.Select(v1, k) == z3.Select(v0, k))))))


@register
class MapInserter(MapBase):
    """MappingMutator._inserter(key, item): key and value type checks, then collection[key] = item"""
    qual = MAPM + "._inserter"
    raises = {"ValueError": "exc_value", "*": "exc_other"}

    def setup(self, c):
        self.map_shape(c)
        c.pre.assume(coll(c.pre, c.self) != missing(c), z3.Not(is_absent(c.item)), z3.Not(is_absent(c.index)))

    def pre(self, c):
        eng, st = c.eng, c.pre
        return [("collection", coll(st, c.self) != missing(c)), ("item", z3.Not(is_absent(eng.to_val(st, c.item)))),
                ("key", z3.Not(is_absent(eng.to_val(st, c.index))))]

    def modifies(self, c):
        return [a_of(coll(c.pre, c.self))]

    def post(self, c):
        eng, st, m = c.eng, c.pre, c.self
        item, key = eng.to_val(st, c.item), eng.to_val(st, c.index)
        h0, v0 = self.dview(st, m)
        h1, v1 = self.dview(c.post, m)
        return [("c03.key-typed", conforms(key, key_type(st, m))), ("c03.typed", conforms(item, item_type(st, m))),
                ("same-object", coll(c.post, m) == coll(st, m)), ("dict-op", map_assign_rel(h0, v0, h1, v1, key, item))]

    def exc_value(self, c):
        eng, st, m = c.eng, c.pre, c.self
        item, key = eng.to_val(st, c.item), eng.to_val(st, c.index)
        return [("why", z3.Or(z3.Not(conforms(key, key_type(st, m))), z3.Not(conforms(item, item_type(st, m))))),
                ("unchanged", self.same_map(st, c.post, m))]

    def exc_other(self, c):
        return [("unchanged", self.same_map(c.pre, c.post, c.self))]


class MapEdit(MapBase):
    raises = {"KeyError": "exc_any", "ValueError": "exc_any", "TypeError": "exc_any", "IndexError": "exc_any", "*": "exc_any"}

    def modifies(self, c):
        col = coll(c.pre, c.self)
        return [a_of(c.self), (a_of(col), is_ref(col))]

    def unchanged(self, c):
        return z3.Implies(coll(c.pre, c.self) != missing(c), self.same_map(c.pre, c.post, c.self))

    def exc_any(self, c):
        return [("unchanged", self.unchanged(c))]

    def one_key(self, c, key):
        """the dict after the call differs from the dict before at `key` only, where it now holds a value of the element type"""
        eng, st, m = c.eng, c.pre, c.self
        absent = coll(st, m) == missing(c)
        h0, v0 = self.dview(st, m)
        h1, v1 = self.dview(c.post, m)
        k = z3.Const("k!ok", Val)
        kk = kn(key)
        col1 = coll(c.post, m)
        return [("self", eng.to_val(c.post, c.res) == m), ("fields", z3.And(fld(c.post, m, "attr_spec") == fld(c.pre, m, "attr_spec"), fld(c.post, m, "instance") == fld(c.pre, m, "instance"))),
                ("container", z3.And(is_ref(col1), c.post.get("cls_of", a_of(col1)) == cid("dict"), z3.Implies(absent, a_of(col1) >= st.alloc), z3.Implies(z3.Not(absent), col1 == coll(st, m)))),
                ("one-key", z3.And(z3.Select(h1, kk), conforms(z3.Select(v1, kk), item_type(st, m)), conforms(key, key_type(st, m)),
                                   z3.ForAll([k], z3.Implies(k != kk, z3.And(
                                       z3.Select(h1, k) == z3.And(z3.Not(absent), z3.Select(h0, k)),
                                       z3.Implies(z3.Select(h1, k), z3.Select(v1, k) == z3.Select(v0, k)))))))]


@register
class MapAddItem(MapEdit):
    """MappingMutator.add_item(key, value, attrs, replace, require_pre_existent): `d[key] = <value of the element type>`,
    every other key untouched; the mapping is created when missing"""
    qual = MAPM + ".add_item"

    def setup(self, c):
        self.map_shape(c)
        st = c.pre
        st.assume(is_bool(c.replace), is_bool(c.require_pre_existent))
        for n, g in sv.names_ok(st, c.attrs, "attrs"):
            st.assume(g)

    def pre(self, c):
        eng, st = c.eng, c.pre
        return [("flags", z3.And(is_bool(eng.to_val(st, c.replace)), is_bool(eng.to_val(st, c.require_pre_existent))))] + \
            sv.names_ok(st, eng.to_val(st, c.attrs), "attrs")

    def post(self, c):
        eng, st, m = c.eng, c.pre, c.self
        h0, v0 = self.dview(st, m)
        key = eng.to_val(st, c.key)
        return self.one_key(c, key) + [("existed", z3.Implies(b_of(eng.to_val(st, c.require_pre_existent)),
                                                              z3.And(coll(st, m) != missing(c), z3.Select(h0, kn(key)))))]


@register
class MapTransformItem(MapEdit):
    """MappingMutator.transform_item(key, transform, attr_transforms): the value at an existing key is replaced"""
    qual = MAPM + ".transform_item"

    def setup(self, c):
        self.map_shape(c)
        st = c.pre
        st.assume(coll(st, c.self) != missing(c), sv.REG_MV().callable_or_none(st, c.transform))
        for n, g in sv.names_ok(st, c.attr_transforms, "attr_transforms"):
            st.assume(g)

    def pre(self, c):
        eng, st = c.eng, c.pre
        return [("collection", coll(st, c.self) != missing(c)), ("transform", sv.REG_MV().callable_or_none(st, eng.to_val(st, c.transform)))] + \
            sv.names_ok(st, eng.to_val(st, c.attr_transforms), "attr_transforms")

    def post(self, c):
        eng, st, m = c.eng, c.pre, c.self
        h0, v0 = self.dview(st, m)
        return self.one_key(c, eng.to_val(st, c.key)) + [("existed", z3.Select(h0, kn(eng.to_val(st, c.key))))]


@register
class MapRemoveItem(MapEdit):
    """MappingMutator.remove_item(key): `del d[key]`; KeyError when missing"""
    qual = MAPM + ".remove_item"
    raises = {"KeyError": "exc_key", "*": "exc_any"}

    def setup(self, c):
        self.map_shape(c)
        c.pre.assume(coll(c.pre, c.self) != missing(c))

    def pre(self, c):
        return [("collection", coll(c.pre, c.self) != missing(c))]

    def post(self, c):
        eng, st, m = c.eng, c.pre, c.self
        h0, v0 = self.dview(st, m)
        h1, v1 = self.dview(c.post, m)
        k = z3.Const("k!rm", Val)
        kk = kn(eng.to_val(st, c.key))
        return [("self", eng.to_val(c.post, c.res) == m), ("fields", z3.And(fld(c.post, m, "attr_spec") == fld(c.pre, m, "attr_spec"), fld(c.post, m, "instance") == fld(c.pre, m, "instance"))), ("same-object", coll(c.post, m) == coll(st, m)),
                ("existed", z3.Select(h0, kk)), ("gone", z3.Not(z3.Select(h1, kk))),
                ("others", z3.ForAll([k], z3.Implies(k != kk, z3.And(z3.Select(h1, k) == z3.Select(h0, k),
                                                                     z3.Implies(z3.Select(h0, k), z3.Select(v1, k) == z3.Select(v0, k))))))]

    def exc_key(self, c):
        h0, v0 = self.dview(c.pre, c.self)
        return [("why", z3.Not(z3.Select(h0, kn(c.eng.to_val(c.pre, c.key))))), ("unchanged", self.unchanged(c))]


# ------------------------------------------------------------------------------------------------
# sets
# ------------------------------------------------------------------------------------------------
class SetBase(MutatorBase):
    kind = "set"
    recv = SETM

    def sview(self, st, m):
        return st.get("dhas", a_of(coll(st, m)))

    def same_set(self, pre, post, m):
        k = z3.Const("k!ss", Val)
        return z3.And(coll(post, m) == coll(pre, m), z3.ForAll([k], z3.Select(self.sview(post, m), k) == z3.Select(self.sview(pre, m), k)))

    def set_shape(self, c):
        self.shape(c)
        st = c.pre
        st.assume(tinst_cls(fld(st, fld(st, c.self, "attr_spec"), "type")) == cid("set"))


@register
class SetExtractor(SetBase):
    """SetMutator._extractor(value, raise_if_missing) -> (value, value if present else MISSING)   [built-in sets have no lookup]"""
    qual = SETM + "._extractor"
    raises = {"ValueError": "exc_value", "*": "exc_other"}

    def setup(self, c):
        self.set_shape(c)
        c.pre.assume(is_bool(c.raise_if_missing), coll(c.pre, c.self) != missing(c))

    def pre(self, c):
        return [("flag", is_bool(c.eng.to_val(c.pre, c.raise_if_missing))), ("collection", coll(c.pre, c.self) != missing(c))]

    def modifies(self, c):
        return []

    def result(self, c):
        if c.side == "apply":
            return PTuple([fresh("x_key"), fresh("x_item")])
        return None

    def post(self, c):
        eng, st, m = c.eng, c.pre, c.self
        v = eng.to_val(st, c.value_or_index)
        idx, item = [eng.to_val(c.post, x) for x in c.res.items]
        has = z3.Select(self.sview(st, m), kn(v))
        return [("key", idx == v), ("item", item == z3.If(has, v, missing(c))), ("hashable", hashable(v)),
                ("found", z3.Implies(b_of(eng.to_val(st, c.raise_if_missing)), has)), ("pure", self.same_set(st, c.post, m))]

    def exc_value(self, c):
        eng, st, m = c.eng, c.pre, c.self
        return [("why", z3.And(b_of(eng.to_val(st, c.raise_if_missing)), z3.Not(z3.Select(self.sview(st, m), kn(eng.to_val(st, c.value_or_index)))))),
                ("pure", self.same_set(st, c.post, m))]

    def exc_other(self, c):
        return [("pure", self.same_set(c.pre, c.post, c.self))]


def set_put_rel(h0, h1, index, item, replace, MISS):
    """set after: discard(index) when an element to replace is named (index is not MISSING) and replace; then add(item)"""
    k = z3.Const("k!sp", Val)
    drop = z3.And(index != MISS, replace)
    return z3.ForAll([k], z3.Select(h1, k) == z3.Or(k == kn(item), z3.And(z3.Select(h0, k), z3.Not(z3.And(drop, k == kn(index))))))


@register
class SetInserter(SetBase):
    """SetMutator._inserter(index, item, replace): type check; the replaced element (if any) is discarded, the new one added"""
    qual = SETM + "._inserter"
    raises = {"ValueError": "exc_value", "*": "exc_other"}

    def setup(self, c):
        self.set_shape(c)
        c.pre.assume(coll(c.pre, c.self) != missing(c), z3.Not(is_absent(c.item)), z3.Not(is_absent(c.index)), is_bool(c.replace))

    def pre(self, c):
        eng, st = c.eng, c.pre
        return [("collection", coll(st, c.self) != missing(c)), ("item", z3.Not(is_absent(eng.to_val(st, c.item)))),
                ("index", z3.Not(is_absent(eng.to_val(st, c.index)))), ("replace", is_bool(eng.to_val(st, c.replace)))]

    def modifies(self, c):
        return [a_of(coll(c.pre, c.self))]

    def post(self, c):
        eng, st, m = c.eng, c.pre, c.self
        item, index = eng.to_val(st, c.item), eng.to_val(st, c.index)
        return [("c03.typed", conforms(item, item_type(st, m))), ("same-object", coll(c.post, m) == coll(st, m)),
                ("set-op", set_put_rel(self.sview(st, m), self.sview(c.post, m), index, item, b_of(eng.to_val(st, c.replace)), missing(c)))]

    def exc_value(self, c):
        return [("why", z3.Not(conforms(c.eng.to_val(c.pre, c.item), item_type(c.pre, c.self)))), ("unchanged", self.same_set(c.pre, c.post, c.self))]

    def exc_other(self, c):
        # an unhashable element (TypeError): nothing has been removed yet
        return [("unchanged", self.same_set(c.pre, c.post, c.self))]


class SetEdit(SetBase):
    raises = {"KeyError": "exc_any", "ValueError": "exc_any", "TypeError": "exc_other", "IndexError": "exc_any", "*": "exc_other"}

    def modifies(self, c):
        col = coll(c.pre, c.self)
        return [a_of(c.self), (a_of(col), is_ref(col))]

    def unchanged(self, c):
        return z3.Implies(coll(c.pre, c.self) != missing(c), self.same_set(c.pre, c.post, c.self))

    def exc_any(self, c):
        return [("unchanged", self.unchanged(c))]

    def exc_other(self, c):
        return [("unchanged", self.unchanged(c))]

    def put(self, c, target, replace):
        """the set afterwards: the old content, minus the replaced element (when one is named), plus one value of the element type"""
        eng, st, m = c.eng, c.pre, c.self
        absent = coll(st, m) == missing(c)
        h0, h1 = self.sview(st, m), self.sview(c.post, m)
        x, k = z3.Const("x!se", Val), z3.Const("k!se", Val)
        col1 = coll(c.post, m)
        drop = z3.And(target != missing(c), replace)
        return [("self", eng.to_val(c.post, c.res) == m), ("fields", z3.And(fld(c.post, m, "attr_spec") == fld(c.pre, m, "attr_spec"), fld(c.post, m, "instance") == fld(c.pre, m, "instance"))),
                ("container", z3.And(is_ref(col1), c.post.get("cls_of", a_of(col1)) == cid("set"), z3.Implies(absent, a_of(col1) >= st.alloc), z3.Implies(z3.Not(absent), col1 == coll(st, m)))),
                ("one-element", z3.Exists([x], z3.And(conforms(x, item_type(st, m)), z3.ForAll([k], z3.Select(h1, k) == z3.Or(
                    k == kn(x), z3.And(z3.Not(absent), z3.Select(h0, k), z3.Not(z3.And(drop, k == kn(target)))))))))]


@register
class SetAddItem(SetEdit):
    """SetMutator.add_item(item, value_or_index, replace, attrs): with_<item> / update_<item> on a set attribute"""
    qual = SETM + ".add_item"

    def setup(self, c):
        self.set_shape(c)
        st = c.pre
        st.assume(is_bool(c.replace))
        for n, g in sv.names_ok(st, c.attrs, "attrs"):
            st.assume(g)

    def pre(self, c):
        eng, st = c.eng, c.pre
        return [("replace", is_bool(eng.to_val(st, c.replace)))] + sv.names_ok(st, eng.to_val(st, c.attrs), "attrs")

    def post(self, c):
        eng, st = c.eng, c.pre
        # (the `replace` flag steers how the new element is computed from the old one, not whether the old one is dropped)
        return self.put(c, eng.to_val(st, c.value_or_index), z3.BoolVal(True))


@register
class SetTransformItem(SetEdit):
    """SetMutator.transform_item(item, transform, attr_transforms): the element is replaced by its transform"""
    qual = SETM + ".transform_item"

    def setup(self, c):
        self.set_shape(c)
        st = c.pre
        st.assume(coll(st, c.self) != missing(c), sv.REG_MV().callable_or_none(st, c.transform), c.item != missing(c))
        for n, g in sv.names_ok(st, c.attr_transforms, "attr_transforms"):
            st.assume(g)

    def pre(self, c):
        eng, st = c.eng, c.pre
        return [("collection", coll(st, c.self) != missing(c)), ("target", eng.to_val(st, c.item) != missing(c)),
                ("transform", sv.REG_MV().callable_or_none(st, eng.to_val(st, c.transform)))] + \
            sv.names_ok(st, eng.to_val(st, c.attr_transforms), "attr_transforms")

    def post(self, c):
        eng, st, m = c.eng, c.pre, c.self
        return self.put(c, eng.to_val(st, c.item), z3.BoolVal(True)) + [("existed", z3.Select(self.sview(st, m), kn(eng.to_val(st, c.item))))]


@register
class SetRemoveItem(SetEdit):
    """SetMutator.remove_item(item): `s.remove(item)`; ValueError when missing"""
    qual = SETM + ".remove_item"
    raises = {"ValueError": "exc_value", "*": "exc_any"}

    def setup(self, c):
        self.set_shape(c)
        c.pre.assume(coll(c.pre, c.self) != missing(c))

    def pre(self, c):
        return [("collection", coll(c.pre, c.self) != missing(c))]

    def post(self, c):
        eng, st, m = c.eng, c.pre, c.self
        h0, h1 = self.sview(st, m), self.sview(c.post, m)
        k = z3.Const("k!sr", Val)
        kk = kn(eng.to_val(st, c.item))
        return [("self", eng.to_val(c.post, c.res) == m), ("fields", z3.And(fld(c.post, m, "attr_spec") == fld(c.pre, m, "attr_spec"), fld(c.post, m, "instance") == fld(c.pre, m, "instance"))), ("same-object", coll(c.post, m) == coll(st, m)), ("existed", z3.Select(h0, kk)),
                ("removed", z3.ForAll([k], z3.Select(h1, k) == z3.And(z3.Select(h0, k), k != kk)))]

    def exc_value(self, c):
        return [("why", z3.Not(z3.Select(self.sview(c.pre, c.self), kn(c.eng.to_val(c.pre, c.item))))), ("unchanged", self.unchanged(c))]


# ------------------------------------------------------------------------------------------------
# the mutator's constructor: lifts the collection off the instance (a private copy unless in place)
# ------------------------------------------------------------------------------------------------
@register
class MutatorInit(Contract):
    """CollectionAttrMutator.__init__(attr_spec, instance, collection=<lift it off the instance>, inplace=True)"""
    qual = BASE + ".__init__"
    verify_recv = BASE
    raises = {"FrozenInstanceError": "exc_frozen", "*": "exc_any"}

    def setup(self, c):
        eng, st = c.eng, c.pre
        assume_spec_shape(eng, st, c.instance)
        st.assume(is_bool(c.inplace), is_ref(c.attr_spec), wf_attr(st, c.attr_spec), is_ref(c.instance))
        self.mc = eng.to_val(st, eng.global_value("spec_classes.collections.base", "MISSING_COLLECTION"))
        st.assume(z3.Or(c.collection == self.mc, z3.Not(is_sentinel(eng, st, c.collection)), c.collection == sentinel(eng, st, "MISSING")))

    def pre(self, c):
        eng, st = c.eng, c.pre
        a = eng.to_val(st, c.attr_spec)
        return [("inplace", is_bool(eng.to_val(st, c.inplace))), ("attr_spec", z3.And(is_ref(a), is_str(fld(st, a, "name")))),
                ("instance", is_ref(eng.to_val(st, c.instance)))]

    def modifies(self, c):
        return [a_of(c.self)]

    def lifted(self, c):
        eng, st = c.eng, c.pre
        mcv = eng.to_val(st, eng.global_value("spec_classes.collections.base", "MISSING_COLLECTION"))
        col = eng.to_val(st, c.collection)
        inst = eng.to_val(st, c.instance)
        nm = fld(st, eng.to_val(st, c.attr_spec), "name")
        cur = z3.Select(D(st, inst), s_of(nm))
        cur = z3.If(is_absent(cur), clsattr(eng.type_of(st, inst), s_of(nm)), cur)
        cur = z3.If(is_absent(cur), sentinel(eng, st, "MISSING"), cur)
        return col == mcv, z3.If(col == mcv, cur, col)

    def post(self, c):
        eng, st, m = c.eng, c.pre, c.self
        lift, src = self.lifted(c)
        inplace = b_of(eng.to_val(st, c.inplace))
        inst = eng.to_val(st, c.instance)
        res = coll(c.post, m)
        return [("fields", z3.And(fld(c.post, m, "attr_spec") == eng.to_val(st, c.attr_spec), fld(c.post, m, "instance") == inst)),
                ("c07.not-frozen", z3.Implies(z3.And(lift, inplace, is_spec(eng, st, inst), frozen(eng, st, inst)), initializing(eng, st, inst))),
                ("collection", z3.If(z3.Or(inplace, src == sentinel(eng, st, "MISSING")), res == src, copy_rel(eng, st, c.post, res, src)))]

    def exc_frozen(self, c):
        eng, st = c.eng, c.pre
        lift, src = self.lifted(c)
        inst = eng.to_val(st, c.instance)
        return [("c07.why", z3.And(lift, b_of(eng.to_val(st, c.inplace)), is_spec(eng, st, inst), frozen(eng, st, inst),
                                   z3.Not(initializing(eng, st, inst))))]

    def exc_any(self, c):
        return not_attr_error(c)          # only the protective copy can raise


# ------------------------------------------------------------------------------------------------
# the twelve generated element helpers: mutate_attr(self, name, <mutator(self, inplace).op(...).collection>, inplace, type_check=False)
# ------------------------------------------------------------------------------------------------
MCOLL = "spec_classes.methods.collections"
FAMILY = {"sequence": ("list", SEQ), "mapping": ("dict", MAPM), "set": ("set", SETM)}


def mutator_factory_hook(eng, st, v, fx):
    """attr_spec.get_collection_mutator: functools.partial(<mutator class of the attribute's family>, attr_spec)  (A-META:
    a helper of a family is only generated for attributes of that family)"""
    tgt = eng.cur_target
    fam = getattr(tgt, "family", None)
    if fam is None:
        return None
    qual = FAMILY[fam][1]
    ci = eng.ft.classes[qual]
    return [Res("ok", st, PPartial(eng.pclass(ci.name, ci), [v], {}))]


_install_sv = install_hooks


def install_hooks(models):
    _install_sv(models)
    models.attr_hooks[("pre", "get_collection_mutator")] = mutator_factory_hook


class CollHelper(Helper):
    family = "sequence"
    kw = None
    raises = {"FrozenInstanceError": "exc_frozen", "IndexError": "exc_edit", "KeyError": "exc_edit", "ValueError": "exc_edit",
              "TypeError": "exc_edit", "AttributeError": "exc_attr", "*": "exc_any"}

    def cur(self, c):
        """the attribute's current value as the mutator lifts it: instance slot, class attribute, else MISSING"""
        if c.side == "verify" and getattr(self, "_cur", None) is not None:
            return self._cur
        return self.cur_term(c)

    def cur_term(self, c):
        eng, st, o = c.eng, c.pre, c.self
        nm = fld(st, eng.to_val(st, c.attr_spec), "name")
        x = z3.Select(D(st, o), s_of(nm))
        x = z3.If(is_absent(x), clsattr(eng.type_of(st, o), s_of(nm)), x)
        return z3.If(is_absent(x), sentinel(eng, st, "MISSING"), x)

    def setup(self, c):
        self.helper_setup(c)
        eng, st, a = c.eng, c.pre, c.attr_spec
        kind = FAMILY[self.family][0]
        for f in ("item_type", "item_constructor", "item_spec_key_type", "item_spec_type", "qualified_name", "type"):
            st.assume(z3.Not(is_absent(fld(st, a, f))))
        mv = sv.REG_MV()
        st.assume(mv.annotation(st, fld(st, a, "item_type")), mv.callable_or_none(st, fld(st, a, "item_constructor")),
                  mv.callable_or_none(st, fld(st, a, "prepare_item")), is_str(fld(st, a, "qualified_name")),
                  tinst_cls(fld(st, a, "type")) == cid(kind))
        self._cur = None
        cur = fresh("cur")
        st.assume(cur == self.cur_term(c))
        self._cur = cur
        A = a_of(cur)
        # scope: the attribute currently holds nothing or a built-in container of its family (an object of its own)
        st.assume(z3.Or(cur == sentinel(eng, st, "MISSING"), z3.And(
            is_ref(cur), st.get("cls_of", A) == cid(kind), A >= 1000, A < z3.Int("alloc0"), A != a_of(c.self), A != a_of(a),
            A != a_of(meta_of(eng, st, c.self)))))
        st.assume(st.get("llen", A) >= 0, st.get("dsize", A) >= 0, is_bool(c._if))
        st.assume(z3.Not(is_spec(eng, st, cur)), z3.Not(leaf(st, cur)))            # a built-in container is not a spec instance
        j, k = z3.Int("j!ch"), z3.Const("k!ch", Val)
        st.assume(z3.ForAll([j], z3.Implies(z3.And(j >= 0, j < st.get("llen", A)), z3.Not(is_absent(z3.Select(st.get("lelem", A), j)))),
                            patterns=[z3.Select(st.get("lelem", A), j)]))
        st.assume(z3.ForAll([k], z3.Implies(z3.Select(st.get("dhas", A), k), z3.Not(is_absent(z3.Select(st.get("dval", A), k)))),
                            patterns=[z3.Select(st.get("dhas", A), k)]))
        if self.kw:
            for n, g in kwargs_names_ok(st, getattr(c, self.kw), "kw"):
                st.assume(g)
        if hasattr(c, "_transform"):
            st.assume(mv.callable_or_none(st, c._transform))
        for flag in ("_insert",):
            if hasattr(c, flag):
                st.assume(is_bool(getattr(c, flag)))
        if hasattr(c, "_by_index"):
            st.assume(z3.Or(c._by_index == sentinel(eng, st, "MISSING"), is_bool(c._by_index)))
        for p in ("_index", "_value_or_index"):
            if hasattr(c, p):
                v = getattr(c, p)
                st.assume(z3.Not(z3.And(is_ref(v), subcls(st.get("cls_of", a_of(v)), cid("slice")))))
        if self.op == "transform":
            tgt = [getattr(c, p) for p in ("_value_or_index", "_key", "_item") if hasattr(c, p)][0]
            st.assume(tgt != sentinel(eng, st, "MISSING"))
        if self.op in ("transform", "without"):
            st.assume(cur != sentinel(eng, st, "MISSING"))       # scope: there is a container to edit
        # the class-level records (metadata, its attrs dict and invalidation map) are objects of their own
        m = meta_of(eng, st, c.self)
        st.assume(A != a_of(invmap(eng, st, c.self)), A != a_of(fld(st, m, "attrs")))

    def pre(self, c):
        return self.helper_pre(c) + [("inplace", is_bool(c.eng.to_val(c.pre, c._inplace)))]

    def modifies(self, c):
        cur = self.cur(c)
        return [(a_of(c.self), self.in_place(c)), (a_of(cur), z3.And(is_ref(cur), b_of(c.eng.to_val(c.pre, c._inplace))))]

    def container_unchanged(self, c):
        """the container the attribute held before the call still has its old content"""
        st, cur = c.pre, self.cur(c)
        A = a_of(cur)
        if self.family == "sequence":
            j = z3.Int("j!cu")
            same = z3.And(c.post.get("llen", A) == st.get("llen", A),
                          z3.ForAll([j], z3.Implies(z3.And(j >= 0, j < st.get("llen", A)),
                                                    z3.Select(c.post.get("lelem", A), j) == z3.Select(st.get("lelem", A), j))))
        elif self.family == "set":
            k = z3.Const("k!cu", Val)
            same = z3.ForAll([k], z3.Select(c.post.get("dhas", A), k) == z3.Select(st.get("dhas", A), k))
        else:
            k = z3.Const("k!cu", Val)
            same = z3.ForAll([k], z3.And(z3.Select(c.post.get("dhas", A), k) == z3.Select(st.get("dhas", A), k),
                                         z3.Implies(z3.Select(st.get("dhas", A), k),
                                                    z3.Select(c.post.get("dval", A), k) == z3.Select(st.get("dval", A), k))))
        return z3.Implies(is_ref(cur), same)

    def post(self, c):
        eng, st, o, r = c.eng, c.pre, c.self, c.res
        a = eng.to_val(st, c.attr_spec)
        nm = fld(st, a, "name")
        same = self.in_place(c)
        inplace = b_of(eng.to_val(st, c._inplace))
        active = eng.truthy(st, eng.to_val(st, c._if))
        cur = self.cur(c)
        new = z3.Select(D(c.post, r), s_of(nm))
        kind = FAMILY[self.family][0]
        return [
            ("c05.noop-if", z3.Implies(z3.Not(active), z3.And(r == o, unchanged_obj(st, c.post, o), self.container_unchanged(c)))),
            ("c01.identity", z3.Implies(active, z3.If(same, r == o, z3.And(is_ref(r), a_of(r) >= st.alloc, r != o,
                                                                         c.post.get("cls_of", a_of(r)) == st.get("cls_of", a_of(o)))))),
            ("c01.receiver", z3.Implies(z3.Not(same), unchanged_obj(st, c.post, o))),
            ("c01.container", z3.Implies(z3.Not(inplace), self.container_unchanged(c))),
            # the result holds a container of the attribute's family: the very same object when edited in place, a new one otherwise
            ("c06.container", z3.Implies(active, z3.And(is_ref(new), c.post.get("cls_of", a_of(new)) == cid(kind),
                                                        z3.Implies(z3.And(inplace, is_ref(cur)), new == cur),
                                                        z3.Implies(z3.Not(inplace), a_of(new) >= st.alloc)))),
            ("c06.edit", z3.Implies(z3.And(active, inplace, is_ref(cur)), self.edit_clause(c))),
        ]

    def edit_clause(self, c):
        """edited in place, the container the attribute already held changes exactly like the plain Python container under the
        corresponding operation (the same statement holds of the private copy otherwise: contracts of the mutator methods)"""
        eng, st = c.eng, c.pre
        cur = self.cur(c)
        A = a_of(cur)
        T = fld(st, eng.to_val(st, c.attr_spec), "item_type")
        g = lambda n: eng.to_val(st, getattr(c, n))
        MISS = sentinel(eng, st, "MISSING")
        if self.family == "sequence":
            n0, e0, n1, e1 = st.get("llen", A), st.get("lelem", A), c.post.get("llen", A), c.post.get("lelem", A)
            x, idx, p, j = z3.Const("x!hc", Val), z3.Const("idx!hc", Val), z3.Int("p!hc"), z3.Int("j!hc")
            if self.op == "with":
                # _index given: that position (replaced, or inserted before with _insert); otherwise appended
                tgt = g("_index")
                return z3.Exists([x], z3.And(conforms(x, T), seq_insert_rel(n0, e0, n1, e1, z3.If(tgt == MISS, NONE, tgt), x, b_of(g("_insert")))))
            if self.op == "update":
                return z3.Exists([x, idx], z3.And(conforms(x, T), z3.Or(is_none(idx), is_index(idx)),
                                                  seq_insert_rel(n0, e0, n1, e1, idx, x, z3.BoolVal(False))))
            if self.op == "transform":
                return seq_replaced_where(n0, e0, n1, e1, g("_value_or_index"), g("_by_index"), T, MISS)
            v, bi = g("_value_or_index"), g("_by_index")
            by_index = z3.If(bi == MISS, z3.Not(conforms(v, T)), b_of(bi))
            removed_at = lambda q: z3.And(q >= 0, q < n0, n1 == n0 - 1,
                                          z3.ForAll([j], z3.Implies(z3.And(j >= 0, j < q), z3.Select(e1, j) == z3.Select(e0, j))),
                                          z3.ForAll([j], z3.Implies(z3.And(j >= q, j < n1), z3.Select(e1, j) == z3.Select(e0, j + 1))))
            first = lambda q: z3.And(py_eq(z3.Select(e0, q), v), z3.ForAll([j], z3.Implies(z3.And(j >= 0, j < q), z3.Not(py_eq(z3.Select(e0, j), v)))))
            return z3.If(v == MISS, n1 == n0, z3.If(by_index, removed_at(norm(as_index(v), n0)), z3.Exists([p], z3.And(removed_at(p), first(p)))))
        h0, v0, h1, v1 = st.get("dhas", A), st.get("dval", A), c.post.get("dhas", A), c.post.get("dval", A)
        k, x = z3.Const("k!hc", Val), z3.Const("x!hc", Val)
        if self.family == "mapping":
            kk = kn(g("_key"))
            others = z3.ForAll([k], z3.Implies(k != kk, z3.And(z3.Select(h1, k) == z3.Select(h0, k),
                                                               z3.Implies(z3.Select(h0, k), z3.Select(v1, k) == z3.Select(v0, k)))))
            if self.op == "without":
                return z3.And(z3.Select(h0, kk), z3.Not(z3.Select(h1, kk)), others)
            return z3.And(z3.Select(h1, kk), conforms(z3.Select(v1, kk), T), others,
                          z3.Implies(z3.BoolVal(self.op != "with"), z3.Select(h0, kk)))
        item = kn(g("_item"))
        if self.op == "without":
            return z3.And(z3.Select(h0, item), z3.ForAll([k], z3.Select(h1, k) == z3.And(z3.Select(h0, k), k != item)))
        drop = z3.And(z3.BoolVal(self.op != "with"), g("_item") != MISS) if self.op != "with" else z3.BoolVal(False)
        return z3.Exists([x], z3.And(conforms(x, T), z3.ForAll([k], z3.Select(h1, k) == z3.Or(
            k == kn(x), z3.And(z3.Select(h0, k), z3.Not(z3.And(drop, k == item)))))))

    def exc_frozen(self, c):
        eng, st, o = c.eng, c.pre, c.self
        return [("c07.why", frozen(eng, st, o)), ("c04.unchanged", z3.And(unchanged_obj(st, c.post, o), self.container_unchanged(c)))]

    def exc_edit(self, c):
        # a missing target, an element of the wrong type, an unhashable key ...: raised by the edit of the collection, before
        # anything is assigned
        return [("c04.unchanged", z3.And(unchanged_obj(c.pre, c.post, c.self), self.container_unchanged(c)))]

    def exc_attr(self, c):
        # the assignment itself was refused (an attribute backed by a property without setter).  KNOWN FINDING
        # C04 inplace-element-helper-readonly-property: with _inplace the container has been edited by then
        inplace = b_of(c.eng.to_val(c.pre, c._inplace))
        return [("c04.unchanged", unchanged_obj(c.pre, c.post, c.self)), ("c04.container", z3.Implies(z3.Not(inplace), self.container_unchanged(c)))]

    def exc_any(self, c):
        eng, st, o = c.eng, c.pre, c.self
        has_deps = eng.truthy(st, invmap(eng, st, o))
        inplace = b_of(eng.to_val(st, c._inplace))
        return [("c04.receiver", z3.Implies(z3.Or(z3.Not(self.in_place(c)), z3.Not(has_deps)), unchanged_obj(st, c.post, o))),
                ("c04.container", z3.Implies(z3.Not(inplace), self.container_unchanged(c)))]


def _helper(fam, op, cls, fn, kw):
    name = "%s%sItem" % ({"sequence": "Seq", "mapping": "Map", "set": "Set"}[fam], op.capitalize())
    body = {"qual": "%s.%ss:%s.%s" % (MCOLL, fam, cls, fn), "family": fam, "op": op, "kw": kw, "kwargs_symbolic": kw is not None,
            "__doc__": "%s_<item> on a %s attribute" % (op, fam), "__module__": __name__}
    k = type("H" + name, (CollHelper,), body)
    globals()["H" + name] = k
    return register(k)


for _fam, _F in (("sequence", "Sequence"), ("mapping", "Mapping"), ("set", "Set")):
    _helper(_fam, "with", "With%sItemMethod" % _F, "with_%s_item" % _fam, "attrs")
    _helper(_fam, "update", "Update%sItemMethod" % _F, "update_%s_item" % _fam, "attrs")
    _helper(_fam, "transform", "Transform%sItemMethod" % _F, "transform_%s_item" % _fam, "attr_transforms")
    _helper(_fam, "without", "Without%sItemMethod" % _F, "without_%s_item" % _fam, None)
