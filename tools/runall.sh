#!/bin/bash
# run every claimed check (quick tier) on the current tree; one summary line each
cd /verif
for p in $(python3 -c "import json;print(' '.join(c['property_id'] for c in json.load(open('MANIFEST.json'))['checks']))"); do
  ./check $p "$@" 2>&1 | grep -v WARNING | grep -E "VIOLATION|UNDECIDED|ERROR|exit [0-9]" | cut -c1-250
done
