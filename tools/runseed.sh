#!/bin/bash
# usage: tools/runseed.sh <seeded-dir-name> <check> [<check> ...]   - applies the change to /repo, runs the checks, undoes it
set -u
d=/verif/seeded/$1; shift
git -C /repo status --short | grep -q . && { echo "repo not clean"; exit 9; }
git -C /repo apply $d/patch.diff || { echo "patch does not apply"; exit 9; }
for c in "$@"; do
  out=$(cd /verif && ./check $c --tier quick 2>&1 | grep -v WARNING)
  echo "$out" | grep -E "VIOLATION|UNDECIDED|ERROR|exit" | cut -c1-260 | head -8
done
git -C /repo checkout -- .
git -C /verif checkout -- evidence 2>/dev/null
