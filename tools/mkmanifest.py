#!/usr/bin/env python3
"""Regenerate MANIFEST.json from the table below (keeps it schema-valid)."""
import json
import os

VERIF = os.path.dirname(os.path.dirname(os.path.abspath(__file__)))
ALL = ["C%02d" % i for i in range(1, 21)]

TECH = "contract-based deductive verification: sidecar contracts on the real functions, VCs generated from /repo's ast by pyvc, discharged by z3/cvc5"

CHECKS = {
    "C17": dict(
        category="translation_validation", design_ref="DESIGN.md section 8 (C17)",
        text=("Per generated program: on every run the real MethodBuilder is executed for a corpus of spec classes and each distinct wrapper text it hands to "
              "exec is symbolically executed and proved, for all argument values, to reject a keyword outside its virtual keywords with TypeError before "
              "anything is called, and otherwise to call the implementation exactly once with every parameter forwarded under its own name, the remaining "
              "keywords unchanged, returning its result; validate_attrs is proved against its body for every keyword set (z3); the advertised signature "
              "is compared statically with the def line, the virtual keywords and the implementation's signature."),
        note=("The corpus of generated programs is bounded (76 generated methods of three classes, every helper kind); each program is validated for all "
              "inputs. The string assembly inside MethodBuilder is not verified - its output is. One open known finding: advertised defaults of virtual "
              "keywords are not the behaviour of omitting them.")),
    "C16": dict(
        category="proof", design_ref="DESIGN.md section 8 (C16)",
        text=("spec_class.register_method - the single gate through which generated helpers reach the decorated class - is symbolically executed from the "
              "current source and proved, for every class, name and method, to keep whatever the class's own namespace already defines under that name "
              "(user-written __init__/__repr__/__eq__/helpers/class attributes) and otherwise to define exactly that name; discharged by z3. The helper "
              "set per attribute kind, singular naming, collision fallback and lazy descriptors are exercised by a labelled bounded stand-in only."),
        note=("The proof covers the 'never replaces user code' clause; 'exactly the documented helpers' is bounded (three class bodies). Assumed: the class "
              "namespace model (cdict), __set_name__ hooks pure.")),
    "C09": dict(
        category="proof", design_ref="DESIGN.md section 8 (C09)",
        text=("InitMethod.init is symbolically executed from the current source in full: phase 1 (nested loops over the ancestors along the MRO and their attributes) hands exactly the attributes owned by an ancestor - protectively copied - to that ancestor's constructor and leaves in the keyword dict what was passed for the attributes the class itself owns; phase 2 (loop invariant over the attrs dict, each assignment through the proved contract of the generated __setattr__) stores a given keyword value prepared and copied, otherwise the nearest default (Attr.lookup_default_value, itself discharged in a sub-check), otherwise leaves the attribute missing, and writes no other slot; phase 3 runs __post_init__ exactly once after the loop (ghost call log) and removes the initializing flag. Discharged by z3."),
        note=("Assumed: what a parent's constructor does (A-PARENT-CTOR: writes to the instance only), the MRO (A-MRO), metadata shape of the ancestors (A-META); overflow attribute and generated signature: bounded / C17; the stored values of parent-routed attributes: bounded stand-in over five hierarchies. One genuine defect in phase 1 found by the stand-in was repaired (arguments routed through a parent were not copied).")),
    "C18": dict(
        category="proof", design_ref="DESIGN.md section 8 (C18)",
        text=("Alias.__get__/__set__/__delete__ and the three DeprecatedAlias wrappers are symbolically executed from the current source against the "
              "two-variable model of the statement (live target vs per-instance override; passthrough; transform; fallback copy; AttributeError) "
              "for identifier and dotted paths, with every option symbolic; DeprecatedAlias is proved to warn exactly once and to change nothing "
              "else. All obligations discharged by z3."),
        note=("Scope: paths of one or two identifier components; the regular-expression parser and [\"key\"] components rest on a labelled bounded "
              "stand-in (operation histories over six path forms). Assumed: A-LOOKUP, A-NAMES (override slot name distinct), A-CB, A-COPY.")),
    "C10": dict(
        category="proof", design_ref="DESIGN.md section 8 (C10)",
        text=("EqMethod.eq is symbolically executed from the current source (loop invariant over the attrs dict) and proved to return exactly the "
              "relation of the statement: compatible classes and every compare-enabled attribute equal (missing only equals missing, compare=False "
              "ignored, two bound methods equal iff same function); reflexivity, symmetry, transitivity and deepcopy(x) == x are discharged as "
              "lemmas over that relation and the proved contract of __deepcopy__ (z3). repr, != and re-construction are covered only by a labelled "
              "bounded stand-in."),
        note=("Assumed: A-EQ (== on attribute values is a total equivalence, methods only equal methods), A-DISPATCH (Python's reflected-operand "
              "rule), A-COPY (copies are ==). Two genuine defects found by these contracts were repaired (eq early return; __deepcopy__ dropping "
              "own bound methods).")),
    "C06": dict(
        category="proof", design_ref="DESIGN.md section 8 (C06)",
        text=("SequenceMutator / MappingMutator / SetMutator: _extractor, _inserter, add_item, transform_item, remove_item (with the generic "
              "_mutate_collection inlined) and CollectionAttrMutator.__init__ are symbolically executed from the current source against the plain "
              "Python container operation on the abstract content of the collection: exactly one position / key / element is written, with a value "
              "that passed the element (and key) type check, every other element and the order of the others are untouched, the container is created "
              "when missing, a missing target raises IndexError / KeyError / ValueError with the container unchanged. The twelve generated helpers "
              "are proved to apply exactly that edit to the attribute's container in place, or to a private copy with receiver and container untouched. "
              "All obligations discharged by z3/cvc5 for all contents, indices and flags."),
        note=("Scope: built-in list/dict/set containers, no slice addressing. Assumed: type_instantiate, MappingMutator._key_type (typing reflection), "
              "mutate_value's computed element is opaque beyond its type (keywords / constructor / key promotion: bounded stand-in), A-COPY for the "
              "private copy, A-META for the Attr record's element fields. One open known finding (in-place helper on a read-only property).")),
    "C01": dict(
        category="proof", design_ref="DESIGN.md section 8 (C01)",
        text=("The functions every copy-on-write helper funnels through - mutate_attr, with_<attr>, reset_<attr>, reset, the generated __deepcopy__/__setattr__/__delattr__ and invalidate_attrs - are symbolically executed from the current source; every heap write in them is a frame obligation (target allocated during the call, or _inplace / do_not_copy class), and 'receiver unchanged' is a postcondition of every normal and exceptional exit, discharged by z3/cvc5 for all instances, attribute names and metadata. Helpers outside these functions rest on the bounded stand-in."),
        note=('Trusted: pyvc encoding of Python, z3/cvc5; assumed: copy.deepcopy on non-spec values (A-COPY), check_type as the relation proved under C15, prepare_attr_value as an uninterpreted function of its arguments (its frame is proved in the sub-check of C01/C06), metadata shape A-META, acyclic invalidation maps A-ACYCLIC, pure callbacks A-CB, A-LEAF/A-RECV, A-SHARED for mutate_value. Attr.lookup_default_value, protect_via_deepcopy, the collection mutators and element helpers are discharged in sub-checks. Composition through the public API, the content of keyword merges and phase 1 of the constructor rest on labelled bounded stand-ins.')),
    "C02": dict(
        category="proof", design_ref="DESIGN.md section 8 (C02)",
        text=('__deepcopy__ is proved slot by slot for an arbitrary instance and metadata record: do_not_copy attributes carried by identity, every other slot related to the original by the copy relation (fresh or atomic), instance-bound methods dropped; mutate_attr/with_<attr>/reset_<attr> return that copy with one slot replaced. Discharged by z3/cvc5; deep reachability below one level rests on the assumed contract of copy.deepcopy (A-COPY).'),
        note=('Trusted: pyvc encoding of Python, z3/cvc5; assumed: copy.deepcopy on non-spec values (A-COPY), check_type as the relation proved under C15, prepare_attr_value as an uninterpreted function of its arguments (its frame is proved in the sub-check of C01/C06), metadata shape A-META, acyclic invalidation maps A-ACYCLIC, pure callbacks A-CB, A-LEAF/A-RECV, A-SHARED for mutate_value. Attr.lookup_default_value, protect_via_deepcopy, the collection mutators and element helpers are discharged in sub-checks. Composition through the public API, the content of keyword merges and phase 1 of the constructor rest on labelled bounded stand-ins.')),
    "C03": dict(
        category="proof", design_ref="DESIGN.md section 8 (C03)",
        text=("mutate_attr, the generated __setattr__/__delattr__ and with_<attr> are symbolically executed from the current source: a managed slot is written only with a value for which check_type(value, annotation) returned True (the relation proved structural under C15), a non-conforming value raises TypeError with nothing stored; the slot-wise invariant 'absent or conforming' is a pre/postcondition. Discharged by z3/cvc5. Element helpers and the constructor rest on the bounded stand-in."),
        note=('Trusted: pyvc encoding of Python, z3/cvc5; assumed: copy.deepcopy on non-spec values (A-COPY), check_type as the relation proved under C15, prepare_attr_value as an uninterpreted function of its arguments (its frame is proved in the sub-check of C01/C06), metadata shape A-META, acyclic invalidation maps A-ACYCLIC, pure callbacks A-CB, A-LEAF/A-RECV, A-SHARED for mutate_value. Attr.lookup_default_value, protect_via_deepcopy, the collection mutators and element helpers are discharged in sub-checks. Composition through the public API, the content of keyword merges and phase 1 of the constructor rest on labelled bounded stand-ins.')),
    "C04": dict(
        category="proof", design_ref="DESIGN.md section 8 (C04)",
        text=("Every declared exceptional exit of mutate_attr, __setattr__, __delattr__, with_<attr>, reset_<attr>, reset and __deepcopy__ carries 'receiver and every pre-existing object unchanged' as exceptional postcondition; exits after an in-place write are enumerated by the write-site frame obligations. Discharged by z3/cvc5. Multi-attribute update/transform, element helpers and the constructor rest on the bounded stand-in; one open known finding (multi-attribute _inplace update) is reported as KNOWN-FINDING."),
        note=('Trusted: pyvc encoding of Python, z3/cvc5; assumed: copy.deepcopy on non-spec values (A-COPY), check_type as the relation proved under C15, prepare_attr_value as an uninterpreted function of its arguments (its frame is proved in the sub-check of C01/C06), metadata shape A-META, acyclic invalidation maps A-ACYCLIC, pure callbacks A-CB, A-LEAF/A-RECV, A-SHARED for mutate_value. Attr.lookup_default_value, protect_via_deepcopy, the collection mutators and element helpers are discharged in sub-checks. Composition through the public API, the content of keyword merges and phase 1 of the constructor rest on labelled bounded stand-ins.')),
    "C05": dict(
        category="proof", design_ref="DESIGN.md section 8 (C05)",
        text=('with_<attr>, obj.a = v, reset_<attr>, reset and del are proved to compute exactly the documented state: the named slot holds the prepared value (or the class default), every other slot is carried over (identically in place, by the copy relation otherwise), _if=False returns the receiver untouched, and obj.a = v is literally the _inplace contract of with_a. Discharged by z3/cvc5. update_/transform_/update/transform rest on the bounded stand-in; one open known finding (with_a(MISSING)) is reported as KNOWN-FINDING.'),
        note=('Trusted: pyvc encoding of Python, z3/cvc5; assumed: copy.deepcopy on non-spec values (A-COPY), check_type as the relation proved under C15, prepare_attr_value as an uninterpreted function of its arguments (its frame is proved in the sub-check of C01/C06), metadata shape A-META, acyclic invalidation maps A-ACYCLIC, pure callbacks A-CB, A-LEAF/A-RECV, A-SHARED for mutate_value. Attr.lookup_default_value, protect_via_deepcopy, the collection mutators and element helpers are discharged in sub-checks. Composition through the public API, the content of keyword merges and phase 1 of the constructor rest on labelled bounded stand-ins.')),
    "C07": dict(
        category="proof", design_ref="DESIGN.md section 8 (C07)",
        text=('frozen is a symbolic flag of the metadata record in the proofs of mutate_attr, __setattr__, __delattr__, with_<attr>, reset_<attr>, reset: an in-place mutation of a frozen instance outside initialisation raises FrozenInstanceError with the receiver unchanged; copy-on-write returns a distinct fresh instance with the same contract as the unfrozen class. Discharged by z3/cvc5; one open known finding (reset/update on the private copy of a frozen instance raise) is reported as KNOWN-FINDING.'),
        note=('Trusted: pyvc encoding of Python, z3/cvc5; assumed: copy.deepcopy on non-spec values (A-COPY), check_type as the relation proved under C15, prepare_attr_value as an uninterpreted function of its arguments (its frame is proved in the sub-check of C01/C06), metadata shape A-META, acyclic invalidation maps A-ACYCLIC, pure callbacks A-CB, A-LEAF/A-RECV, A-SHARED for mutate_value. Attr.lookup_default_value, protect_via_deepcopy, the collection mutators and element helpers are discharged in sub-checks. Composition through the public API, the content of keyword merges and phase 1 of the constructor rest on labelled bounded stand-ins.')),
    "C08": dict(
        category="proof", design_ref="DESIGN.md section 8 (C08)",
        text=("__delattr__, reset_<attr>, reset are proved to install exactly what Attr.lookup_default_value(type(self)) yields - the same function the constructor uses - and to leave the slot missing when there is none; the stored value is the lookup's result (mutate-safe by its assumed contract), never the class attribute itself. Discharged by z3/cvc5. The constructor's own copying of defaults/arguments and peers rest on the bounded stand-in."),
        note=('Trusted: pyvc encoding of Python, z3/cvc5; assumed: copy.deepcopy on non-spec values (A-COPY), check_type as the relation proved under C15, prepare_attr_value as an uninterpreted function of its arguments (its frame is proved in the sub-check of C01/C06), metadata shape A-META, acyclic invalidation maps A-ACYCLIC, pure callbacks A-CB, A-LEAF/A-RECV, A-SHARED for mutate_value. Attr.lookup_default_value, protect_via_deepcopy, the collection mutators and element helpers are discharged in sub-checks. Composition through the public API, the content of keyword merges and phase 1 of the constructor rest on labelled bounded stand-ins.')),
    "C11": dict(
        category="proof", design_ref="DESIGN.md section 8 (C11)",
        text=("invalidate_attrs is proved (loop invariants over the dependency worklist; mutual recursion with the generated __delattr__ through their contracts) to clear every TRANSITIVE dependant of the changed attribute and of '*' (reach = transitive closure of the invalidation map), to touch nothing outside that closure, and only ever to clear; mutate_attr/__setattr__/__delattr__/with_<attr>/reset_<attr> are proved to reach it on every successful route and to change nothing on failure. Discharged by z3/cvc5. Termination needs an acyclic dependency graph (A-ACYCLIC, not proved); spec_property caches (C12) compose through the bounded stand-in. One genuine defect found by this contract was repaired (chains through a link holding no value)."),
        note=('Trusted: pyvc encoding of Python, z3/cvc5; assumed: copy.deepcopy on non-spec values (A-COPY), check_type as the relation proved under C15, prepare_attr_value as an uninterpreted function of its arguments (its frame is proved in the sub-check of C01/C06), metadata shape A-META, acyclic invalidation maps A-ACYCLIC, pure callbacks A-CB, A-LEAF/A-RECV, A-SHARED for mutate_value. Attr.lookup_default_value, protect_via_deepcopy, the collection mutators and element helpers are discharged in sub-checks. Composition through the public API, the content of keyword merges and phase 1 of the constructor rest on labelled bounded stand-ins.')),
    "C13": dict(
        category="proof", design_ref="DESIGN.md section 8 (C13)",
        text=("Every KeyedList primitive and every non-generator MutableSequence/Sequence mixin it inherits is symbolically "
              "executed from the current source against a contract (plain-list operation on the abstract view + unique-key "
              "rule; representation invariant pre/post on normal and exceptional exits; write-site frame obligations); all "
              "obligations are discharged by z3/cvc5 for all inputs and all iterations. Induction over histories via the "
              "invariant. Generators (__iter__, __reversed__, count) and stepped slices rest on a labelled bounded stand-in."),
        note=("Trusted: pyvc encoding of Python (A-BUILTINS, A-LOOKUP), z3/cvc5, A-KEY/A-EQ/A-ITER (pure stable key function, "
              "lawful __eq__/__hash__), check_type as the uninterpreted relation proved under C15; bounded stand-in for "
              "generator mixins; replay search is bounded (lists <= 3 items).")),
    "C14": dict(
        category="proof", design_ref="DESIGN.md section 8 (C14)",
        text=("KeyedSet.add/discard/__contains__/__getitem__/get/__len__/__eq__/__init__ and the inherited MutableSet "
              "remove/pop/clear/|=/-= are symbolically executed from the current source against contracts over the abstract "
              "map key -> item (item-or-key resolution, most-recently-added wins, enforce_item_equivalence, typed containers); "
              "the representation invariant is a pre/postcondition of every operation on normal and exceptional exits, all "
              "obligations discharged by z3/cvc5 for all inputs and iterations. The Set-mixin binary operators and "
              "comparisons (generator expressions, cardinality short-cut) rest on a labelled bounded stand-in; one open known "
              "finding (built-in set operands) is reported as KNOWN-FINDING."),
        note=("Trusted: pyvc encoding of Python, z3/cvc5, A-KEY/A-EQ/A-ITER, check_type as the relation proved under C15; "
              "bounded stand-in for |,&,-,^,<=,<,>=,>,isdisjoint,&=,^= (sets <= 2-3 items, 5 universes).")),
    "C15": dict(
        category="proof", design_ref="DESIGN.md section 8 (C15)",
        text=("check_type, _is_subclass_of_type and the validator closure of bounded() are symbolically executed from the "
              "current source; on every path the returned bool equals the structural relation conforms(value, annotation) "
              "written from the statement (one-step unfolding, recursive calls by contract, loop invariants for the element "
              "loops, any(...) as an exists term) and no exception escapes; all obligations discharged by z3 for all values "
              "and all annotations of the language, unbounded nesting depth."),
        note=("A-TYPING (how typing objects look to the code) is an assumed contract on the typing module, validated on "
              "every run against a generated pool of real annotations; values are not mutated during the check; replay "
              "search is a bounded differential run against an independent implementation of conformance.")),
    "C20": dict(
        category="proof", design_ref="DESIGN.md section 8 (C20)",
        text=("_modules_copyable.__new__/__enter__/__exit__ and protect_via_deepcopy are symbolically executed from the current "
              "source against the guard invariant (refcount >= 0; dispatch table equals the table before first use off ModuleType; "
              "patched => entry present, not originally there, refcount > 0; refcount = 0 => table restored) on normal and "
              "exceptional exits of the copy, nested copies by induction through the contract of protect_via_deepcopy itself; "
              "the thread clause follows by the monitor rule whose syntactic obligations (every access under `with self.lock`, "
              "singleton and lock created once under a class-level lock) are checked on the AST on every run."),
        note=("Assumed: copy.deepcopy (A-COPY), threading.RLock (A-RLOCK), no foreign writer of dispatch_table[ModuleType] during "
              "a copy, asynchronous exceptions not modelled; no schedule is enumerated - the thread stress run is a bounded "
              "replay aid only.")),
    "C12": dict(
        category="proof", design_ref="DESIGN.md section 8 (C12)",
        text=("spec_property.__get__/__set__/__delete__ and classproperty.__get__/__set__/__delete__ are symbolically executed "
              "from the current source with every option flag symbolic (all 16 combinations in one proof each); the "
              "postconditions are the override / cache / getter protocol of the statement, including 'getter called exactly once / "
              "not at all' via a ghost call log, the preparer + type check on spec classes, and 'a failing operation changes "
              "nothing'; all obligations discharged by z3. The composition into arbitrary interleavings (three-state machine) and "
              "option propagation through .getter/.setter/.deleter are executed by a labelled bounded stand-in."),
        note=("Assumed: callbacks pure (A-CB), metadata shape (A-META), prepare_attr_value / check_type through their contracts; "
              "bounded stand-in: sequences <= 3/4 over 16 option combinations.")),
}

NA = {
    "C19": "schedule-quantified property over unsynchronised reflective code (spec_class.bootstrap runs without a lock; typing.get_type_hints / vars() / exec are outside any subset whose VCs can be generated soundly); no contract within reach expresses or decides it (DESIGN.md section 9)",
}


def main():
    checks = []
    for pid in ALL:
        if pid not in CHECKS:
            continue
        c = CHECKS[pid]
        checks.append({
            "property_id": pid,
            "quick_cmd": "./check %s --tier quick" % pid,
            "thorough_cmd": "./check %s --tier thorough" % pid,
            "evidence_file": "evidence/%s.json" % pid,
            "replay_cmd_template": "PYTHONPATH=/repo:/verif /venv/bin/python {path}",
            "engine": "pyvc",
            "level_claimed": {"category": c["category"], "text": c["text"], "design_ref": c["design_ref"]},
            "level_note": c["note"],
            "technique": c.get("technique", TECH),
        })
    na = []
    for pid in ALL:
        if pid in CHECKS:
            continue
        na.append({"property_id": pid, "reason": NA.get(pid, "check not built yet (build in progress; see DESIGN.md section 8)")})
    m = {
        "version": 1,
        "setup_cmd": "python3-vt -m compileall -q pyvc contracts props bounded >/dev/null 2>&1; true",
        "hooks": {"guard": "SPEC_CLASSES_VERIF",
                  "enable": "no hooks are needed: contracts are sidecar files under /verif/contracts and the verified text is re-read from /repo's working tree on every run",
                  "baseline_off_cmd": "cd /repo && /venv/bin/python -m pytest -ra -q -p no:cacheprovider --timeout=900 --continue-on-collection-errors",
                  "source_commits": [], "add_only": True},
        "engines": [{"name": "pyvc", "path": "pyvc/", "serves_properties": sorted(CHECKS),
                     "kind_free_text": "ast -> path-wise symbolic execution over an SSA heap -> proof obligations -> z3 (python API, portfolio) / z3 CLI / cvc5; sidecar contracts in contracts/, concrete replay harnesses in bounded/"}],
        "checks": checks,
        "not_applicable": na,
        "notes": "Exit codes of ./check: 0 held, 1 violation (VIOLATION line), 2 undecided, 3 checker error. Genuine defects repaired in /repo are listed as 'fixed:' lines in KNOWN_FINDINGS.jsonl.",
    }
    with open(os.path.join(VERIF, "MANIFEST.json"), "w") as fh:
        json.dump(m, fh, indent=1)


if __name__ == "__main__":
    main()
